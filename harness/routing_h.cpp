// Harness for the routing-table half of KademliaTable (C07): real code, virtual clock.
// Ops (one output line each):
//   init <selfid>                       -> ok            (fresh table with that local id)
//   adv <ns>                            -> ok
//   reg <id> <addr> <ttl_ns | epoch>    -> register_peer with expires_at = now + ttl_ns (any sign) or the
//                                          epoch sentinel; output = dump of the bucket(s) now holding <id>
//                                          (`<idx>=[id:addr:exp,...]` in deque order), `-` if none does
//   add <chunk> <id> <addr> <ttl_s>     -> add_contact; same output
//   sweep                               -> sweep_expired; whole dump `idx=[..]|idx=[..]` of the non-empty
//                                          buckets in index order, `-` if none
//   buckets                             -> whole dump
//   closest <target> <limit>            -> closest_peers: `id:addr:exp,...` in result order, `-` if empty
// ids are tokens of verif::id32 (64 hex chars literally, otherwise short names) and are printed back as
// the token they were last given as. Nothing is sorted: deque order and result order are compared.
#include "common/lineproto.hpp"
#include "common/vclock.hpp"
#include "ephemeralnet/dht/KademliaTable.hpp"

#include <map>
#include <memory>

using namespace ephemeralnet;

namespace {
std::unique_ptr<KademliaTable> table;
std::map<std::string, std::string> names;  // hex id -> token

std::string name_of(const PeerId& id) {
    auto it = names.find(verif::to_hex(id));
    return it == names.end() ? verif::to_hex(id) : it->second;
}
PeerId intern(const std::string& tok) {
    auto id = verif::id32(tok);
    names.emplace(verif::to_hex(id), tok);  // first token given for an id wins (the driver does the same)
    return id;
}
std::string fmt_contact(const PeerContact& c) {
    return name_of(c.id) + ":" + c.address + ":" + std::to_string(c.expires_at.time_since_epoch().count());
}
template <class Seq> std::string fmt_seq(const Seq& s) {
    std::string out;
    bool first = true;
    for (const auto& c : s) { if (!first) out += ","; first = false; out += fmt_contact(c); }
    return out;
}
// dump of the buckets selected by `want` (all non-empty ones when want is null)
std::string dump(const PeerId* want) {
    std::string out;
    if constexpr (requires { table->buckets_; }) {
        for (std::size_t i = 0; i < table->buckets_.size(); ++i) {
            const auto& b = table->buckets_[i];
            if (b.empty()) continue;
            if (want) {
                bool has = false;
                for (const auto& c : b) if (c.id == *want) { has = true; break; }
                if (!has) continue;
            }
            if (!out.empty()) out += "|";
            out += std::to_string(i) + "=[" + fmt_seq(b) + "]";
        }
    } else {
        return "no-private-access";
    }
    return out.empty() ? "-" : out;
}
}  // namespace

int main(int argc, char** argv) {
    verif::Handler h;
    h.reset = [] {
        verif::vclock_set(verif::kVclockStart);
        names.clear();
        PeerId self{};
        table = std::make_unique<KademliaTable>(self, Config{});
    };
    h.op = [](const std::vector<std::string>& t, const std::string&) -> std::string {
        if (t[0] == "init" && t.size() == 2) {
            names.clear();
            table = std::make_unique<KademliaTable>(intern(t[1]), Config{});
            return "ok";
        }
        if (t[0] == "adv" && t.size() == 2) { verif::vclock_advance(std::stoll(t[1])); return "ok"; }
        if (t[0] == "reg" && t.size() == 4) {
            PeerContact c{};
            c.id = intern(t[1]);
            c.address = t[2];
            if (t[3] == "epoch") {
                c.expires_at = std::chrono::steady_clock::time_point{};
            } else {
                c.expires_at = std::chrono::steady_clock::now() + std::chrono::nanoseconds(std::stoll(t[3]));
            }
            table->register_peer(c);
            return dump(&c.id);
        }
        if (t[0] == "add" && t.size() == 5) {
            const auto chunk = verif::id32(t[1]);
            PeerContact c{};
            c.id = intern(t[2]);
            c.address = t[3];
            table->add_contact(chunk, c, std::chrono::seconds(std::stoll(t[4])));
            return dump(&c.id);
        }
        if (t[0] == "sweep" && t.size() == 1) { table->sweep_expired(); return dump(nullptr); }
        if (t[0] == "buckets" && t.size() == 1) { return dump(nullptr); }
        if (t[0] == "closest" && t.size() == 3) {
            const auto target = intern(t[1]);
            const auto res = table->closest_peers(target, static_cast<std::size_t>(std::stoull(t[2])));
            return res.empty() ? std::string("-") : fmt_seq(res);
        }
        return "bad-op";
    };
    return verif::run_lines(argc, argv, h);
}
