// Harness for C09: the real ChaCha20.cpp / CryptoManager.cpp, in-process.
// The two .cpp files are #included so that the anonymous-namespace functions
// (quarter_round, chacha20_block, derive_counter) can be called directly.
//
// Every op runs under alarm(10).
// Byte arguments are lowercase hex, "-" for empty, or `gen:<len>:<seed>` (deterministic filler,
// same generator in lean/Driver/C09.lean). Byte results are printed by `canon`: hex up to 256
// bytes, above that `len:<n>:fnv:<fnv1a-64>:head:<16 bytes>:tail:<16 bytes>`.
//
//   qr <a> <b> <c> <d>                      -> a b c d (8 hex digits each) after quarter_round
//   block <key> <nonce> <ctr>               -> 64 key-stream bytes of chacha20_block
//   apply <key> <nonce> <ctr> <input>       -> ChaCha20::apply into a fresh vector
//   applyinto <key> <nonce> <ctr> <input> <old> -> ChaCha20::apply into a vector already holding <old>
//   twice <key> <nonce> <ctr> <input>       -> apply(apply(input))
//   applyinplace <key> <nonce> <ctr> <buf>  -> apply(key, nonce, span(buf), buf, ctr): input span and output vector are the same storage
//   inplacetwice <key> <nonce> <ctr> <buf>  -> the same, twice
//   applyalias-longer <key> <nonce> <ctr> <vec> <n>  -> input = span over the first n <= |vec| bytes of the output vector: the vector afterwards
//   applyalias-shorter <key> <nonce> <ctr> <vec> <n> -> n > |vec|, span over reserved capacity (no reallocation): `<size>:<first |vec| bytes>`
//                                               (the bytes beyond the old size were not live input; only the determined part is printed)
//   ctr <id>                                -> derive_counter(id), decimal
//   mgr_enc <key> <id> <pt>                 -> CryptoManager::encrypt_with_key: `<nonce> <data> enc=<flag>`
//   mgr_dec <key> <id> <nonce> <ct>         -> CryptoManager::decrypt_with_key: `<pt>` | `nullopt`
//   mgr_rt <key> <id> <pt>                  -> static encrypt then static decrypt: `<nonce> <data> <pt'>`
//   mgr_obj <key> <id> <pt>                 -> one CryptoManager{key}: `<key_> <nonce> <data> <pt'>`
//
// VERIF_INTERNALS (default 1): `qr`, `block` and `ctr` call anonymous-namespace helpers by name, which a
// harmless rename breaks. Built with -DVERIF_INTERNALS=0 the harness uses the public API only
// (ChaCha20::apply, CryptoManager) and answers `internals-unavailable` to those three ops (the driver
// echoes that line without judging it; the plugin does not generate them).
#include "common/lineproto.hpp"

#ifndef VERIF_INTERNALS
#define VERIF_INTERNALS 1
#endif

#include "src/crypto/ChaCha20.cpp"
#include "src/crypto/CryptoManager.cpp"

#include <algorithm>
#include <cstdint>
#include <span>
#include <string>
#include <unistd.h>
#include <vector>

using namespace ephemeralnet;
using namespace ephemeralnet::crypto;

namespace {

using Bytes = std::vector<std::uint8_t>;

Bytes bytes_arg(const std::string& tok) {
    if (tok.rfind("gen:", 0) == 0) {
        const auto parts = verif::split(tok, ':');
        if (parts.size() != 3) throw std::invalid_argument("gen");
        const std::size_t n = std::stoull(parts[1]);
        std::uint64_t x = std::stoull(parts[2]);
        Bytes out(n);
        for (std::size_t i = 0; i < n; ++i) {
            x = x * 6364136223846793005ull + 1442695040888963407ull;
            out[i] = static_cast<std::uint8_t>(x >> 56);
        }
        return out;
    }
    return verif::from_hex(tok);
}

std::string canon(const Bytes& b) {
    if (b.empty()) return "-";
    if (b.size() <= 256) return verif::to_hex(b);
    std::uint64_t h = 14695981039346656037ull;
    for (auto v : b) { h ^= v; h *= 1099511628211ull; }
    char buf[17];
    std::snprintf(buf, sizeof buf, "%016llx", static_cast<unsigned long long>(h));
    return "len:" + std::to_string(b.size()) + ":fnv:" + buf + ":head:" + verif::to_hex(b.data(), 16) +
           ":tail:" + verif::to_hex(b.data() + b.size() - 16, 16);
}

template <std::size_t N> std::array<std::uint8_t, N> fixed(const std::string& tok) {
    const auto b = verif::from_hex(tok);
    if (b.size() != N) throw std::invalid_argument("length");
    std::array<std::uint8_t, N> a{};
    std::copy(b.begin(), b.end(), a.begin());
    return a;
}
Key key_arg(const std::string& tok) { Key k; k.bytes = fixed<32>(tok); return k; }
Nonce nonce_arg(const std::string& tok) { Nonce n; n.bytes = fixed<12>(tok); return n; }
std::uint32_t u32_arg(const std::string& tok) {
    const auto v = std::stoull(tok);
    if (v > 0xFFFFFFFFull) throw std::invalid_argument("u32");
    return static_cast<std::uint32_t>(v);
}
std::string hex32(std::uint32_t v) {
    char buf[9];
    std::snprintf(buf, sizeof buf, "%08x", v);
    return buf;
}

}  // namespace

int main(int argc, char** argv) {
    verif::Handler h;
    h.reset = [] {};
    h.op = [](const std::vector<std::string>& t, const std::string&) -> std::string {
        // a loop that no longer terminates must cost seconds, not the batch timeout: SIGALRM kills the
        // process and the framework records the op as crashed (signal:SIGALRM)
        struct Alarm { Alarm() { ::alarm(10); } ~Alarm() { ::alarm(0); } } guard;
#if VERIF_INTERNALS
        if (t[0] == "qr" && t.size() == 5) {
            std::uint32_t a = std::stoul(t[1], nullptr, 16), b = std::stoul(t[2], nullptr, 16),
                          c = std::stoul(t[3], nullptr, 16), d = std::stoul(t[4], nullptr, 16);
            quarter_round(a, b, c, d);
            return hex32(a) + " " + hex32(b) + " " + hex32(c) + " " + hex32(d);
        }
        if (t[0] == "block" && t.size() == 4) {
            std::array<std::uint8_t, kBlockSize> buf{};
            chacha20_block(key_arg(t[1]), nonce_arg(t[2]), u32_arg(t[3]), buf);
            return verif::to_hex(buf);
        }
#else
        if (t[0] == "qr" || t[0] == "block" || t[0] == "ctr") return "internals-unavailable";
#endif
        if (t[0] == "apply" && t.size() == 5) {
            const auto in = bytes_arg(t[4]);
            Bytes out;
            ChaCha20::apply(key_arg(t[1]), nonce_arg(t[2]), in, out, u32_arg(t[3]));
            return canon(out);
        }
        if (t[0] == "applyinto" && t.size() == 6) {
            const auto in = bytes_arg(t[4]);
            Bytes out = bytes_arg(t[5]);
            ChaCha20::apply(key_arg(t[1]), nonce_arg(t[2]), in, out, u32_arg(t[3]));
            return canon(out);
        }
        if ((t[0] == "applyinplace" || t[0] == "inplacetwice") && t.size() == 5) {
            Bytes buf = bytes_arg(t[4]);
            const auto key = key_arg(t[1]);
            const auto nonce = nonce_arg(t[2]);
            const auto ctr = u32_arg(t[3]);
            for (int round = 0; round < (t[0] == "inplacetwice" ? 2 : 1); ++round) {
                ChaCha20::apply(key, nonce, std::span<const std::uint8_t>(buf.data(), buf.size()), buf, ctr);
            }
            return canon(buf);
        }
        if ((t[0] == "applyalias-longer" || t[0] == "applyalias-shorter") && t.size() == 6) {
            Bytes vec = bytes_arg(t[4]);
            const std::size_t m = vec.size();
            const std::size_t n = std::stoull(t[5]);
            const bool longer = t[0] == "applyalias-longer";
            if (longer ? n > m : n <= m) throw std::invalid_argument("n");
            vec.reserve(std::max(n, m) + 1);   // resize(n) must not reallocate: the span stays valid
            ChaCha20::apply(key_arg(t[1]), nonce_arg(t[2]), std::span<const std::uint8_t>(vec.data(), n), vec, u32_arg(t[3]));
            if (longer) return canon(vec);
            Bytes head(vec.begin(), vec.begin() + static_cast<std::ptrdiff_t>(std::min(m, vec.size())));
            return std::to_string(vec.size()) + ":" + canon(head);
        }
        if (t[0] == "twice" && t.size() == 5) {
            const auto in = bytes_arg(t[4]);
            Bytes mid, out;
            ChaCha20::apply(key_arg(t[1]), nonce_arg(t[2]), in, mid, u32_arg(t[3]));
            ChaCha20::apply(key_arg(t[1]), nonce_arg(t[2]), mid, out, u32_arg(t[3]));
            return canon(out);
        }
#if VERIF_INTERNALS
        if (t[0] == "ctr" && t.size() == 2) {
            return std::to_string(derive_counter(fixed<32>(t[1])));
        }
#endif
        if (t[0] == "mgr_enc" && t.size() == 4) {
            const ChunkData pt = bytes_arg(t[3]);
            const auto ct = CryptoManager::encrypt_with_key(key_arg(t[1]), fixed<32>(t[2]), pt);
            return verif::to_hex(ct.nonce.bytes) + " " + canon(ct.data) + " enc=" + (ct.encrypted ? "1" : "0");
        }
        if (t[0] == "mgr_dec" && t.size() == 5) {
            const auto ct = bytes_arg(t[4]);
            const auto pt = CryptoManager::decrypt_with_key(key_arg(t[1]), fixed<32>(t[2]), ct, nonce_arg(t[3]));
            return pt.has_value() ? canon(*pt) : std::string("nullopt");
        }
        if (t[0] == "mgr_rt" && t.size() == 4) {
            const ChunkData pt = bytes_arg(t[3]);
            const auto key = key_arg(t[1]);
            const auto id = fixed<32>(t[2]);
            const auto ct = CryptoManager::encrypt_with_key(key, id, pt);
            const auto back = CryptoManager::decrypt_with_key(key, id, ct.data, ct.nonce);
            return verif::to_hex(ct.nonce.bytes) + " " + canon(ct.data) + " " + (back.has_value() ? canon(*back) : std::string("nullopt"));
        }
        if (t[0] == "mgr_obj" && t.size() == 4) {
            const ChunkData pt = bytes_arg(t[3]);
            const auto id = fixed<32>(t[2]);
            CryptoManager manager{key_arg(t[1])};
            const auto ct = manager.encrypt(id, pt);
            const auto back = manager.decrypt(id, ct.data, ct.nonce);
            return verif::to_hex(manager.key().bytes) + " " + verif::to_hex(ct.nonce.bytes) + " " + canon(ct.data) + " " +
                   (back.has_value() ? canon(*back) : std::string("nullopt"));
        }
        return "bad-op";
    };
    return verif::run_lines(argc, argv, h);
}
