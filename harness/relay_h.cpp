// Harness for the relay server (C25, C26): the real RelayServer + EventLoop objects with real
// loopback TCP client sockets.  The harness *is* the scheduler: it never calls EventLoop::run();
// it calls RelayServer::accept_new_clients() and RelayServer::on_client_event(session, mask)
// itself (private access via -fno-access-control), single-threaded, so every event order is
// chosen by the op list and replayable.
//
// Ops (client indices are small integers chosen by the op list; one output line each):
//   acc <k>            client k connects; the server accepts it
//   snd <k> <payload>  client k sends bytes (payload: parts joined by '+', each part hex or HEX*N),
//                      delivered in slices of kSlice bytes; after each slice has arrived the
//                      server gets one Readable event (handle_read then recv()s 4096-byte chunks)
//   eof <k>            client k closes its socket (FIN); server gets Readable (recv == 0)
//   shw <k>            client k half-closes (shutdown SHUT_WR); server gets Readable (recv == 0)
//   rst <k>            client k aborts (SO_LINGER 0 -> RST); server gets Readable (recv error)
//   hup <k>            the server gets an Error event for k (EPOLLERR/EPOLLHUP path)
//   accs <k>           like acc, but with tiny socket buffers (client SO_RCVBUF, relay-side SO_SNDBUF = 4096) so that
//                      the relay's send() towards k returns short counts as soon as k is not being drained
//   stall <k>          client k stops reading: the relay still gets Writable events for k (handle_write is called
//                      once per flush round) but nothing is read from k's socket, so the socket buffers fill up
//   resume <k>         client k reads again: everything the relay managed to send meanwhile, then drain as usual
//   nop                nothing (just the observation line)
// After every op all pending server output is flushed (Writable events until every write buffer
// is empty) and read back through the client sockets.
//
// Output line:  rx=<k>:<bytes>,..  cl=<k>,..  ss=<k>.<S>.<partner>.<readbuf-len>,..  rg=<key8>><k>,..  fd=<n>
//   rx  bytes each client socket received during this op (hex; above 160 bytes: hex of the first 160 bytes, then "~<len>:<fnv64>" of the rest)
//   cl  clients that observed their connection being closed by the server (recv()==0 / reset)
//   ss  server sessions (private view): state C/R/I/B, partner client or -, read_buffer size
//   rg  registered_ entries: first 8 chars of the key > client
//   fd  open descriptors of the process beyond the baseline and the harness's own client sockets
#include "common/lineproto.hpp"
#include "ephemeralnet/relay/EventLoop.hpp"
#include "ephemeralnet/relay/RelayServer.hpp"

#include <algorithm>
#include <csignal>
#include <cstring>
#include <dirent.h>
#include <map>
#include <memory>
#include <sstream>

#include <arpa/inet.h>
#include <netinet/in.h>
#include <netinet/tcp.h>
#include <poll.h>
#include <sys/ioctl.h>
#include <sys/socket.h>
#include <unistd.h>

using namespace ephemeralnet::relay;

namespace {
constexpr std::size_t kSlice = 16384;
constexpr int kWaitMs = 3000;

struct Client {
    int fd{-1};                                        // client-side socket (-1 once closed by the client itself)
    bool seen_closed{false};                           // the client observed the server closing
    std::weak_ptr<RelayServer::ClientSession> session;  // never extends the session's lifetime
    std::string rx;                                    // bytes received during the current op
    bool stalled{false};                               // not reading (back-pressure on the relay)
    std::size_t owed{0};                               // bytes the relay reports as sent while k was stalled
};

std::unique_ptr<EventLoop> loop;
std::unique_ptr<RelayServer> server;
std::map<int, Client> clients;
std::uint16_t port = 0;
int fd_baseline = 0;

int count_fds() {
    int n = 0;
    if (DIR* d = ::opendir("/proc/self/fd")) {
        while (auto* e = ::readdir(d)) {
            if (e->d_name[0] != '.') ++n;
        }
        ::closedir(d);
        --n;  // the directory handle itself
    }
    return n;
}

int open_client_fds() {
    int n = 0;
    for (auto& [k, c] : clients) if (c.fd >= 0) ++n;
    return n;
}

std::string fnv64(const std::string& s) {
    std::uint64_t h = 14695981039346656037ull;
    for (unsigned char ch : s) { h ^= ch; h *= 1099511628211ull; }
    char buf[17];
    std::snprintf(buf, sizeof buf, "%016llx", static_cast<unsigned long long>(h));
    return buf;
}

std::string show_bytes(const std::string& s) {
    if (s.size() <= 160) return verif::to_hex(s);
    // long payloads: the first 160 bytes in clear (the relay's own announcement line is in there), the rest hashed
    return verif::to_hex(s.substr(0, 160)) + "~" + std::to_string(s.size() - 160) + ":" + fnv64(s.substr(160));
}

std::shared_ptr<RelayServer::ClientSession> live_session(Client& c) {
    auto s = c.session.lock();
    if (!s || s->closing) return nullptr;
    auto it = server->sessions_.find(s->fd);
    if (it == server->sessions_.end() || it->second.get() != s.get()) return nullptr;
    return s;
}

bool wait_readable(int fd) {
    pollfd p{fd, POLLIN, 0};
    return ::poll(&p, 1, kWaitMs) > 0;
}

// read exactly n bytes from the client socket of c (they are known to have been sent)
void read_exact(Client& c, std::size_t n) {
    static char buf[65536];
    while (n > 0 && c.fd >= 0) {
        if (!wait_readable(c.fd)) break;
        const auto got = ::recv(c.fd, buf, std::min(n, sizeof buf), 0);
        if (got <= 0) break;
        c.rx.append(buf, static_cast<std::size_t>(got));
        n -= static_cast<std::size_t>(got);
    }
}

// Writable events until every server write buffer is empty; everything sent is read back.  A stalled client gets one
// handle_write per call (the relay tries, the kernel takes what fits, then EAGAIN) and is not read.
void pump() {
    int idle_rounds = 0;
    bool again = true;
    bool first = true;
    while (again && idle_rounds < 50) {
        again = false;
        for (auto& [k, c] : clients) {
            auto s = live_session(c);
            if (!s || s->write_buffer.empty()) continue;
            if (c.stalled && !first) continue;
            const auto before = s->write_buffer.size();
            server->on_client_event(s, EventLoop::kEventWritable);
            const auto after = s->write_buffer.size();
            const auto sent = before >= after ? before - after : 0;
            if (c.stalled) { c.owed += sent; continue; }
            if (sent > 0) { read_exact(c, sent); idle_rounds = 0; } else { ++idle_rounds; }
            if (live_session(c) && !s->write_buffer.empty()) again = true;
        }
        first = false;
    }
}

// For every client whose server session is gone: wait until its socket shows the closure.
void observe_closures() {
    for (auto& [k, c] : clients) {
        if (c.fd < 0 || c.seen_closed) continue;
        if (live_session(c)) continue;
        char buf[4096];
        for (int spins = 0; spins < 1000; ++spins) {
            if (!wait_readable(c.fd)) break;
            const auto got = ::recv(c.fd, buf, sizeof buf, 0);
            if (got > 0) {
                if (!c.stalled) c.rx.append(buf, static_cast<std::size_t>(got));  // unexpected stray bytes: reported
                continue;  // (a stalled client never looked at what was sent before the closure)
            }
            c.seen_closed = true;  // 0 (FIN) or error (reset)
            break;
        }
        if (c.seen_closed) { ::close(c.fd); c.fd = -1; }
    }
}

char state_letter(RelayServer::SessionState s) {
    switch (s) {
        case RelayServer::SessionState::AwaitingCommand: return 'C';
        case RelayServer::SessionState::Registered: return 'R';
        case RelayServer::SessionState::AwaitingIdentity: return 'I';
        case RelayServer::SessionState::Bridged: return 'B';
    }
    return '?';
}

std::string client_of(const RelayServer::ClientSession* p) {
    for (auto& [k, c] : clients) {
        auto s = c.session.lock();
        if (s && s.get() == p) return std::to_string(k);
    }
    return "?";
}

std::string observation(std::vector<int> closed_now) {
    std::ostringstream out;
    out << "rx=";
    bool any = false;
    for (auto& [k, c] : clients) {
        if (c.rx.empty()) continue;
        out << (any ? "," : "") << k << ":" << show_bytes(c.rx);
        any = true;
        c.rx.clear();
    }
    if (!any) out << "-";
    out << " cl=";
    std::sort(closed_now.begin(), closed_now.end());
    for (std::size_t i = 0; i < closed_now.size(); ++i) out << (i ? "," : "") << closed_now[i];
    if (closed_now.empty()) out << "-";
    out << " ss=";
    any = false;
    std::size_t known = 0;
    for (auto& [k, c] : clients) {
        auto s = live_session(c);
        if (!s) continue;
        ++known;
        auto partner = s->partner.lock();
        out << (any ? "," : "") << k << "." << state_letter(s->state) << "."
            << (partner ? client_of(partner.get()) : std::string("-")) << "." << s->read_buffer.size();
        any = true;
    }
    if (server->sessions_.size() != known) { out << (any ? "," : "") << "unknown*" << (server->sessions_.size() - known); any = true; }
    if (!any) out << "-";
    out << " rg=";
    std::vector<std::string> regs;
    for (auto& [key, weak] : server->registered_) {
        auto s = weak.lock();
        regs.push_back(key.substr(0, 8) + ">" + (s ? client_of(s.get()) : std::string("dead")));
    }
    std::sort(regs.begin(), regs.end());
    for (std::size_t i = 0; i < regs.size(); ++i) out << (i ? "," : "") << regs[i];
    if (regs.empty()) out << "-";
    out << " fd=" << (count_fds() - fd_baseline - open_client_fds());
    return out.str();
}

std::string finish_op() {
    std::vector<int> before;
    for (auto& [k, c] : clients) if (c.seen_closed) before.push_back(k);
    pump();
    observe_closures();
    std::vector<int> now;
    for (auto& [k, c] : clients) if (c.seen_closed && std::find(before.begin(), before.end(), k) == before.end()) now.push_back(k);
    return observation(now);
}

bool expand_payload(const std::string& text, std::string& out) {
    if (text == "-") return true;
    for (const auto& part : verif::split(text, '+')) {
        const auto star = part.find('*');
        const std::string hex = part.substr(0, star);
        if (hex.size() % 2 != 0) return false;
        for (char ch : hex) if (verif::hexval(ch) < 0) return false;
        const auto bytes = verif::from_hex(hex);
        std::size_t times = 1;
        if (star != std::string::npos) times = std::stoul(part.substr(star + 1));
        for (std::size_t i = 0; i < times; ++i) out.append(reinterpret_cast<const char*>(bytes.data()), bytes.size());
    }
    return true;
}

void deliver_readable(Client& c) {
    if (auto s = live_session(c)) server->on_client_event(s, EventLoop::kEventReadable);
}

void reset_all() {
    for (auto& [k, c] : clients) if (c.fd >= 0) ::close(c.fd);
    clients.clear();
    server.reset();
    loop.reset();
    loop = std::make_unique<EventLoop>();
    RelayServerConfig cfg;
    cfg.listen_host = "127.0.0.1";
    cfg.listen_port = 0;  // ephemeral: several harness processes run side by side
    server = std::make_unique<RelayServer>(*loop, cfg);
    std::ostringstream sink;
    auto* old = std::cout.rdbuf(sink.rdbuf());  // start() prints a banner
    const bool ok = server->start();
    std::cout.rdbuf(old);
    if (!ok) { std::fprintf(stderr, "relay_h: server start failed\n"); std::exit(3); }
    sockaddr_in addr{};
    socklen_t len = sizeof addr;
    ::getsockname(server->listen_fd_, reinterpret_cast<sockaddr*>(&addr), &len);
    port = ntohs(addr.sin_port);
    fd_baseline = count_fds();
}

std::string do_op(const std::vector<std::string>& t) {
    if (t[0] == "nop") return finish_op();
    if (t.size() < 2) return "bad-op";
    int k = 0;
    try { k = std::stoi(t[1]); } catch (...) { return "bad-op"; }
    if ((t[0] == "acc" || t[0] == "accs") && t.size() == 2) {
        if (clients.count(k)) return finish_op();  // index already used: ignored
        Client c;
        c.fd = ::socket(AF_INET, SOCK_STREAM, 0);
        int one = 1;
        ::setsockopt(c.fd, IPPROTO_TCP, TCP_NODELAY, &one, sizeof one);
        const bool small = t[0] == "accs";
        int tiny = 4096;
        if (small) ::setsockopt(c.fd, SOL_SOCKET, SO_RCVBUF, &tiny, sizeof tiny);
        sockaddr_in addr{};
        addr.sin_family = AF_INET;
        addr.sin_port = htons(port);
        ::inet_pton(AF_INET, "127.0.0.1", &addr.sin_addr);
        if (::connect(c.fd, reinterpret_cast<sockaddr*>(&addr), sizeof addr) != 0) { ::close(c.fd); return "connect-failed"; }
        wait_readable(server->listen_fd_);
        std::vector<RelayServer::ClientSession*> had;
        for (auto& e : server->sessions_) had.push_back(e.second.get());
        server->accept_new_clients();
        for (auto& e : server->sessions_) {
            if (std::find(had.begin(), had.end(), e.second.get()) == had.end()) {
                c.session = e.second;
                if (small) ::setsockopt(e.second->fd, SOL_SOCKET, SO_SNDBUF, &tiny, sizeof tiny);
            }
        }
        clients.emplace(k, std::move(c));
        return finish_op();
    }
    auto it = clients.find(k);
    if (it == clients.end()) return finish_op();  // unknown client: ignored
    Client& c = it->second;
    if (t[0] == "snd" && t.size() == 3) {
        std::string payload;
        if (!expand_payload(t[2], payload)) return "bad-op";
        std::size_t off = 0;
        while (off < payload.size() && c.fd >= 0) {
            auto s = live_session(c);
            if (!s) break;
            const std::size_t n = std::min(kSlice, payload.size() - off);
            std::size_t done = 0;
            while (done < n) {
                const auto w = ::send(c.fd, payload.data() + off + done, n - done, MSG_NOSIGNAL);
                if (w <= 0) break;
                done += static_cast<std::size_t>(w);
            }
            if (done < n) break;
            for (int spins = 0; spins < kWaitMs; ++spins) {  // until the whole slice sits in the server's socket
                int avail = 0;
                if (::ioctl(s->fd, FIONREAD, &avail) != 0 || static_cast<std::size_t>(avail) >= n) break;
                pollfd p{s->fd, POLLIN, 0};
                ::poll(&p, 1, 1);
            }
            server->on_client_event(s, EventLoop::kEventReadable);
            pump();  // keep client receive queues short while a long payload is relayed
            off += n;
        }
        return finish_op();
    }
    if (t[0] == "eof" || t[0] == "rst" || t[0] == "shw") {
        if (c.fd < 0) return finish_op();
        auto s = live_session(c);
        if (t[0] == "shw") {
            ::shutdown(c.fd, SHUT_WR);
        } else {
            if (t[0] == "rst") { linger lg{1, 0}; ::setsockopt(c.fd, SOL_SOCKET, SO_LINGER, &lg, sizeof lg); }
            ::close(c.fd);
            c.fd = -1;
        }
        if (s) {
            pollfd p{s->fd, POLLIN, 0};
            ::poll(&p, 1, kWaitMs);
            server->on_client_event(s, EventLoop::kEventReadable);
        }
        return finish_op();
    }
    if (t[0] == "stall") { c.stalled = true; return finish_op(); }
    if (t[0] == "resume") {
        if (c.stalled) {
            c.stalled = false;
            if (c.fd >= 0) read_exact(c, c.owed);
            c.owed = 0;
        }
        return finish_op();
    }
    if (t[0] == "hup") {
        if (auto s = live_session(c)) server->on_client_event(s, EventLoop::kEventError);
        return finish_op();
    }
    return "bad-op";
}
}  // namespace

int main(int argc, char** argv) {
    std::signal(SIGPIPE, SIG_IGN);
    verif::Handler h;
    h.reset = [] { reset_all(); };
    // watchdog: process_protocol can spin forever when handle_identity_ready closes the session inside its
    // loop (unreachable in the repaired server, reachable in mutants); SIGALRM then kills the harness and the
    // framework reports `crash:signal:SIGALRM` with the op list.
    h.op = [](const std::vector<std::string>& t, const std::string&) -> std::string {
        ::alarm(45);
        std::string out = do_op(t);
        ::alarm(0);
        return out;
    };
    const int rc = verif::run_lines(argc, argv, h);
    for (auto& [k, c] : clients) if (c.fd >= 0) ::close(c.fd);
    clients.clear();
    server.reset();
    loop.reset();
    return rc;
}
