// C36 ThreadSanitizer validation harness.
//
// A daemon-shaped process: one node under test ("A") driven exactly like `eph serve` drives it
// (src/main.cpp): a ControlServer with its own accept thread whose handlers take the node mutex,
// a main thread that calls start_transport / tick / stop_transport under the node mutex, the
// SessionManager's accept thread and per-session reader threads.  The load comes from
//   * control clients (real ControlClient over loopback): STATUS, LIST, STORE, FETCH, METRICS,
//     DIAGNOSTICS, DEFAULTS;
//   * remote peers: further real Nodes in the same process, each with its own mutex and driver
//     thread, that connect to A's transport port (inbound transport handshakes on A's accept
//     thread), request the chunks stored on A (Request / Chunk / Acknowledge traffic handled on A's
//     reader threads, several at a time) and reconnect periodically (repeated handshakes);
//   * ticks every few milliseconds (key rotation after the 5 s minimum interval).
//
// Built with -fsanitize=thread; the reports (TSAN_OPTIONS log_path) are parsed by props/C36.py and
// must all be pairs the lockset table predicts.  The thread functions are named `role_*` so that a
// stack identifies the role:  role_main_thread = main.cpp's serve loop,  role_peer_driver = the
// mutex-holding thread of a *peer* node (plays main/control for that node),  role_control_client
// only talks to sockets.
//
// usage: race_h <seconds> <peers> <seed>
#include "ephemeralnet/Config.hpp"
#include "ephemeralnet/Types.hpp"
#include "ephemeralnet/core/Node.hpp"
#include "ephemeralnet/daemon/ControlPlane.hpp"
#include "ephemeralnet/protocol/Manifest.hpp"

#include <arpa/inet.h>
#include <netinet/in.h>
#include <sys/socket.h>
#include <unistd.h>

#include <atomic>
#include <csignal>
#include <chrono>
#include <cstdio>
#include <cstdlib>
#include <iostream>
#include <memory>
#include <mutex>
#include <random>
#include <string>
#include <thread>
#include <vector>

using namespace std::chrono_literals;
namespace eph = ephemeralnet;

namespace {

std::atomic<bool> g_run{true};
std::atomic<unsigned long> g_ticks{0}, g_ctl_ok{0}, g_ctl_fail{0}, g_stores{0}, g_requests_ok{0}, g_requests_fail{0},
    g_reconnects{0}, g_fetched{0};

std::mutex g_manifest_mutex;
std::vector<std::string> g_manifests;   // manifest URIs of chunks stored on A (through the control plane)

eph::PeerId make_peer_id(std::uint8_t seed) {
    eph::PeerId id{};
    for (auto& b : id) b = seed++;
    return id;
}

eph::Config base_config(std::uint32_t seed) {
    eph::Config c{};
    c.identity_seed = seed;
    c.handshake_cooldown = 0s;              // every inbound handshake re-registers the session key
    c.handshake_pow_difficulty = 2;
    c.announce_pow_difficulty = 0;
    c.store_pow_difficulty = 0;
    c.key_rotation_interval = 5s;           // the minimum the node accepts
    c.cleanup_interval = 1s;
    c.fetch_retry_initial_backoff = 1s;
    c.fetch_retry_max_backoff = 2s;
    c.fetch_retry_success_interval = 1s;
    c.fetch_retry_attempt_limit = 4;
    c.fetch_availability_refresh = 1s;
    c.upload_reconsider_interval = 1s;
    c.upload_transfer_timeout = 3s;
    c.swarm_rebalance_interval = 1s;
    c.default_chunk_ttl = 120s;
    c.min_manifest_ttl = 5s;
    c.max_manifest_ttl = 600s;
    c.control_host = "127.0.0.1";
    c.nat_stun_enabled = false;
    c.relay_enabled = false;
    c.storage_persistent_enabled = false;
    return c;
}

std::uint16_t bound_port_of(int fd) {
    sockaddr_in a{};
    socklen_t l = sizeof(a);
    if (::getsockname(fd, reinterpret_cast<sockaddr*>(&a), &l) != 0) return 0;
    return ntohs(a.sin_port);
}

std::uint16_t free_port() {
    int fd = ::socket(AF_INET, SOCK_STREAM, 0);
    sockaddr_in a{};
    a.sin_family = AF_INET;
    a.sin_addr.s_addr = htonl(INADDR_LOOPBACK);
    a.sin_port = 0;
    ::bind(fd, reinterpret_cast<sockaddr*>(&a), sizeof(a));
    const auto p = bound_port_of(fd);
    ::close(fd);
    return p;
}

struct Daemon {
    eph::Node node;
    std::mutex node_mutex;
    Daemon(eph::PeerId id, const eph::Config& c) : node(id, c) {}
};

// ---- main.cpp's serve loop -------------------------------------------------------------------------
void role_main_thread(Daemon* d, std::uint16_t control_port, std::atomic<int>* ready) {
    eph::daemon::ControlServer control_server(d->node, d->node_mutex, []() { g_run.store(false); });
    control_server.start("127.0.0.1", control_port);
    {
        std::scoped_lock lock(d->node_mutex);
        d->node.start_transport(0);
    }
    ready->store(1);
    while (g_run.load(std::memory_order_acquire)) {
        {
            std::scoped_lock lock(d->node_mutex);
            d->node.tick();
        }
        g_ticks.fetch_add(1);
        std::this_thread::sleep_for(3ms);
    }
    {
        std::scoped_lock lock(d->node_mutex);
        d->node.stop_transport();
    }
    control_server.stop();
}

// ---- a control client (another process in reality: touches no node state directly) ------------------
void role_control_client(std::uint16_t port, unsigned seed) {
    std::mt19937 rng(seed);
    unsigned long n = 0;
    while (g_run.load(std::memory_order_acquire)) {
        eph::daemon::ControlClient client("127.0.0.1", port);
        const auto pick = rng() % 10;
        std::optional<eph::daemon::ControlResponse> r;
        if (pick < 2) {
            std::vector<std::uint8_t> payload(64 + rng() % 512);
            for (auto& b : payload) b = static_cast<std::uint8_t>(rng());
            eph::daemon::ControlFields f{{"TTL", "120"}, {"PATH", "file" + std::to_string(n) + ".bin"}};
            r = client.send("STORE", f, std::span<const std::uint8_t>(payload.data(), payload.size()));
            if (r && r->success && r->fields.count("MANIFEST")) {
                std::scoped_lock lock(g_manifest_mutex);
                g_manifests.push_back(r->fields.at("MANIFEST"));
                g_stores.fetch_add(1);
            }
        } else if (pick == 2) {
            r = client.send("STATUS");
        } else if (pick == 3) {
            r = client.send("LIST");
        } else if (pick == 4) {
            r = client.send("METRICS");
        } else if (pick == 5) {
            r = client.send("DIAGNOSTICS");
        } else if (pick == 6) {
            r = client.send("DEFAULTS");
        } else {
            std::string uri;
            {
                std::scoped_lock lock(g_manifest_mutex);
                if (!g_manifests.empty()) uri = g_manifests[rng() % g_manifests.size()];
            }
            if (uri.empty()) {
                r = client.send("PING");
            } else {
                r = client.send("FETCH", {{"MANIFEST", uri}, {"STREAM", "client"}});
            }
        }
        if (r && r->success) {
            g_ctl_ok.fetch_add(1);
        } else {
            g_ctl_fail.fetch_add(1);
            if (std::getenv("RACE_H_DEBUG")) {
                std::printf("# control failure pick=%u code=%s\n", static_cast<unsigned>(pick),
                            r ? (r->fields.count("CODE") ? r->fields.at("CODE").c_str() : "?") : "no-response");
            }
        }
        ++n;
        std::this_thread::sleep_for(std::chrono::milliseconds(2 + rng() % 8));
    }
}

// ---- the mutex-holding driver of a remote peer node -----------------------------------------------
void role_peer_driver(Daemon* peer, eph::PeerId target, std::uint16_t target_port, unsigned seed) {
    std::mt19937 rng(seed);
    {
        std::scoped_lock lock(peer->node_mutex);
        peer->node.start_transport(0);
    }
    unsigned long n = 0;
    while (g_run.load(std::memory_order_acquire)) {
        std::string uri;
        {
            std::scoped_lock lock(g_manifest_mutex);
            if (!g_manifests.empty()) uri = g_manifests[rng() % g_manifests.size()];
        }
        {
            std::scoped_lock lock(peer->node_mutex);
            if (!uri.empty()) {
                const bool ok = peer->node.request_chunk(target, "127.0.0.1", target_port, uri);
                (ok ? g_requests_ok : g_requests_fail).fetch_add(1);
            }
            if (n % 7 == 6) {
                // a fresh connection: another inbound transport handshake on the target's accept thread
                peer->node.connect_peer(target, "127.0.0.1", target_port);
                g_reconnects.fetch_add(1);
            }
            peer->node.tick();
        }
        ++n;
        std::this_thread::sleep_for(std::chrono::milliseconds(5 + rng() % 20));
    }
    {
        std::scoped_lock lock(peer->node_mutex);
        for (const auto& e : peer->node.stored_chunks()) {
            (void)e;
            g_fetched.fetch_add(1);
        }
        peer->node.stop_transport();
    }
}

}  // namespace

int main(int argc, char** argv) {
    const double seconds = argc > 1 ? std::atof(argv[1]) : 8.0;
    const int peers = argc > 2 ? std::atoi(argv[2]) : 3;
    const unsigned seed = argc > 3 ? static_cast<unsigned>(std::atoi(argv[3])) : 1u;
    std::signal(SIGPIPE, SIG_IGN);           // peers drop connections all the time (eph serve ignores it too late to matter)
    std::cerr.setstate(std::ios::failbit);   // the SessionManager's debug chatter is not needed

    const auto a_id = make_peer_id(0x01);
    auto a_cfg = base_config(0xA0000001u + seed);
    // identities of the peers are known to A as bootstrap nodes would be (public key from the seed)
    std::vector<eph::PeerId> peer_ids;
    std::vector<eph::Config> peer_cfgs;
    for (int i = 0; i < peers; ++i) {
        peer_ids.push_back(make_peer_id(static_cast<std::uint8_t>(0x40 + 0x10 * i)));
        peer_cfgs.push_back(base_config(0xB0000001u + seed * 97u + static_cast<unsigned>(i)));
    }
    std::uint32_t a_public = 0;
    {
        eph::Node probe(a_id, a_cfg);
        a_public = probe.public_identity();
    }
    const auto control_port = free_port();
    a_cfg.control_port = control_port;

    // the nodes are deliberately never destroyed: the detached session threads are not joined by
    // anything, and a destructor racing with them at exit is not one of the roles under study
    Daemon& a = *new Daemon(a_id, a_cfg);
    std::atomic<int> ready{0};
    std::thread main_thread(role_main_thread, &a, control_port, &ready);
    while (!ready.load()) std::this_thread::sleep_for(5ms);
    std::uint16_t a_port = 0;
    {
        std::scoped_lock lock(a.node_mutex);
        a_port = a.node.transport_port();
    }

    std::vector<Daemon*> peer_nodes;
    for (int i = 0; i < peers; ++i) {
        auto cfg = peer_cfgs[static_cast<std::size_t>(i)];
        eph::Config::BootstrapNode b{};
        b.id = a_id;
        b.host = "127.0.0.1";
        b.port = a_port;
        b.public_identity = a_public;
        cfg.bootstrap_nodes.push_back(b);
        peer_nodes.push_back(new Daemon(peer_ids[static_cast<std::size_t>(i)], cfg));
    }

    std::vector<std::thread> threads;
    threads.emplace_back(role_control_client, control_port, seed * 11u + 1u);
    threads.emplace_back(role_control_client, control_port, seed * 11u + 2u);
    for (int i = 0; i < peers; ++i) {
        threads.emplace_back(role_peer_driver, peer_nodes[static_cast<std::size_t>(i)], a_id, a_port,
                             seed * 13u + static_cast<unsigned>(i));
    }

    // run for the requested time; on a loaded machine keep going (up to 4x) until the traffic that matters
    // has actually happened: chunks stored through the control plane and peer requests answered
    const auto start = std::chrono::steady_clock::now();
    const auto deadline = start + std::chrono::milliseconds(static_cast<long>(seconds * 1000));
    const auto hard_deadline = start + std::chrono::milliseconds(static_cast<long>(seconds * 4000));
    while (g_run.load()) {
        const auto now = std::chrono::steady_clock::now();
        const bool progressed = g_stores.load() >= 2 && g_requests_ok.load() >= 10 && g_ticks.load() >= 50;
        if ((now >= deadline && progressed) || now >= hard_deadline) break;
        std::this_thread::sleep_for(20ms);
    }
    g_run.store(false);
    for (auto& t : threads) t.join();
    main_thread.join();

    std::printf("ticks %lu\ncontrol_ok %lu\ncontrol_fail %lu\nstores %lu\nrequests_ok %lu\nrequests_fail %lu\nreconnects %lu\n"
                "peer_chunks %lu\n",
                g_ticks.load(), g_ctl_ok.load(), g_ctl_fail.load(), g_stores.load(), g_requests_ok.load(),
                g_requests_fail.load(), g_reconnects.load(), g_fetched.load());
    std::fflush(stdout);
    return 0;
}
