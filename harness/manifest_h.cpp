// Harness for the manifest codec (C17, C18): the real protocol::encode_manifest /
// protocol::decode_manifest in-process under ASan+UBSan.
//
// Byte strings (<bs>): "-" is empty; otherwise '+'-joined parts, a part being lowercase hex or
// `rHHxN` (byte HH repeated N times).  Output byte strings are canonical: every maximal run of
// >= 8 equal bytes is written as rHHxN, everything else as hex.
//
// Manifest fields (fixed order, space separated):
//   id=<bs> hash=<bs> nonce=<bs> exp=<int64 ns> thr=<n> tot=<n> sh=<idx>:<bs>,.. meta=<k>:<v>,..
//   disc=<scheme>:<transport>:<endpoint>:<prio>,.. tok=<n> adv=<bs> dig=<0|1>:<bs> fb=<uri>:<prio>,..
//   (an empty list is "-"; fixed-size arrays are zero-padded / cut to their size)
//
// Ops (one output line each):
//   enc <fields>   -> "ok <uri as text>"            | throw:<kind>
//   rt  <fields>   -> "ok <fields of decode(encode(m))>" | throw:<kind> (encoder) | dthrow:<kind> (decoder)
//   dec <bs>       -> "ok <fields>"                 | throw:<kind>
#include "common/lineproto.hpp"
#include "ephemeralnet/protocol/Manifest.hpp"

#include <algorithm>
#include <cstring>

using namespace ephemeralnet;
using protocol::Manifest;

namespace {

using Bytes = std::vector<std::uint8_t>;

Bytes parse_bs(const std::string& s) {
    Bytes out;
    if (s == "-" || s.empty()) return out;
    for (const auto& part : verif::split(s, '+')) {
        if (!part.empty() && part[0] == 'r') {
            const auto x = part.find('x');
            if (x == std::string::npos || x < 3) throw std::runtime_error("bad-bs");
            const auto b = static_cast<std::uint8_t>(verif::hexval(part[1]) * 16 + verif::hexval(part[2]));
            const auto n = std::stoul(part.substr(x + 1));
            out.insert(out.end(), n, b);
        } else {
            const auto h = verif::from_hex(part);
            out.insert(out.end(), h.begin(), h.end());
        }
    }
    return out;
}

std::string fmt_bs(const std::uint8_t* p, std::size_t n) {
    if (n == 0) return "-";
    std::string out;
    std::string lit;
    auto flush = [&] {
        if (!lit.empty()) { if (!out.empty()) out += "+"; out += lit; lit.clear(); }
    };
    std::size_t i = 0;
    while (i < n) {
        std::size_t j = i;
        while (j < n && p[j] == p[i]) ++j;
        const std::size_t run = j - i;
        if (run >= 8) {
            flush();
            if (!out.empty()) out += "+";
            out += "r" + verif::to_hex(p + i, 1) + "x" + std::to_string(run);
        } else {
            lit += verif::to_hex(p + i, run);
        }
        i = j;
    }
    flush();
    return out;
}
template <class C> std::string fmt_bs(const C& c) {
    return fmt_bs(reinterpret_cast<const std::uint8_t*>(c.data()), c.size());
}

std::string to_str(const Bytes& b) { return std::string(b.begin(), b.end()); }

template <std::size_t N> void fill_array(std::array<std::uint8_t, N>& a, const Bytes& b) {
    a.fill(0);
    std::copy_n(b.begin(), std::min(N, b.size()), a.begin());
}

std::string value_of(const std::string& tok, const char* key) {
    const std::string k = std::string(key) + "=";
    if (tok.rfind(k, 0) != 0) throw std::runtime_error("bad-field");
    return tok.substr(k.size());
}

std::vector<std::string> items(const std::string& v) {
    if (v == "-" || v.empty()) return {};
    return verif::split(v, ',');
}

Manifest parse_manifest(const std::vector<std::string>& t) {
    if (t.size() != 14) throw std::runtime_error("bad-op");
    Manifest m{};
    fill_array(m.chunk_id, parse_bs(value_of(t[1], "id")));
    fill_array(m.chunk_hash, parse_bs(value_of(t[2], "hash")));
    fill_array(m.nonce.bytes, parse_bs(value_of(t[3], "nonce")));
    m.expires_at = std::chrono::system_clock::time_point{
        std::chrono::duration_cast<std::chrono::system_clock::duration>(std::chrono::nanoseconds{std::stoll(value_of(t[4], "exp"))})};
    m.threshold = static_cast<std::uint8_t>(std::stoul(value_of(t[5], "thr")));
    m.total_shares = static_cast<std::uint8_t>(std::stoul(value_of(t[6], "tot")));
    for (const auto& it : items(value_of(t[7], "sh"))) {
        const auto f = verif::split(it, ':');
        if (f.size() != 2) throw std::runtime_error("bad-shard");
        protocol::KeyShard s{};
        s.index = static_cast<std::uint8_t>(std::stoul(f[0]));
        fill_array(s.value, parse_bs(f[1]));
        m.shards.push_back(s);
    }
    for (const auto& it : items(value_of(t[8], "meta"))) {
        const auto f = verif::split(it, ':');
        if (f.size() != 2) throw std::runtime_error("bad-meta");
        m.metadata.emplace(to_str(parse_bs(f[0])), to_str(parse_bs(f[1])));
    }
    for (const auto& it : items(value_of(t[9], "disc"))) {
        const auto f = verif::split(it, ':');
        if (f.size() != 4) throw std::runtime_error("bad-disc");
        protocol::DiscoveryHint h{};
        h.scheme = to_str(parse_bs(f[0]));
        h.transport = to_str(parse_bs(f[1]));
        h.endpoint = to_str(parse_bs(f[2]));
        h.priority = static_cast<std::uint8_t>(std::stoul(f[3]));
        m.discovery_hints.push_back(std::move(h));
    }
    m.security.token_challenge_bits = static_cast<std::uint8_t>(std::stoul(value_of(t[10], "tok")));
    m.security.advisory = to_str(parse_bs(value_of(t[11], "adv")));
    {
        const auto f = verif::split(value_of(t[12], "dig"), ':');
        if (f.size() != 2) throw std::runtime_error("bad-dig");
        m.security.has_attestation_digest = f[0] != "0";
        fill_array(m.security.attestation_digest, parse_bs(f[1]));
    }
    for (const auto& it : items(value_of(t[13], "fb"))) {
        const auto f = verif::split(it, ':');
        if (f.size() != 2) throw std::runtime_error("bad-fb");
        protocol::FallbackHint h{};
        h.uri = to_str(parse_bs(f[0]));
        h.priority = static_cast<std::uint8_t>(std::stoul(f[1]));
        m.fallback_hints.push_back(std::move(h));
    }
    return m;
}

template <class V, class F> std::string fmt_list(const V& v, F f) {
    if (v.empty()) return "-";
    std::string out;
    bool first = true;
    for (const auto& e : v) { if (!first) out += ","; first = false; out += f(e); }
    return out;
}

std::string dump(const Manifest& m) {
    std::string o;
    o += "id=" + fmt_bs(m.chunk_id);
    o += " hash=" + fmt_bs(m.chunk_hash);
    o += " nonce=" + fmt_bs(m.nonce.bytes);
    o += " exp=" + std::to_string(std::chrono::duration_cast<std::chrono::nanoseconds>(m.expires_at.time_since_epoch()).count());
    o += " thr=" + std::to_string(m.threshold);
    o += " tot=" + std::to_string(m.total_shares);
    o += " sh=" + fmt_list(m.shards, [](const protocol::KeyShard& s) { return std::to_string(s.index) + ":" + fmt_bs(s.value); });
    o += " meta=" + fmt_list(m.metadata, [](const auto& kv) { return fmt_bs(kv.first) + ":" + fmt_bs(kv.second); });
    o += " disc=" + fmt_list(m.discovery_hints, [](const protocol::DiscoveryHint& h) {
        return fmt_bs(h.scheme) + ":" + fmt_bs(h.transport) + ":" + fmt_bs(h.endpoint) + ":" + std::to_string(h.priority);
    });
    o += " tok=" + std::to_string(m.security.token_challenge_bits);
    o += " adv=" + fmt_bs(m.security.advisory);
    o += std::string(" dig=") + (m.security.has_attestation_digest ? "1" : "0") + ":" + fmt_bs(m.security.attestation_digest);
    o += " fb=" + fmt_list(m.fallback_hints, [](const protocol::FallbackHint& h) { return fmt_bs(h.uri) + ":" + std::to_string(h.priority); });
    return o;
}

}  // namespace

int main(int argc, char** argv) {
    verif::Handler h;
    h.reset = [] {};
    h.op = [](const std::vector<std::string>& t, const std::string&) -> std::string {
        struct BadOp {};
        auto parse = [&]() -> Manifest {
            try { return parse_manifest(t); } catch (const std::exception&) { throw BadOp{}; }
        };
        try {
        if (t[0] == "enc") {
            const auto m = parse();
            return "ok " + protocol::encode_manifest(m);
        }
        if (t[0] == "rt") {
            const auto m = parse();
            const auto uri = protocol::encode_manifest(m);
            try {
                return "ok " + dump(protocol::decode_manifest(uri));
            } catch (const std::exception& ex) {
                return "d" + verif::exception_name(ex);
            }
        }
        if (t[0] == "dec" && t.size() == 2) {
            std::string uri;
            try { uri = to_str(parse_bs(t[1])); } catch (const std::exception&) { throw BadOp{}; }
            return "ok " + dump(protocol::decode_manifest(uri));
        }
        } catch (const BadOp&) {
            return "bad-op";
        }
        return "bad-op";
    };
    return verif::run_lines(argc, argv, h);
}
