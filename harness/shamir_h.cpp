// Harness for Shamir secret sharing (C10): the real src/crypto/Shamir.cpp, compiled into this
// translation unit so that the anonymous-namespace GF(256) functions are reachable.
//
// Randomness: Shamir::split draws its coefficients from std::random_device.  The three
// out-of-line members of std::random_device are defined here (link-time interposition, the
// same technique as the virtual clock), so a split is replayable; the Lean driver does *not*
// rely on that: it recovers the coefficients from the shares the implementation printed and
// validates them.
//
// Ops (one output line each; bytes as lowercase hex):
//   exptab                      -> 512 bytes of build_exp_table()
//   logtab                      -> 256 bytes of build_log_table()
//   mulrow <a>                  -> gf_mul(a, b) for b = 0..255
//   divrow <a>                  -> gf_div(a, b) for b = 1..255
//   mul <a> <b>                 -> xx
//   div <a> <b>                 -> ok xx | throw:invalid_argument
//   gfdigest                    -> FNV-1a-64 over the whole gf_mul table then the gf_div table (b >= 1)
//   fieldcheck                  -> ok            (the monitor judges the rows it has collected)
//   eval <x> <c> <coeffs-hex>   -> xx            evaluate_polynomial
//   split <secret-hex> <t> <n> <rng>  -> ok idx:value,idx:value,... draws=<k> | throw:... | timeout | crash:...
//        (k = number of values the code took from std::random_device during this split)
//        rng = z (all draws 0) | k<v> (all draws v) | r<seed> (xorshift stream); runs on a watched
//        worker thread with a CPU-time limit (a hang is reported as `timeout`); the shares are remembered
//   combsel <t> <p,p,...>       -> combine() on the remembered shares at those positions (0-based)
//   combine <t> <idx:value,...> -> ok secret-hex | throw:...     arbitrary share sets (`-` = none)
#include "common/lineproto.hpp"

#include <chrono>
#include <condition_variable>
#include <mutex>
#include <pthread.h>
#include <random>
#include <thread>
#include <time.h>
#include <unistd.h>

namespace verif_rng {
char mode = 'z';
std::uint64_t state = 0;
unsigned constant = 0;
unsigned long draws = 0;
unsigned next() {
    ++draws;
    if (mode == 'z') return 0;
    if (mode == 'k') return constant;
    state ^= state << 13;
    state ^= state >> 7;
    state ^= state << 17;
    return static_cast<unsigned>(state >> 16);
}
void seed(const std::string& tok) {
    draws = 0;
    mode = tok.empty() ? 'z' : tok[0];
    if (mode == 'k') constant = static_cast<unsigned>(std::stoul(tok.substr(1)));
    if (mode == 'r') state = 0x9E3779B97F4A7C15ull ^ (std::stoull(tok.substr(1)) * 0xD1342543DE82EF95ull + 1);
    if (mode == 'r' && state == 0) state = 1;
}
}  // namespace verif_rng

// interposed (these are the members libstdc++ keeps out of line)
void std::random_device::_M_init(const std::string&) {}
void std::random_device::_M_fini() {}
std::random_device::result_type std::random_device::_M_getval() { return verif_rng::next(); }

#include "crypto/Shamir.cpp"

using namespace ephemeralnet::crypto;

namespace {
const auto& EXP() { static const auto t = build_exp_table(); return t; }
const auto& LOG() { static const auto t = build_log_table(EXP()); return t; }

std::vector<ShamirShare> last_shares;

std::uint8_t byte_arg(const std::string& s) { return static_cast<std::uint8_t>(std::stoul(s)); }

std::string hex1(std::uint8_t b) { return verif::to_hex(&b, 1); }

std::string fmt_shares(const std::vector<ShamirShare>& shares) {
    if (shares.empty()) return "-";
    std::string out;
    for (std::size_t i = 0; i < shares.size(); ++i) {
        if (i) out += ",";
        out += std::to_string(static_cast<unsigned>(shares[i].index)) + ":" + verif::to_hex(shares[i].value);
    }
    return out;
}

bool parse_shares(const std::string& s, std::vector<ShamirShare>& out) {
    out.clear();
    if (s == "-") return true;
    for (const auto& item : verif::split(s, ',')) {
        auto kv = verif::split(item, ':');
        if (kv.size() != 2) return false;
        ShamirShare sh{};
        sh.index = byte_arg(kv[0]);
        auto bytes = verif::from_hex(kv[1]);
        for (std::size_t i = 0; i < sh.value.size() && i < bytes.size(); ++i) sh.value[i] = bytes[i];
        out.push_back(sh);
    }
    return true;
}

std::string do_combine(const std::vector<ShamirShare>& shares, std::uint8_t t) {
    const auto secret = Shamir::combine(shares, t);
    return "ok " + verif::to_hex(secret);
}

// split runs on a worker thread watched by the main thread.  A hang is recognised by the worker's
// CPU time (robust on a loaded machine: a valid split needs milliseconds; the wall clock is only a
// backstop).  A hung worker cannot be stopped, so the harness then prints `timeout` for the op and
// re-executes itself, resuming after the lines already answered.
struct SplitJob {
    std::array<std::uint8_t, 32> secret{};
    std::uint8_t t = 0, n = 0;
    std::string rng;
    std::string line;
    std::mutex m;
    std::condition_variable cv;
    bool done = false;
};

bool g_hung = false;   // set by do_split when the worker was abandoned

std::string do_split(const std::array<std::uint8_t, 32>& secret, std::uint8_t t, std::uint8_t n, const std::string& rng) {
    static const double cpu_s = [] {
        const char* e = std::getenv("VERIF_SPLIT_CPU_S");
        return e ? std::atof(e) : 2.0;
    }();
    static const double wall_s = [] {
        const char* e = std::getenv("VERIF_SPLIT_WALL_S");
        return e ? std::atof(e) : 120.0;
    }();
    auto* job = new SplitJob;           // deliberately leaked when the worker hangs
    job->secret = secret;
    job->t = t;
    job->n = n;
    job->rng = rng;
    std::thread worker([job] {
        std::string line;
        try {
            verif_rng::seed(job->rng);
            const auto shares = Shamir::split(job->secret, job->t, job->n);
            line = "ok " + fmt_shares(shares) + " draws=" + std::to_string(verif_rng::draws);
        } catch (const std::exception& ex) {
            line = verif::exception_name(ex);
        }
        std::lock_guard<std::mutex> lock(job->m);
        job->line = std::move(line);
        job->done = true;
        job->cv.notify_all();
    });
    clockid_t cid{};
    const bool have_clock = pthread_getcpuclockid(worker.native_handle(), &cid) == 0;
    const auto start = std::chrono::steady_clock::now();
    std::unique_lock<std::mutex> lock(job->m);
    for (;;) {
        if (job->cv.wait_for(lock, std::chrono::milliseconds(25), [job] { return job->done; })) {
            lock.unlock();
            worker.join();
            std::string line = std::move(job->line);
            delete job;
            return line;
        }
        double cpu = 0;
        if (have_clock) {
            timespec ts{};
            if (clock_gettime(cid, &ts) == 0) cpu = static_cast<double>(ts.tv_sec) + ts.tv_nsec * 1e-9;
        }
        const double wall = std::chrono::duration<double>(std::chrono::steady_clock::now() - start).count();
        if (cpu > cpu_s || wall > wall_s) {
            lock.unlock();
            worker.detach();
            g_hung = true;
            return "timeout";
        }
    }
}

std::uint64_t fnv(std::uint64_t h, std::uint8_t b) { return (h ^ b) * 0x100000001b3ull; }
}  // namespace

int main(int argc, char** argv) {
    verif::Handler h;
    h.reset = [] { last_shares.clear(); };
    h.op = [](const std::vector<std::string>& t, const std::string&) -> std::string {
        if (t[0] == "exptab") return verif::to_hex(EXP());
        if (t[0] == "logtab") return verif::to_hex(LOG());
        if (t[0] == "mulrow" && t.size() == 2) {
            std::array<std::uint8_t, 256> row{};
            for (unsigned b = 0; b < 256; ++b) row[b] = gf_mul(byte_arg(t[1]), static_cast<std::uint8_t>(b), EXP(), LOG());
            return verif::to_hex(row);
        }
        if (t[0] == "divrow" && t.size() == 2) {
            std::array<std::uint8_t, 255> row{};
            for (unsigned b = 1; b < 256; ++b) row[b - 1] = gf_div(byte_arg(t[1]), static_cast<std::uint8_t>(b), EXP(), LOG());
            return verif::to_hex(row);
        }
        if (t[0] == "mul" && t.size() == 3) return hex1(gf_mul(byte_arg(t[1]), byte_arg(t[2]), EXP(), LOG()));
        if (t[0] == "div" && t.size() == 3) return "ok " + hex1(gf_div(byte_arg(t[1]), byte_arg(t[2]), EXP(), LOG()));
        if (t[0] == "gfdigest") {
            std::uint64_t d = 0xcbf29ce484222325ull;
            for (unsigned a = 0; a < 256; ++a)
                for (unsigned b = 0; b < 256; ++b) d = fnv(d, gf_mul(static_cast<std::uint8_t>(a), static_cast<std::uint8_t>(b), EXP(), LOG()));
            for (unsigned a = 0; a < 256; ++a)
                for (unsigned b = 1; b < 256; ++b) d = fnv(d, gf_div(static_cast<std::uint8_t>(a), static_cast<std::uint8_t>(b), EXP(), LOG()));
            return std::to_string(d);
        }
        if (t[0] == "fieldcheck") return "ok";
        if (t[0] == "eval" && t.size() == 4) {
            return hex1(evaluate_polynomial(byte_arg(t[1]), byte_arg(t[2]), verif::from_hex(t[3]), EXP(), LOG()));
        }
        if (t[0] == "split" && t.size() == 5) {
            std::array<std::uint8_t, 32> secret{};
            const auto bytes = verif::from_hex(t[1]);
            for (std::size_t i = 0; i < secret.size() && i < bytes.size(); ++i) secret[i] = bytes[i];
            last_shares.clear();
            std::string line = do_split(secret, byte_arg(t[2]), byte_arg(t[3]), t[4]);
            if (line.rfind("ok ", 0) == 0) parse_shares(line.substr(3, line.find(' ', 3) - 3), last_shares);
            return line;
        }
        if (t[0] == "combsel" && t.size() == 3) {
            std::vector<ShamirShare> sel;
            if (t[2] != "-") {
                for (const auto& p : verif::split(t[2], ',')) {
                    const auto pos = std::stoul(p);
                    if (pos >= last_shares.size()) return "nosplit";
                    sel.push_back(last_shares[pos]);
                }
            }
            return do_combine(sel, byte_arg(t[1]));
        }
        if (t[0] == "combine" && t.size() == 3) {
            std::vector<ShamirShare> shares;
            if (!parse_shares(t[2], shares)) return "bad-op";
            return do_combine(shares, byte_arg(t[1]));
        }
        return "bad-op";
    };
    // same loop as verif::run_lines, plus: resume after `--skip <lines>` and re-execution after a hung split
    if (argc < 2) { std::fprintf(stderr, "usage: %s <ops-file> [--skip <lines>]\n", argv[0]); return 2; }
    unsigned long skip = 0;
    if (argc >= 4 && std::string(argv[2]) == "--skip") skip = std::stoul(argv[3]);
    std::ifstream in(argv[1]);
    if (!in) { std::fprintf(stderr, "cannot open %s\n", argv[1]); return 2; }
    std::ios::sync_with_stdio(false);
    std::string line;
    unsigned long lineno = 0;
    h.reset();
    while (std::getline(in, line)) {
        ++lineno;
        if (lineno <= skip) continue;
        if (line.rfind("case ", 0) == 0) {
            h.reset();
            std::cout << line << "\n" << std::flush;
            continue;
        }
        std::string out;
        try {
            out = h.op(verif::split(line), line);
        } catch (const std::exception& ex) {
            out = verif::exception_name(ex);
        }
        for (auto& c : out) if (c == '\n' || c == '\r') c = '~';
        std::cout << out << "\n" << std::flush;
        if (g_hung) {
            const std::string n = std::to_string(lineno);
            char* const args[] = {argv[0], argv[1], const_cast<char*>("--skip"), const_cast<char*>(n.c_str()), nullptr};
            execv("/proc/self/exe", args);
            std::perror("execv");
            _exit(3);
        }
    }
    return 0;

}
