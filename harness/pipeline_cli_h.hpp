// C11: access to the CLI's anonymous-namespace `decrypt_chunk_with_manifest` (src/main.cpp).
#pragma once
#include "ephemeralnet/Types.hpp"
#include "ephemeralnet/protocol/Manifest.hpp"
#include <cstdint>
#include <optional>
#include <vector>
namespace pipecli {
// runs ::decrypt_chunk_with_manifest(manifest, ChunkPayload{manifest.chunk_id, data})
std::optional<ephemeralnet::ChunkData> decrypt(const ephemeralnet::protocol::Manifest& manifest,
                                               const std::vector<std::uint8_t>& data);
}  // namespace pipecli
