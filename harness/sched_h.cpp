// Harness for the upload scheduler (C23) and the fetch scheduler (C24) of Node: real Node, no
// listeners, virtual clock.  Sends are observed (and made to succeed / fail) by planting one end
// of a socketpair(2) as the SessionManager session socket of a peer (no reader thread); inbound
// messages are delivered by calling the handle_* methods directly.
//
//   sched_h <ops-file> c23|c24        (the mode selects which part of the state is printed)
//
// Ops (one output line each).  Names: peers p1.., chunks c1.. (lineproto id32).
//   cfg <field> <int>        before the first other op only -> ok      (seconds / counts)
//   adv <ns>                 -> ok
//   key <p>                  register_shared_secret(p)          -> state line
//   link <p> | unlink <p>    plant / remove the transport session of p -> state line
//   have <c> <ttl_s>         store_chunk(c, data, ttl)          -> state line
//   req <p> <c>              handle_request({c, p}, p)
//   ack <p> <c> <0|1>        handle_acknowledge({c, p, accepted}, p)
//   ann <c> <p> <exp_s>      manifest_cache_[c] = manifest(expires = wall_start + exp_s);
//                            schedule_assigned_fetch({c, p, uri, shards})
//   hann <c> <p> <exp_s>     the same announce through handle_announce (admission path)
//   arr <c> <p> good|bad     handle_chunk({c, ciphertext}, p)
//   prov <c> <p> | unprov <c> <p>   provider directory entry (long TTL) / withdrawal
//   tick                     Node::tick()
// Output: <frames> | <state>
//   frames: `p1>chunk:c1,p1>nack:c1,p2>req:c3,p2>ack:c1:1` (by peer name, per peer in order) or `-`
//   c23 state: act=<p:c:age;..> pp=<p:n;..> q=<p:c;..> done=<n> rot=<ns> held=<c;..>
//   c24 state: pf=<c:p:attempts:inflight:next_rel|max:exp_rel|none:prov:since_last_dispatch|never;..> ar=<p:n;..> held=<c;..>
#include "common/lineproto.hpp"
#include "common/vclock.hpp"

#include "ephemeralnet/core/Node.hpp"
#include "ephemeralnet/crypto/ChaCha20.hpp"
#include "ephemeralnet/crypto/CryptoManager.hpp"
#include "ephemeralnet/crypto/Sha256.hpp"
#include "ephemeralnet/crypto/Shamir.hpp"
#include "ephemeralnet/network/SessionManager.hpp"
#include "ephemeralnet/protocol/Manifest.hpp"
#include "ephemeralnet/protocol/Message.hpp"

#include <algorithm>
#include <csignal>
#include <fcntl.h>
#include <map>
#include <memory>
#include <set>
#include <sys/socket.h>
#include <unistd.h>

using namespace ephemeralnet;

namespace ephemeralnet::test {
// the sanctioned door into Node (Node.hpp befriends this name); -fno-access-control covers the rest
class NodeTestAccess {
public:
    static void request(Node& n, const protocol::RequestPayload& p, const PeerId& s) { n.handle_request(p, s); }
    static void acknowledge(Node& n, const protocol::AcknowledgePayload& p, const PeerId& s) { n.handle_acknowledge(p, s); }
    static void chunk(Node& n, const protocol::ChunkPayload& p, const PeerId& s) { n.handle_chunk(p, s); }
    static void announce(Node& n, const protocol::AnnouncePayload& p, const PeerId& s) {
        n.handle_announce(p, s, protocol::kCurrentMessageVersion);
    }
    static void assigned_fetch(Node& n, const protocol::Manifest& m, const protocol::AnnouncePayload& p) {
        {
            std::unique_lock<std::recursive_mutex> g(n.scheduler_mutex_);
            n.manifest_cache_[chunk_id_to_string(m.chunk_id)] = m;   // as handle_announce does before scheduling
        }
        n.schedule_assigned_fetch(p);
    }
};
}  // namespace ephemeralnet::test
using Access = ephemeralnet::test::NodeTestAccess;

namespace {

struct Link {
    int node_fd{-1};
    int our_fd{-1};
    std::vector<std::uint8_t> buf;
    std::vector<std::array<std::uint8_t, 32>> keys;  // every session key the peer has had (rotation)
};

struct Remote {   // a chunk published elsewhere: what a provider would hold
    crypto::Key key{};
    crypto::CipherText sealed;
    std::array<std::uint8_t, 32> hash{};
    std::vector<protocol::KeyShard> shards;
};

std::unique_ptr<Node> node;
Config config;
bool mode_c24 = false;
std::map<std::string, std::string> names;           // hex id -> symbolic name
std::map<std::string, Link> links;                  // peer name -> link
std::map<std::string, Remote> remotes;              // chunk name -> material
std::set<std::string> peers_seen, chunks_seen;
std::int64_t wall_start_s = 0;

std::array<std::uint8_t, 32> intern(const std::string& tok, bool peer) {
    auto id = verif::id32(tok);
    names[verif::to_hex(id)] = tok;
    (peer ? peers_seen : chunks_seen).insert(tok);
    return id;
}
std::string name_of(const std::array<std::uint8_t, 32>& id) {
    auto it = names.find(verif::to_hex(id));
    return it == names.end() ? verif::to_hex(id).substr(0, 8) : it->second;
}
std::string name_of_key(const std::string& text, bool peer) {
    // chunk_id_to_string / peer_id_to_string of an interned id
    for (const auto& [hex, nm] : names) {
        auto id = verif::id32(nm);
        if ((peer ? peer_id_to_string(id) : chunk_id_to_string(id)) == text) return nm;
    }
    return text.substr(0, 8);
}

// The planted descriptor belongs to the Session once SessionManager's Session closes its socket in
// its destructor (repo commit "let the Session own its descriptor"); on older trees nobody closes
// it. So: drop the Session first (callers do), then close node_fd only if it is still open.
// Closing it unconditionally double-closed a descriptor number that the next socketpair() had
// already reused for the NEW link (false `release`/`nack` alarms, see notes/C23.md).
void close_link(Link& l) {
    if (l.node_fd >= 0 && ::fcntl(l.node_fd, F_GETFD) != -1) ::close(l.node_fd);
    if (l.our_fd >= 0) ::close(l.our_fd);
    l.node_fd = l.our_fd = -1;
}
void drop_session(const PeerId& p) {
    if (!node) return;
    std::shared_ptr<network::SessionManager::Session> old;
    {
        std::scoped_lock lock(node->sessions_.sessions_mutex_);
        auto it = node->sessions_.sessions_.find(network::SessionManager::peer_key_string(p));
        if (it != node->sessions_.sessions_.end()) { old = std::move(it->second); node->sessions_.sessions_.erase(it); }
    }
    old.reset();   // destructor (if it owns the descriptor) runs here, before any descriptor is reused
}

void ensure_node() {
    if (node) return;
    PeerId self{};
    self[0] = 0xEE;
    config.identity_seed = 0x51u;
    config.announce_pow_difficulty = 0;
    config.nat_stun_enabled = false;
    config.relay_enabled = false;
    node = std::make_unique<Node>(self, config);
}

void remember_keys() {
    if (!node) return;
    for (auto& [nm, l] : links) {
        if (const auto k = node->session_key(verif::id32(nm))) {
            if (std::find(l.keys.begin(), l.keys.end(), *k) == l.keys.end()) l.keys.push_back(*k);
        }
    }
}

std::string describe(const protocol::Message& m) {
    switch (m.type) {
        case protocol::MessageType::Chunk:
            if (const auto* p = std::get_if<protocol::ChunkPayload>(&m.payload)) return "chunk:" + name_of(p->chunk_id);
            break;
        case protocol::MessageType::Acknowledge:
            if (const auto* p = std::get_if<protocol::AcknowledgePayload>(&m.payload)) {
                return p->accepted ? "ack:" + name_of(p->chunk_id) + ":1" : "nack:" + name_of(p->chunk_id);
            }
            break;
        case protocol::MessageType::Request:
            if (const auto* p = std::get_if<protocol::RequestPayload>(&m.payload)) return "req:" + name_of(p->chunk_id);
            break;
        case protocol::MessageType::Announce:
            if (const auto* p = std::get_if<protocol::AnnouncePayload>(&m.payload)) return "announce:" + name_of(p->chunk_id);
            break;
        default: break;
    }
    return "?";
}

// read everything the node wrote to the peers' sockets during this op
std::string drain_frames() {
    std::string out;
    remember_keys();
    for (auto& [nm, l] : links) {   // std::map: sorted by peer name
        if (l.our_fd < 0) continue;
        std::uint8_t tmp[65536];
        for (;;) {
            const auto n = ::recv(l.our_fd, tmp, sizeof tmp, MSG_DONTWAIT);
            if (n <= 0) break;
            l.buf.insert(l.buf.end(), tmp, tmp + n);
        }
        std::size_t off = 0;
        while (l.buf.size() - off >= 16) {
            const std::size_t len = (std::size_t(l.buf[off + 12]) << 24) | (std::size_t(l.buf[off + 13]) << 16)
                                    | (std::size_t(l.buf[off + 14]) << 8) | std::size_t(l.buf[off + 15]);
            if (l.buf.size() - off - 16 < len) break;
            crypto::Nonce nonce{};
            std::copy(l.buf.begin() + off, l.buf.begin() + off + 12, nonce.bytes.begin());
            std::span<const std::uint8_t> cipher(l.buf.data() + off + 16, len);
            std::string what = "?";
            for (const auto& k : l.keys) {
                crypto::Key key{};
                key.bytes = k;
                std::vector<std::uint8_t> plain(len);
                crypto::ChaCha20::apply(key, nonce, cipher, plain, 0u);
                const auto msg = protocol::decode_signed(plain, std::span<const std::uint8_t>(k.data(), k.size()));
                if (msg.has_value()) { what = describe(*msg); break; }
            }
            if (!out.empty()) out += ",";
            out += nm + ">" + what;
            off += 16 + len;
        }
        l.buf.erase(l.buf.begin(), l.buf.begin() + off);
    }
    return out.empty() ? "-" : out;
}

template <class T> std::string join(const std::vector<T>& v) {
    if (v.empty()) return "-";
    std::string s;
    for (std::size_t i = 0; i < v.size(); ++i) { if (i) s += ";"; s += v[i]; }
    return s;
}

std::string held_list() {
    std::vector<std::string> held;
    const auto now = std::chrono::steady_clock::now();
    for (const auto& [k, rec] : node->chunk_store_.chunks_) {
        if (now < rec.expires_at) held.push_back(name_of(rec.id));
    }
    std::sort(held.begin(), held.end());
    return join(held);
}

std::string state_c23() {
    const auto now = std::chrono::steady_clock::now();
    std::vector<std::string> act, pp, q;
    for (const auto& [k, st] : node->active_uploads_) {
        act.push_back(name_of(st.peer_id) + ":" + name_of(st.chunk_id) + ":" + std::to_string((now - st.started_at).count()));
    }
    std::sort(act.begin(), act.end());
    for (const auto& [k, n] : node->active_uploads_per_peer_) pp.push_back(name_of_key(k, true) + ":" + std::to_string(n));
    std::sort(pp.begin(), pp.end());
    for (const auto& r : node->pending_uploads_) q.push_back(name_of(r.peer_id) + ":" + name_of(r.chunk_id));
    return "act=" + join(act) + " pp=" + join(pp) + " q=" + join(q) + " done=" + std::to_string(node->total_completed_uploads_.load())
           + " rot=" + std::to_string((now - node->last_upload_rotation_).count()) + " held=" + held_list();
}

std::string state_c24() {
    const auto now = std::chrono::steady_clock::now();
    std::vector<std::string> pf, ar;
    for (const auto& [k, st] : node->pending_chunk_fetches_) {
        std::string next = st.next_attempt == std::chrono::steady_clock::time_point::max()
                               ? "max" : std::to_string((st.next_attempt - now).count());
        std::string exp = st.manifest_expires == std::chrono::system_clock::time_point{}
                              ? "none"
                              : std::to_string(std::chrono::duration_cast<std::chrono::nanoseconds>(st.manifest_expires.time_since_epoch()).count()
                                               - wall_start_s * 1'000'000'000LL);
        std::string ld = st.last_dispatch == std::chrono::steady_clock::time_point{}
                             ? "never" : std::to_string((now - st.last_dispatch).count());
        pf.push_back(name_of(st.chunk_id) + ":" + name_of(st.peer_id) + ":" + std::to_string(st.attempts) + ":" + (st.in_flight ? "1" : "0")
                     + ":" + next + ":" + exp + ":" + std::to_string(st.provider_count) + ":" + ld);
    }
    std::sort(pf.begin(), pf.end());
    for (const auto& [k, n] : node->active_peer_requests_) ar.push_back(name_of_key(k, true) + ":" + std::to_string(n));
    std::sort(ar.begin(), ar.end());
    return "pf=" + join(pf) + " ar=" + join(ar) + " held=" + held_list();
}

std::string observe() {
    const auto frames = drain_frames();
    return frames + " | " + (mode_c24 ? state_c24() : state_c23());
}

Remote& remote_for(const std::string& cname, const ChunkId& cid) {
    auto it = remotes.find(cname);
    if (it != remotes.end()) return it->second;
    Remote r{};
    for (std::size_t i = 0; i < 32; ++i) r.key.bytes[i] = static_cast<std::uint8_t>(cid[31] * 7 + i + 1);
    ChunkData data(48, static_cast<std::uint8_t>(cid[31] ^ 0x5A));
    r.hash = crypto::Sha256::digest(std::span<const std::uint8_t>(data));
    r.sealed = crypto::CryptoManager::encrypt_with_key(r.key, cid, data);
    for (const auto& s : crypto::Shamir::split(r.key.bytes, 2, 3)) {
        protocol::KeyShard ks{};
        ks.index = s.index;
        ks.value = s.value;
        r.shards.push_back(ks);
    }
    return remotes.emplace(cname, std::move(r)).first->second;
}

protocol::Manifest manifest_for(const std::string& cname, const ChunkId& cid, std::int64_t exp_s) {
    const auto& r = remote_for(cname, cid);
    protocol::Manifest m{};
    m.chunk_id = cid;
    m.chunk_hash = r.hash;
    m.nonce = r.sealed.nonce;
    m.threshold = 2;
    m.total_shares = 3;
    m.expires_at = std::chrono::system_clock::time_point{std::chrono::seconds{wall_start_s + exp_s}};
    m.shards = r.shards;
    return m;
}

bool set_cfg(const std::string& f, long long v) {
    using std::chrono::seconds;
    if (f == "upload_max_parallel_transfers") config.upload_max_parallel_transfers = static_cast<std::uint16_t>(v);
    else if (f == "upload_max_transfers_per_peer") config.upload_max_transfers_per_peer = static_cast<std::uint16_t>(v);
    else if (f == "upload_reconsider_interval") config.upload_reconsider_interval = seconds(v);
    else if (f == "upload_transfer_timeout") config.upload_transfer_timeout = seconds(v);
    else if (f == "fetch_retry_initial_backoff") config.fetch_retry_initial_backoff = seconds(v);
    else if (f == "fetch_retry_max_backoff") config.fetch_retry_max_backoff = seconds(v);
    else if (f == "fetch_retry_success_interval") config.fetch_retry_success_interval = seconds(v);
    else if (f == "fetch_retry_attempt_limit") config.fetch_retry_attempt_limit = static_cast<std::uint8_t>(v);
    else if (f == "fetch_max_parallel_requests") config.fetch_max_parallel_requests = static_cast<std::uint16_t>(v);
    else if (f == "fetch_availability_refresh") config.fetch_availability_refresh = seconds(v);
    else return false;
    return true;
}

}  // namespace

int main(int argc, char** argv) {
    std::signal(SIGPIPE, SIG_IGN);
    mode_c24 = argc > 2 && std::string(argv[2]) == "c24";
    // the node logs session registration on stderr; keep it out of the way
    verif::Handler h;
    h.reset = [] {
        node.reset();
        for (auto& [nm, l] : links) close_link(l);
        links.clear();
        remotes.clear();
        names.clear();
        peers_seen.clear();
        chunks_seen.clear();
        config = Config{};
        verif::vclock_set(verif::kVclockStart);
        wall_start_s = std::chrono::duration_cast<std::chrono::seconds>(std::chrono::system_clock::now().time_since_epoch()).count();
    };
    h.op = [](const std::vector<std::string>& t, const std::string&) -> std::string {
        const auto& op = t[0];
        if (op == "cfg" && t.size() == 3) {
            if (node) return "bad-op";
            return set_cfg(t[1], std::stoll(t[2])) ? "ok" : "bad-op";
        }
        if (op == "adv" && t.size() == 2) { verif::vclock_advance(std::stoll(t[1])); return "ok"; }
        ensure_node();
        remember_keys();
        if (op == "key" && t.size() == 2) {
            const auto p = intern(t[1], true);
            crypto::Key secret{};
            for (std::size_t i = 0; i < 32; ++i) secret.bytes[i] = static_cast<std::uint8_t>(p[31] + 3 * i + 1);
            node->register_shared_secret(p, secret);
            return observe();
        }
        if (op == "link" && t.size() == 2) {
            const auto p = intern(t[1], true);
            auto& l = links[t[1]];
            drop_session(p);
            close_link(l);
            int sv[2];
            if (::socketpair(AF_UNIX, SOCK_STREAM, 0, sv) != 0) return "throw:other";
            l.node_fd = sv[0];
            l.our_fd = sv[1];
            l.buf.clear();
            auto session = std::make_shared<network::SessionManager::Session>();
            session->socket = static_cast<network::SessionManager::SocketHandle>(sv[0]);
            if (const auto k = node->session_key(p)) session->key = *k;
            session->endpoint = "verif";
            session->running.store(true);
            session->alive.store(true);
            {
                std::scoped_lock lock(node->sessions_.sessions_mutex_);
                node->sessions_.sessions_[network::SessionManager::peer_key_string(p)] = session;
            }
            return observe();
        }
        if (op == "unlink" && t.size() == 2) {
            const auto p = intern(t[1], true);
            drop_session(p);
            auto it = links.find(t[1]);
            if (it != links.end()) { close_link(it->second); links.erase(it); }
            return observe();
        }
        if (op == "have" && t.size() == 3) {
            const auto c = intern(t[1], false);
            ChunkData data(40, static_cast<std::uint8_t>(c[31] ^ 0x33));
            node->store_chunk(c, data, std::chrono::seconds(std::stoll(t[2])));
            return observe();
        }
        if (op == "req" && t.size() == 3) {
            const auto p = intern(t[1], true);
            protocol::RequestPayload payload{};
            payload.chunk_id = intern(t[2], false);
            payload.requester = p;
            Access::request(*node, payload, p);
            return observe();
        }
        if (op == "ack" && t.size() == 4) {
            const auto p = intern(t[1], true);
            protocol::AcknowledgePayload payload{};
            payload.chunk_id = intern(t[2], false);
            payload.peer_id = p;
            payload.accepted = t[3] == "1";
            Access::acknowledge(*node, payload, p);
            return observe();
        }
        if ((op == "ann" || op == "hann") && t.size() == 4) {
            const auto c = intern(t[1], false);
            const auto p = intern(t[2], true);
            const auto m = manifest_for(t[1], c, std::stoll(t[3]));
            protocol::AnnouncePayload payload{};
            payload.chunk_id = c;
            payload.peer_id = p;
            payload.endpoint = "";
            payload.ttl = std::chrono::seconds(0);
            payload.manifest_uri = protocol::encode_manifest(m);
            payload.assigned_shards.push_back(m.shards.front().index);
            if (op == "ann") Access::assigned_fetch(*node, m, payload);
            else Access::announce(*node, payload, p);
            return observe();
        }
        if (op == "arr" && t.size() == 4) {
            const auto c = intern(t[1], false);
            const auto p = intern(t[2], true);
            const auto& r = remote_for(t[1], c);
            protocol::ChunkPayload payload{};
            payload.chunk_id = c;
            payload.data = r.sealed.data;
            if (t[3] != "good" && !payload.data.empty()) payload.data[0] ^= 0x01;
            payload.ttl = std::chrono::seconds(0);
            Access::chunk(*node, payload, p);
            return observe();
        }
        if (op == "prov" && t.size() == 3) {
            const auto c = intern(t[1], false);
            PeerContact contact{};
            contact.id = intern(t[2], true);
            contact.address = "";
            std::unique_lock<std::recursive_mutex> g(node->scheduler_mutex_);
            node->dht_.add_contact(c, contact, std::chrono::seconds(100'000'000));
            return "ok";
        }
        if (op == "unprov" && t.size() == 3) {
            const auto c = intern(t[1], false);
            std::unique_lock<std::recursive_mutex> g(node->scheduler_mutex_);
            node->dht_.withdraw_contact(c, intern(t[2], true));
            return "ok";
        }
        if (op == "tick" && t.size() == 1) {
            node->tick();
            return observe();
        }
        return "bad-op";
    };
    return verif::run_lines(argc, argv, h);
}
