// Virtual clock: link-time interposition of the libstdc++ clock entry points.
// All repo code in the harness executable binds to these definitions, so time only moves
// when the harness says so. steady and system clocks advance in lock-step from one counter;
// vclock_wall_offset_ns shifts the wall clock against the steady clock.
#include <atomic>
#include <chrono>
#include <cstdint>

namespace verif {
// start well away from 0 so "time_since_epoch().count() == 0" sentinels are not hit by accident
std::atomic<std::int64_t> vclock_ns{1'000'000'000'000LL};
std::atomic<std::int64_t> vclock_wall_offset_ns{1'700'000'000'000'000'000LL};
void vclock_set(std::int64_t ns) { vclock_ns.store(ns); }
void vclock_advance(std::int64_t ns) { vclock_ns.fetch_add(ns); }
std::int64_t vclock_now() { return vclock_ns.load(); }
}  // namespace verif

namespace std::chrono {
inline namespace _V2 {
steady_clock::time_point steady_clock::now() noexcept {
    return time_point(duration(verif::vclock_ns.load()));
}
system_clock::time_point system_clock::now() noexcept {
    return time_point(duration(verif::vclock_ns.load() + verif::vclock_wall_offset_ns.load()));
}
}  // namespace _V2
}  // namespace std::chrono
