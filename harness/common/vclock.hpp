#pragma once
#include <atomic>
#include <cstdint>
namespace verif {
extern std::atomic<std::int64_t> vclock_ns;
extern std::atomic<std::int64_t> vclock_wall_offset_ns;
void vclock_set(std::int64_t ns);
void vclock_advance(std::int64_t ns);
std::int64_t vclock_now();
constexpr std::int64_t kVclockStart = 1'000'000'000'000LL;
}  // namespace verif
