// Line protocol shared by all harnesses (DESIGN.md section 9).
//   input : file of lines; `case <id>` starts a fresh case, every other line is one op
//   output: exactly one line per input line (`case <id>` echoed)
#pragma once
#include <array>
#include <cstdint>
#include <cstdio>
#include <exception>
#include <fstream>
#include <functional>
#include <iostream>
#include <sstream>
#include <stdexcept>
#include <string>
#include <typeinfo>
#include <vector>

namespace verif {

inline std::vector<std::string> split(const std::string& line, char sep = ' ') {
    std::vector<std::string> out;
    std::string cur;
    for (char c : line) {
        if (c == sep) { out.push_back(cur); cur.clear(); } else { cur.push_back(c); }
    }
    out.push_back(cur);
    return out;
}

inline std::string to_hex(const std::uint8_t* p, std::size_t n) {
    static const char* d = "0123456789abcdef";
    std::string s;
    s.reserve(n * 2);
    for (std::size_t i = 0; i < n; ++i) { s.push_back(d[p[i] >> 4]); s.push_back(d[p[i] & 15]); }
    return s;
}
template <class C> std::string to_hex(const C& c) { return to_hex(reinterpret_cast<const std::uint8_t*>(c.data()), c.size()); }

inline int hexval(char c) {
    if (c >= '0' && c <= '9') return c - '0';
    if (c >= 'a' && c <= 'f') return c - 'a' + 10;
    if (c >= 'A' && c <= 'F') return c - 'A' + 10;
    return -1;
}
// "-" denotes the empty byte string
inline std::vector<std::uint8_t> from_hex(const std::string& s) {
    std::vector<std::uint8_t> out;
    if (s == "-") return out;
    for (std::size_t i = 0; i + 1 < s.size(); i += 2) {
        out.push_back(static_cast<std::uint8_t>(hexval(s[i]) * 16 + hexval(s[i + 1])));
    }
    return out;
}
inline std::string hex_or_dash(const std::string& h) { return h.empty() ? std::string("-") : h; }

// symbolic 32-byte ids: a token of 64 hex chars is taken literally, otherwise the token is a
// short name (<letter><number>) mapped to bytes [letter, 0.., number BE in the last 4 bytes].
inline std::array<std::uint8_t, 32> id32(const std::string& tok) {
    std::array<std::uint8_t, 32> id{};
    if (tok.size() == 64) {
        auto b = from_hex(tok);
        for (std::size_t i = 0; i < 32 && i < b.size(); ++i) id[i] = b[i];
        return id;
    }
    id[0] = static_cast<std::uint8_t>(tok.empty() ? 0 : tok[0]);
    unsigned long n = tok.size() > 1 ? std::stoul(tok.substr(1)) : 0;
    id[28] = static_cast<std::uint8_t>(n >> 24);
    id[29] = static_cast<std::uint8_t>(n >> 16);
    id[30] = static_cast<std::uint8_t>(n >> 8);
    id[31] = static_cast<std::uint8_t>(n);
    return id;
}

// Map the exception in flight to the small error enum of the protocol.
inline std::string exception_name(const std::exception& ex) {
    if (dynamic_cast<const std::invalid_argument*>(&ex)) return "throw:invalid_argument";
    if (dynamic_cast<const std::length_error*>(&ex)) return "throw:length_error";
    if (dynamic_cast<const std::out_of_range*>(&ex)) return "throw:out_of_range";
    if (dynamic_cast<const std::bad_alloc*>(&ex)) return "throw:bad_alloc";
    return "throw:other";
}

struct Handler {
    // called at every `case` line: drop all state
    std::function<void()> reset;
    // one op -> one output line
    std::function<std::string(const std::vector<std::string>& tok, const std::string& line)> op;
};

inline int run_lines(int argc, char** argv, const Handler& h) {
    if (argc < 2) { std::fprintf(stderr, "usage: %s <ops-file>\n", argv[0]); return 2; }
    std::ifstream in(argv[1]);
    if (!in) { std::fprintf(stderr, "cannot open %s\n", argv[1]); return 2; }
    std::string line;
    std::ios::sync_with_stdio(false);
    while (std::getline(in, line)) {
        if (line.rfind("case ", 0) == 0) {
            h.reset();
            std::cout << line << "\n" << std::flush;
            continue;
        }
        std::string out;
        try {
            out = h.op(split(line), line);
        } catch (const std::exception& ex) {
            out = exception_name(ex);
        }
        for (auto& c : out) if (c == '\n' || c == '\r') c = '~';
        std::cout << out << "\n" << std::flush;
    }
    return 0;
}

}  // namespace verif
