// Harness for the provider directory of KademliaTable (C06): real code, virtual clock.
// Ops (one output line each):
//   adv <ns>                 -> ok
//   add <chunk> <peer> <ttl> -> holders of <chunk> after the call (peer:expiry_ns,... sorted; "-" if none)
//   find <chunk>             -> find_providers() result in the same format
//   sweep                    -> all locators: chunk=[holders]|chunk=[holders] sorted, "-" if none
//   withdraw <chunk> <peer>  -> holders of <chunk> after the call
#include "common/lineproto.hpp"
#include "common/vclock.hpp"
#include "ephemeralnet/dht/KademliaTable.hpp"

#include <algorithm>
#include <map>
#include <memory>

using namespace ephemeralnet;

namespace {
std::unique_ptr<KademliaTable> table;
std::map<std::string, std::string> names;  // hex id -> symbolic token

std::string name_of(const std::array<std::uint8_t, 32>& id) {
    auto it = names.find(verif::to_hex(id));
    return it == names.end() ? verif::to_hex(id) : it->second;
}
std::array<std::uint8_t, 32> intern(const std::string& tok) {
    auto id = verif::id32(tok);
    names[verif::to_hex(id)] = tok;
    return id;
}
std::string fmt(const std::vector<PeerContact>& hs) {
    if (hs.empty()) return "-";
    std::vector<std::pair<std::string, std::string>> items;  // sorted by peer name (as the driver does)
    for (const auto& h : hs) {
        items.emplace_back(name_of(h.id), std::to_string(h.expires_at.time_since_epoch().count()));
    }
    std::stable_sort(items.begin(), items.end(), [](const auto& a, const auto& b) { return a.first < b.first; });
    std::string out;
    for (std::size_t i = 0; i < items.size(); ++i) { if (i) out += ","; out += items[i].first + ":" + items[i].second; }
    return out;
}
std::string holders_of(const ChunkId& c) {
    for (const auto& loc : table->snapshot_locators()) {
        if (loc.id == c) return fmt(loc.holders);
    }
    return "-";
}
}  // namespace

int main(int argc, char** argv) {
    verif::Handler h;
    h.reset = [] {
        verif::vclock_set(verif::kVclockStart);
        names.clear();
        PeerId self{};
        self[0] = 0xEE;
        table = std::make_unique<KademliaTable>(self, Config{});
    };
    h.op = [](const std::vector<std::string>& t, const std::string&) -> std::string {
        if (t[0] == "adv" && t.size() == 2) { verif::vclock_advance(std::stoll(t[1])); return "ok"; }
        if (t[0] == "add" && t.size() == 4) {
            const auto c = intern(t[1]);
            PeerContact contact{};
            contact.id = intern(t[2]);
            contact.address = "10.0.0.1:1";
            table->add_contact(c, contact, std::chrono::seconds(std::stoll(t[3])));
            return holders_of(c);
        }
        if (t[0] == "find" && t.size() == 2) { return fmt(table->find_providers(intern(t[1]))); }
        if (t[0] == "sweep") {
            table->sweep_expired();
            std::vector<std::pair<std::string, std::string>> items;
            for (const auto& loc : table->snapshot_locators()) items.emplace_back(name_of(loc.id), fmt(loc.holders));
            if (items.empty()) return "-";
            std::sort(items.begin(), items.end());
            std::string out;
            for (std::size_t i = 0; i < items.size(); ++i) { if (i) out += "|"; out += items[i].first + "=[" + items[i].second + "]"; }
            return out;
        }
        if (t[0] == "withdraw" && t.size() == 3) {
            const auto c = intern(t[1]);
            table->withdraw_contact(c, intern(t[2]));
            return holders_of(c);
        }
        return "bad-op";
    };
    return verif::run_lines(argc, argv, h);
}
