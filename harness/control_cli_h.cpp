// Second translation unit of harness/control_h.cpp: the CLI's own list printing (C29).
// src/main.cpp keeps print_list_response in an anonymous namespace, so the file is included here
// with its entry point renamed; the wrapper captures what the CLI would write to stdout.
#define main eph_cli_main
#include "src/main.cpp"
#undef main

#include <iostream>
#include <sstream>

std::string verif_cli_print_list(const ephemeralnet::daemon::ControlResponse& response) {
    std::ostringstream captured;
    auto* previous = std::cout.rdbuf(captured.rdbuf());
    try {
        print_list_response(response);
    } catch (...) {
        std::cout.rdbuf(previous);
        throw;
    }
    std::cout.flush();
    std::cout.rdbuf(previous);
    return captured.str();
}
