// Harness for C11 (stored content round-trips; tampered replicas are never accepted).
//
// Two real `Node`s in one process (A = publisher, B = a fresh node that imports replicas), no
// transport, virtual clock.  The CLI's `decrypt_chunk_with_manifest` comes from the second
// translation unit harness/pipeline_cli_h.cpp (src/main.cpp with `main` renamed).
//
// Randomness: `store_chunk` draws the chunk key, the nonce (through a mt19937_64 seeded from
// random_device) and the Shamir coefficients from std::random_device.  Its three out-of-line
// members are defined here (link-time interposition, as for the virtual clock), so a case is
// replayable and the excluded point "all-zero chunk key" can be reached on the real code
// (`zk<seed>`: the next 32 draws — the key — are 0).  The Lean driver does not rely on the
// stream: it takes key / nonce / coefficients from what this harness prints and validates them.
//
// Ops (one output line each):
//   cfg <t> <n> <min_s> <max_s> <def_s> <wall_sub_ns>  -> ok        fresh A and B (Config::shard_threshold/total, manifest TTL window)
//   adv <ns>                                           -> ok        advance both clocks
//   store <id> <payload> <ttl_s> <rng>                 -> ok held=<bytes> enc=<0|1> rnonce=<hex> hash=<hex> nonce=<hex> t=<t> n=<n>
//                                                            exp=<wall ns> ann=<0|1> shards=<idx:hex,...>
//        A.store_chunk; held/enc/rnonce = A.export_chunk_record; the rest = the returned manifest; ann = A lists itself as provider
//   fetch <a|b> <id>                                   -> hit <bytes> | miss          Node::fetch_chunk
//   receive <corr>                                     -> accept|reject ret=<bytes|none> dec=<0|1> stored=<0|1> ann=<0|1> changed=<0|1> fetch=<bytes|miss|throw|->
//        B.receive_chunk(encode_manifest(corr(manifest of the last store)), corr(held bytes)); dec = decode_manifest accepts the URI;
//        stored/ann = B holds a record for / lists itself as provider of the (corrupted) manifest's chunk id afterwards;
//        changed = B's state fingerprint (chunk store, provider table, shard table, manifest cache, swarm plans/ledgers) differs;
//        fetch = B.fetch_chunk(id) after an accept.  A throw out of receive_chunk is a `reject`.
//   cli <corr>                                         -> ok <bytes> | null           decrypt_chunk_with_manifest (src/main.cpp); a throw is `null`
//   ingest <a|b> <corr>                                -> ok | refused                Node::ingest_manifest(encode(corr(manifest))): a manifest without replica
//   announce <a|x> <corr> <assign 0|1>                 -> ok acc=<0|1> cached=<0|1> pend=<0|1> req=<0|1>
//        B.handle_announce of corr(manifest) from peer A or from a third peer X (planted sessions), one second later (announce
//        throttle); acc = B's reputation of the sender went up (the accepting exit), cached = B's manifest cache now holds exactly
//        that manifest, pend = B has a pending fetch for the id, req = B wrote a REQUEST for it to the sender's session
//   serve                                              -> chunk data=<bytes> ttl=<s> | nack | none
//        A.handle_request({id of the last store, B}, B); what A wrote to B's session (decrypted, signature checked); the upload
//        slot is released again by an ACK from B (harness housekeeping)
//   deliver <a|x> <corr>                               -> ack=<0|1|none> stored=<0|1> ann=<0|1> changed=<0|1|acc> pend=<0|1> fetch=<bytes|miss|throw|->
//        B.handle_chunk({corr.id, corr(held bytes)}, sender): the manifest is the one B has cached; ack = the ACK B wrote back
// <payload>: hex | - | gen:<len>:<seed>.  <bytes>: `-` (empty), hex (<= 64 bytes), else len:<n>:fnv:<fnv1a64>.
// <corr>: none | item+item+...; items: ct:<k>:<x> ctadd:<hex> ctcut:<k> hash:<k>:<x> nonce:<k>:<x> id:<k>:<x>
//         shard:<i>:<k>:<x> sidx:<i>:<v> thr:<v> total:<v> exp:<delta_s> drop:<i> rot:<k> rev
#include "common/lineproto.hpp"
#include "common/vclock.hpp"
#include "ephemeralnet/core/Node.hpp"
#include "ephemeralnet/protocol/Manifest.hpp"
#include "pipeline_cli_h.hpp"

#include "ephemeralnet/crypto/ChaCha20.hpp"
#include "ephemeralnet/network/SessionManager.hpp"
#include "ephemeralnet/protocol/Message.hpp"

#include <algorithm>
#include <memory>
#include <random>
#include <sys/socket.h>
#include <unistd.h>

namespace verif_rng {
std::uint64_t state = 0x9E3779B97F4A7C15ull;
long zero_next = 0;
void seed(std::uint64_t s) { state = s * 0x9E3779B97F4A7C15ull + 0x1234567ull; if (state == 0) state = 1; }
unsigned next() {
    if (zero_next > 0) { --zero_next; return 0u; }
    state ^= state << 13; state ^= state >> 7; state ^= state << 17;
    return static_cast<unsigned>(state >> 24);
}
}  // namespace verif_rng

// interposed (the members libstdc++ keeps out of line)
void std::random_device::_M_init(const std::string&) {}
void std::random_device::_M_fini() {}
std::random_device::result_type std::random_device::_M_getval() { return verif_rng::next(); }

using namespace ephemeralnet;

namespace {

constexpr std::int64_t kWallBase = 1'700'000'000'000'000'000LL;

std::unique_ptr<Node> A, B;
bool have_manifest = false;
protocol::Manifest last_manifest{};
std::vector<std::uint8_t> last_held;

// planted transport sessions: fd_* are the harness ends of socketpairs whose other ends are session sockets
int fd_a_to_b = -1;   // what A writes to its session with B
int fd_b_to_a = -1;   // what B writes to its session with A
int fd_b_to_x = -1;   // what B writes to its session with the third peer X
PeerId id_a{}, id_b{}, id_x{};

void close_fds() {
    for (int* f : {&fd_a_to_b, &fd_b_to_a, &fd_b_to_x}) {
        if (*f >= 0) ::close(*f);
        *f = -1;
    }
}

int plant(Node& n, const PeerId& peer, std::uint8_t secret_byte) {
    int sv[2];
    if (::socketpair(AF_UNIX, SOCK_STREAM, 0, sv) != 0) throw std::runtime_error("socketpair");
    crypto::Key secret{};
    secret.bytes.fill(secret_byte);
    n.register_shared_secret(peer, secret);
    auto session = std::make_shared<network::SessionManager::Session>();
    session->socket = static_cast<network::SessionManager::SocketHandle>(sv[0]);
    if (const auto k = n.session_key(peer)) session->key = *k;
    session->endpoint = "verif";
    session->running.store(true);
    session->alive.store(true);
    {
        std::scoped_lock lock(n.sessions_.sessions_mutex_);
        n.sessions_.sessions_[network::SessionManager::peer_key_string(peer)] = session;
    }
    return sv[1];
}

// every message `n` wrote to its session with `peer` since the last call (frame: nonce(12) len(4, BE) ciphertext)
std::vector<protocol::Message> drain(int fd, Node& n, const PeerId& peer) {
    std::vector<protocol::Message> out;
    std::vector<std::uint8_t> buf;
    std::uint8_t tmp[65536];
    for (;;) {
        const auto got = ::recv(fd, tmp, sizeof tmp, MSG_DONTWAIT);
        if (got <= 0) break;
        buf.insert(buf.end(), tmp, tmp + got);
    }
    const auto key = n.session_key(peer);
    if (!key) return out;
    std::size_t off = 0;
    while (buf.size() - off >= 16) {
        const std::size_t len = (std::size_t(buf[off + 12]) << 24) | (std::size_t(buf[off + 13]) << 16) |
                                (std::size_t(buf[off + 14]) << 8) | std::size_t(buf[off + 15]);
        if (buf.size() - off - 16 < len) break;
        crypto::Nonce nonce{};
        std::copy(buf.begin() + off, buf.begin() + off + 12, nonce.bytes.begin());
        crypto::Key k{};
        k.bytes = *key;
        std::vector<std::uint8_t> pt(len);
        crypto::ChaCha20::apply(k, nonce, std::span<const std::uint8_t>(buf.data() + off + 16, len), pt, 0u);
        if (const auto msg = protocol::decode_signed(std::span<const std::uint8_t>(pt), std::span<const std::uint8_t>(key->data(), key->size()))) {
            out.push_back(*msg);
        }
        off += 16 + len;
    }
    return out;
}

std::string canon(const std::uint8_t* p, std::size_t n) {
    if (n == 0) return "-";
    if (n <= 64) return verif::to_hex(p, n);
    std::uint64_t h = 14695981039346656037ull;
    for (std::size_t i = 0; i < n; ++i) { h ^= p[i]; h *= 1099511628211ull; }
    char buf[64];
    std::snprintf(buf, sizeof buf, "len:%zu:fnv:%016llx", n, static_cast<unsigned long long>(h));
    return buf;
}
template <class C> std::string canon(const C& c) { return canon(reinterpret_cast<const std::uint8_t*>(c.data()), c.size()); }

std::vector<std::uint8_t> payload_arg(const std::string& s) {
    if (s.rfind("gen:", 0) == 0) {
        const auto parts = verif::split(s, ':');
        const std::size_t n = std::stoull(parts.at(1));
        std::uint64_t x = std::stoull(parts.at(2));
        std::vector<std::uint8_t> out(n);
        for (std::size_t i = 0; i < n; ++i) {
            x = x * 6364136223846793005ull + 1442695040888963407ull;
            out[i] = static_cast<std::uint8_t>(x >> 56);
        }
        return out;
    }
    return verif::from_hex(s);
}

std::string fmt_shards(const std::vector<protocol::KeyShard>& shards) {
    if (shards.empty()) return "-";
    std::string out;
    for (std::size_t i = 0; i < shards.size(); ++i) {
        if (i) out += ",";
        out += std::to_string(static_cast<unsigned>(shards[i].index)) + ":" + verif::to_hex(shards[i].value);
    }
    return out;
}

Config make_config(const std::vector<std::string>& t) {
    Config cfg{};
    cfg.identity_seed = 0x55u;
    cfg.announce_pow_difficulty = 0;
    cfg.handshake_pow_difficulty = 0;
    cfg.relay_enabled = false;
    cfg.nat_stun_enabled = false;
    cfg.storage_persistent_enabled = false;
    cfg.key_rotation_interval = std::chrono::seconds(360000);
    cfg.announce_min_interval = std::chrono::seconds(1);
    cfg.announce_burst_limit = 1000000;
    cfg.shard_threshold = static_cast<std::uint8_t>(std::stoul(t.at(1)));
    cfg.shard_total = static_cast<std::uint8_t>(std::stoul(t.at(2)));
    cfg.min_manifest_ttl = std::chrono::seconds(std::stoll(t.at(3)));
    cfg.max_manifest_ttl = std::chrono::seconds(std::stoll(t.at(4)));
    cfg.default_chunk_ttl = std::chrono::seconds(std::stoll(t.at(5)));
    return cfg;
}

void fresh_nodes(const Config& cfg) {
    A.reset();
    B.reset();
    close_fds();
    id_a.fill(0); id_b.fill(0); id_x.fill(0);
    id_a[0] = 0xA1; id_a[31] = 0x01;
    id_b[0] = 0xB2; id_b[31] = 0x02;
    id_x[0] = 0xC3; id_x[31] = 0x03;
    A = std::make_unique<Node>(id_a, cfg);
    B = std::make_unique<Node>(id_b, cfg);
    fd_a_to_b = plant(*A, id_b, 0x42);
    fd_b_to_a = plant(*B, id_a, 0x42);
    fd_b_to_x = plant(*B, id_x, 0x43);
    have_manifest = false;
    last_held.clear();
}

bool announced(Node& n, const ChunkId& id) {
    const auto it = n.dht_.table_.find(chunk_id_to_string(id));
    if (it == n.dht_.table_.end()) return false;
    for (const auto& h : it->second.holders) if (h.id == n.id_) return true;
    return false;
}

bool holds(Node& n, const ChunkId& id) {
    return n.chunk_store_.chunks_.count(chunk_id_to_string(id)) != 0;
}

// everything receive_chunk / ingest could write, canonically ordered
std::string fingerprint(Node& n) {
    std::vector<std::string> items;
    for (const auto& [k, r] : n.chunk_store_.chunks_) {
        items.push_back("chunk " + k + " " + canon(r.data) + " " + verif::to_hex(r.nonce) + " " + (r.encrypted ? "1" : "0") + " " +
                        std::to_string(r.expires_at.time_since_epoch().count()));
    }
    for (const auto& [k, loc] : n.dht_.table_) {
        std::vector<std::string> hs;
        for (const auto& h : loc.holders) hs.push_back(verif::to_hex(h.id) + "@" + std::to_string(h.expires_at.time_since_epoch().count()));
        std::sort(hs.begin(), hs.end());
        std::string s = "prov " + k + " " + std::to_string(loc.expires_at.time_since_epoch().count());
        for (const auto& h : hs) s += " " + h;
        items.push_back(s);
    }
    for (const auto& [k, rec] : n.dht_.shard_table_) {
        items.push_back("shards " + k + " " + std::to_string(rec.threshold) + "/" + std::to_string(rec.total_shares) + " " +
                        fmt_shards(rec.shards) + " " + std::to_string(rec.expires_at.time_since_epoch().count()));
    }
    for (const auto& [k, m] : n.manifest_cache_) {
        std::string enc;
        try { enc = protocol::encode_manifest(m); } catch (const std::exception&) { enc = "unencodable"; }
        items.push_back("manifest " + k + " " + enc);
    }
    for (const auto& [k, p] : n.swarm_plans_) items.push_back("plan " + k);
    for (const auto& [k, l] : n.swarm_roles_) {
        items.push_back("ledger " + k + " " + (l.self_seed ? "S" : "-") + (l.self_leecher ? "L" : "-") + " " +
                        std::to_string(l.seeds.size()) + "/" + std::to_string(l.leechers.size()));
    }
    items.push_back("pending " + std::to_string(n.pending_chunk_fetches_.size()));
    std::sort(items.begin(), items.end());
    std::string out;
    for (const auto& i : items) { out += i; out += "\n"; }
    return out;
}

template <class Arr> void xor_at(Arr& a, std::size_t k, unsigned x) {
    if (a.size() == 0) return;
    a[k % a.size()] = static_cast<std::uint8_t>(a[k % a.size()] ^ x);
}

void corrupt(const std::string& spec, protocol::Manifest& m, std::vector<std::uint8_t>& ct) {
    if (spec == "none") return;
    for (const auto& item : verif::split(spec, '+')) {
        const auto p = verif::split(item, ':');
        const auto num = [&](std::size_t i) { return std::stoll(p.at(i)); };
        const std::string& k = p.at(0);
        if (k == "ct") xor_at(ct, static_cast<std::size_t>(num(1)), static_cast<unsigned>(num(2)));
        else if (k == "ctadd") { const auto extra = verif::from_hex(p.at(1)); ct.insert(ct.end(), extra.begin(), extra.end()); }
        else if (k == "ctcut") { const auto n = std::min<std::size_t>(ct.size(), static_cast<std::size_t>(num(1))); ct.resize(ct.size() - n); }
        else if (k == "hash") xor_at(m.chunk_hash, static_cast<std::size_t>(num(1)), static_cast<unsigned>(num(2)));
        else if (k == "nonce") xor_at(m.nonce.bytes, static_cast<std::size_t>(num(1)), static_cast<unsigned>(num(2)));
        else if (k == "id") xor_at(m.chunk_id, static_cast<std::size_t>(num(1)), static_cast<unsigned>(num(2)));
        else if (k == "shard") { if (!m.shards.empty()) xor_at(m.shards[static_cast<std::size_t>(num(1)) % m.shards.size()].value, static_cast<std::size_t>(num(2)), static_cast<unsigned>(num(3))); }
        else if (k == "sidx") { if (!m.shards.empty()) m.shards[static_cast<std::size_t>(num(1)) % m.shards.size()].index = static_cast<std::uint8_t>(num(2)); }
        else if (k == "thr") m.threshold = static_cast<std::uint8_t>(num(1));
        else if (k == "total") m.total_shares = static_cast<std::uint8_t>(num(1));
        else if (k == "exp") m.expires_at += std::chrono::seconds(num(1));
        else if (k == "drop") { if (!m.shards.empty()) m.shards.erase(m.shards.begin() + static_cast<std::ptrdiff_t>(static_cast<std::size_t>(num(1)) % m.shards.size())); }
        else if (k == "rot") { if (!m.shards.empty()) std::rotate(m.shards.begin(), m.shards.begin() + static_cast<std::ptrdiff_t>(static_cast<std::size_t>(num(1)) % m.shards.size()), m.shards.end()); }
        else if (k == "rev") std::reverse(m.shards.begin(), m.shards.end());
        else throw std::invalid_argument("corruption item");
    }
}

Node& who(const std::string& s) { return s == "b" ? *B : *A; }

std::string handle(const std::vector<std::string>& t) {
    if (t[0] == "cfg") {
        verif::vclock_set(verif::kVclockStart);
        verif::vclock_wall_offset_ns.store(kWallBase + std::stoll(t.at(6)));
        verif_rng::seed(0xC11);
        verif_rng::zero_next = 0;
        fresh_nodes(make_config(t));
        return "ok";
    }
    if (!A || !B) return "no-cfg";
    if (t[0] == "adv") {
        verif::vclock_advance(std::stoll(t.at(1)));
        return "ok";
    }
    if (t[0] == "store") {
        const auto id = verif::id32(t.at(1));
        auto data = payload_arg(t.at(2));
        const auto ttl = std::chrono::seconds(std::stoll(t.at(3)));
        const std::string& rng = t.at(4);
        const bool zk = rng.rfind("zk", 0) == 0;
        verif_rng::seed(std::stoull(rng.substr(zk ? 2 : 1)));
        verif_rng::zero_next = zk ? 32 : 0;
        const auto manifest = A->store_chunk(id, std::move(data), ttl);
        verif_rng::zero_next = 0;
        const auto rec = A->export_chunk_record(id);
        last_manifest = manifest;
        have_manifest = true;
        last_held = rec ? rec->data : std::vector<std::uint8_t>{};
        std::string out = "ok held=";
        out += rec ? canon(rec->data) : std::string("none");
        out += std::string(" enc=") + ((rec && rec->encrypted) ? "1" : "0");
        out += " rnonce=" + (rec ? verif::to_hex(rec->nonce) : std::string("none"));
        out += " hash=" + verif::to_hex(manifest.chunk_hash);
        out += " nonce=" + verif::to_hex(manifest.nonce.bytes);
        out += " t=" + std::to_string(manifest.threshold) + " n=" + std::to_string(manifest.total_shares);
        out += " exp=" + std::to_string(std::chrono::duration_cast<std::chrono::nanoseconds>(manifest.expires_at.time_since_epoch()).count());
        out += std::string(" ann=") + (announced(*A, id) ? "1" : "0");
        out += " shards=" + fmt_shards(manifest.shards);
        return out;
    }
    if (t[0] == "fetch") {
        const auto r = who(t.at(1)).fetch_chunk(verif::id32(t.at(2)));
        return r ? "hit " + canon(*r) : std::string("miss");
    }
    if (t[0] == "ingest") {
        if (!have_manifest) return "no-manifest";
        protocol::Manifest m = last_manifest;
        std::vector<std::uint8_t> ct;
        corrupt(t.at(2), m, ct);
        return who(t.at(1)).ingest_manifest(protocol::encode_manifest(m)) ? "ok" : "refused";
    }
    if (t[0] == "announce") {
        if (!have_manifest) return "no-manifest";
        const bool from_x = t.at(1) == "x";
        const PeerId& sender = from_x ? id_x : id_a;
        const int fd = from_x ? fd_b_to_x : fd_b_to_a;
        protocol::Manifest m = last_manifest;
        std::vector<std::uint8_t> ct;
        corrupt(t.at(2), m, ct);
        verif::vclock_advance(1'000'000'000LL);
        protocol::AnnouncePayload payload{};
        payload.chunk_id = m.chunk_id;
        payload.peer_id = sender;
        payload.endpoint = "";
        payload.ttl = std::chrono::seconds(0);
        payload.manifest_uri = protocol::encode_manifest(m);
        if (t.at(3) == "1" && !m.shards.empty()) payload.assigned_shards.push_back(m.shards.front().index);
        drain(fd, *B, sender);
        const int before = B->reputation_.score(sender);
        B->handle_announce(payload, sender, protocol::kCurrentMessageVersion);
        const bool acc = B->reputation_.score(sender) > before;
        bool cached = false;
        {
            const auto it = B->manifest_cache_.find(chunk_id_to_string(m.chunk_id));
            if (it != B->manifest_cache_.end()) {
                try { cached = protocol::encode_manifest(it->second) == payload.manifest_uri; } catch (const std::exception&) {}
            }
        }
        const bool pend = B->pending_chunk_fetches_.count(chunk_id_to_string(m.chunk_id)) != 0;
        bool req = false;
        for (const auto& msg : drain(fd, *B, sender)) {
            if (const auto* r = std::get_if<protocol::RequestPayload>(&msg.payload)) req = req || r->chunk_id == m.chunk_id;
        }
        return std::string("ok acc=") + (acc ? "1" : "0") + " cached=" + (cached ? "1" : "0") + " pend=" + (pend ? "1" : "0") +
               " req=" + (req ? "1" : "0");
    }
    if (t[0] == "serve") {
        if (!have_manifest) return "no-manifest";
        protocol::RequestPayload payload{};
        payload.chunk_id = last_manifest.chunk_id;
        payload.requester = id_b;
        drain(fd_a_to_b, *A, id_b);
        A->handle_request(payload, id_b);
        std::string out = "none";
        bool served = false;
        for (const auto& msg : drain(fd_a_to_b, *A, id_b)) {
            if (const auto* c = std::get_if<protocol::ChunkPayload>(&msg.payload)) {
                if (c->chunk_id == payload.chunk_id) { out = "chunk data=" + canon(c->data) + " ttl=" + std::to_string(c->ttl.count()); served = true; }
            } else if (const auto* a = std::get_if<protocol::AcknowledgePayload>(&msg.payload)) {
                if (a->chunk_id == payload.chunk_id && !a->accepted && !served) out = "nack";
            }
        }
        if (served) {   // B's ACK releases the upload slot
            protocol::AcknowledgePayload ack{};
            ack.chunk_id = payload.chunk_id;
            ack.peer_id = id_b;
            ack.accepted = true;
            A->handle_acknowledge(ack, id_b);
            drain(fd_a_to_b, *A, id_b);
        }
        return out;
    }
    if (t[0] == "deliver") {
        if (!have_manifest) return "no-manifest";
        const bool from_x = t.at(1) == "x";
        const PeerId& sender = from_x ? id_x : id_a;
        const int fd = from_x ? fd_b_to_x : fd_b_to_a;
        protocol::Manifest m = last_manifest;
        std::vector<std::uint8_t> ct = last_held;
        corrupt(t.at(2), m, ct);
        protocol::ChunkPayload payload{};
        payload.chunk_id = m.chunk_id;
        payload.data = ct;
        payload.ttl = std::chrono::seconds(0);
        drain(fd, *B, sender);
        const std::string before = fingerprint(*B);
        B->handle_chunk(payload, sender);
        const std::string after = fingerprint(*B);
        std::string ack = "none";
        for (const auto& msg : drain(fd, *B, sender)) {
            if (const auto* a = std::get_if<protocol::AcknowledgePayload>(&msg.payload)) {
                if (a->chunk_id == m.chunk_id) ack = a->accepted ? "1" : "0";
            }
        }
        std::string out = "ack=" + ack;
        out += std::string(" stored=") + (holds(*B, m.chunk_id) ? "1" : "0");
        out += std::string(" ann=") + (announced(*B, m.chunk_id) ? "1" : "0");
        // after an accept the sender is also noted as a seed (swarm ledger): only a reject is expected to change nothing
        out += std::string(" changed=") + (ack == "1" ? "acc" : (before != after ? "1" : "0"));
        out += std::string(" pend=") + (B->pending_chunk_fetches_.count(chunk_id_to_string(m.chunk_id)) ? "1" : "0");
        if (ack == "1") {
            try {
                const auto f = B->fetch_chunk(m.chunk_id);
                out += " fetch=" + (f ? canon(*f) : std::string("miss"));
            } catch (const std::exception&) {
                out += " fetch=throw";
            }
        } else {
            out += " fetch=-";
        }
        return out;
    }
    if (t[0] == "receive" || t[0] == "cli") {
        if (!have_manifest) return "no-manifest";
        protocol::Manifest m = last_manifest;
        std::vector<std::uint8_t> ct = last_held;
        corrupt(t.at(1), m, ct);
        const std::string uri = protocol::encode_manifest(m);
        bool dec = true;
        protocol::Manifest decoded{};
        try { decoded = protocol::decode_manifest(uri); } catch (const std::exception&) { dec = false; }
        if (t[0] == "cli") {
            if (!dec) return "null";
            try {
                const auto r = pipecli::decrypt(decoded, ct);
                return r ? "ok " + canon(*r) : std::string("null");
            } catch (const std::exception&) {
                return "null";   // an exception out of Shamir::combine: nothing returned (error handling is C35's subject)
            }
        }
        const std::string before = fingerprint(*B);
        std::optional<ChunkData> r;
        try {
            r = B->receive_chunk(uri, ct);
        } catch (const std::exception&) {
            r.reset();
        }
        const std::string after = fingerprint(*B);
        std::string out = r ? "accept" : "reject";
        out += " ret=" + (r ? canon(*r) : std::string("none"));
        out += std::string(" dec=") + (dec ? "1" : "0");
        out += std::string(" stored=") + (holds(*B, m.chunk_id) ? "1" : "0");
        out += std::string(" ann=") + (announced(*B, m.chunk_id) ? "1" : "0");
        out += std::string(" changed=") + (before != after ? "1" : "0");
        if (r) {
            try {
                const auto f = B->fetch_chunk(m.chunk_id);
                out += " fetch=" + (f ? canon(*f) : std::string("miss"));
            } catch (const std::exception&) {
                out += " fetch=throw";
            }
        } else {
            out += " fetch=-";
        }
        return out;
    }
    return "bad-op";
}

}  // namespace

int main(int argc, char** argv) {
    verif::Handler h;
    h.reset = [] {
        A.reset();
        B.reset();
        close_fds();
        have_manifest = false;
        last_held.clear();
    };
    h.op = [](const std::vector<std::string>& tok, const std::string&) { return handle(tok); };
    return verif::run_lines(argc, argv, h);
}
