// Harness for the control plane (C27 token gate, C28 STORE admission / rate limits, C29 response
// framing): a real ControlServer + real Node on an ephemeral loopback port in this process, the
// virtual clock for the rate windows, raw requests written byte for byte by the harness, and the
// real ControlClient / the CLI's print_list_response (harness/control_cli_h.cpp) for the client side.
//
// The process works inside its own scratch directory (created under the cwd, removed at exit);
// daemon-side OUT paths of FETCH are relative to it and every file in it is reported.
//
// Ops (one output line each):
//   cfg k=v ...            (re)create node + server.  keys: tok=<hex|-> pow= cap= min= max= def=
//                          warn=<hex,hex..> conflict=<0|1> ep=<hosthex/port/srchex,..> boot=<idname/hosthex/port/pub|-,..>
//                          advhost=<hex> sdir=<hex>            -> ok min=.. max=.. def=.. pow=.. cap=..
//   adv <ns>               -> ok
//   mk <name> <payloadhex> <ttl_s>     manifest of a chunk held by a *different* node -> ok
//   put <name> <payloadhex> <ttl_s>    node.store_chunk directly (no control plane) -> ok <idhex> <stored size>
//   req <addr> <mode> <head> <bodyhex|->   raw request from 127.0.0.<addr>.
//        head: segments joined by '+', each hex bytes or $name (manifest URI of mk/put/accepted STORE sN)
//        mode: full  = send head+body, half-close, read to EOF
//              early = send the head only and half-close: a daemon that refuses an oversized PAYLOAD-LENGTH
//                      before reading the body answers ERR_CONTROL_PAYLOAD_TOO_LARGE, one that first tries to read
//                      the body runs into EOF (ERR_CONTROL_PAYLOAD_TRUNCATED) -- no timing involved
//        -> <STATUS> <CODE> [size= ttl=] [payload=] | st= mf= files= stop= ts= run=
//   cli <tokhex|-> <CMD> <sel> [KEY=hexvalue ...] [payload=<hex>]   real ControlClient::send
//        sel: * or KEY,KEY (printed subset)      -> ok=<0|1> n=<fields> F=K=hex;.. P=<none|len:hex16>
//   list <tokhex|->        real client LIST + the CLI's print_list_response -> out=<lines joined by |> chunks=<n>
//   rt <0|1> <K=hex;K=hex|-> <payloadhex|-|none>   Impl::send_response (fake listener) -> real client
//        -> same format as cli with sel=*
#include "common/lineproto.hpp"
#include "common/vclock.hpp"

#include "src/daemon/ControlServer.cpp"  // ControlServer::Impl, send_response, anonymous-namespace helpers

#include "ephemeralnet/crypto/Sha256.hpp"
#include "ephemeralnet/protocol/Manifest.hpp"

#include <algorithm>
#include <csignal>
#include <cstdlib>
#include <fcntl.h>
#include <filesystem>
#include <map>
#include <memory>
#include <poll.h>
#include <set>
#include <sys/stat.h>

using namespace ephemeralnet;
namespace fs = std::filesystem;

// defined in harness/control_cli_h.cpp (src/main.cpp included there)
std::string verif_cli_print_list(const ephemeralnet::daemon::ControlResponse& response);

namespace {

fs::path scratch;
std::unique_ptr<Node> node;
std::unique_ptr<Node> other;  // holder of the "foreign" chunks
std::mutex node_mutex;
std::unique_ptr<daemon::ControlServer> server;
std::atomic<int> stops{0};
std::uint16_t port = 0;
std::map<std::string, std::string> manifests;  // $name -> URI
int accepted_stores = 0;

std::string bytes_of_hex(const std::string& h) {
    auto v = verif::from_hex(h);
    return std::string(v.begin(), v.end());
}
std::string hexs(const std::string& s) { return s.empty() ? "-" : verif::to_hex(s); }

PeerId pid(std::uint8_t tag) {
    PeerId id{};
    id[0] = tag;
    return id;
}

void stop_all() {
    if (server) {
        server->stop();
        server.reset();
    }
    node.reset();
    other.reset();
}

void wipe_scratch() {
    std::error_code ec;
    for (const auto& e : fs::directory_iterator(scratch, ec)) fs::remove_all(e.path(), ec);
}

std::uint16_t bound_port(int fd) {
    sockaddr_in a{};
    socklen_t l = sizeof(a);
    if (::getsockname(fd, reinterpret_cast<sockaddr*>(&a), &l) != 0) return 0;
    return ntohs(a.sin_port);
}

std::map<std::string, std::string> kv(const std::vector<std::string>& t, std::size_t from) {
    std::map<std::string, std::string> m;
    for (std::size_t i = from; i < t.size(); ++i) {
        const auto p = t[i].find('=');
        if (p != std::string::npos) m[t[i].substr(0, p)] = t[i].substr(p + 1);
    }
    return m;
}

std::string start(const std::map<std::string, std::string>& o) {
    stop_all();
    wipe_scratch();
    manifests.clear();
    accepted_stores = 0;
    stops = 0;
    Config c{};
    c.nat_stun_enabled = false;
    c.relay_enabled = false;
    c.identity_seed = 7u;
    auto num = [&](const char* k, long long d) { auto it = o.find(k); return it == o.end() ? d : std::stoll(it->second); };
    if (auto it = o.find("tok"); it != o.end() && it->second != "-") c.control_token = bytes_of_hex(it->second);
    c.store_pow_difficulty = static_cast<std::uint8_t>(num("pow", 0));
    c.control_stream_max_bytes = static_cast<std::size_t>(num("cap", 4096));
    c.min_manifest_ttl = std::chrono::seconds(num("min", 30));
    c.max_manifest_ttl = std::chrono::seconds(num("max", 21600));
    c.default_chunk_ttl = std::chrono::seconds(num("def", 21600));
    if (auto it = o.find("sdir"); it != o.end()) c.storage_directory = bytes_of_hex(it->second);
    if (auto it = o.find("advhost"); it != o.end()) c.advertise_control_host = bytes_of_hex(it->second);
    Config oc = c;
    oc.identity_seed = 9u;
    oc.control_token.reset();
    node = std::make_unique<Node>(pid(0xD1), c);
    other = std::make_unique<Node>(pid(0xD2), oc);
    // multi-line material is placed after construction: the constructor would try to reach bootstrap nodes
    if (auto it = o.find("warn"); it != o.end() && it->second != "-") {
        for (const auto& w : verif::split(it->second, ',')) node->config().auto_advertise_warnings.push_back(bytes_of_hex(w));
    }
    node->config().auto_advertise_conflict = num("conflict", 0) != 0;
    if (auto it = o.find("ep"); it != o.end() && it->second != "-") {
        for (const auto& e : verif::split(it->second, ',')) {
            const auto f = verif::split(e, '/');
            Config::AdvertisedEndpoint ep;
            ep.host = bytes_of_hex(f.at(0));
            ep.port = static_cast<std::uint16_t>(std::stoul(f.at(1)));
            ep.source = bytes_of_hex(f.at(2));
            node->config().advertised_endpoints.push_back(ep);
        }
    }
    if (auto it = o.find("boot"); it != o.end() && it->second != "-") {
        for (const auto& e : verif::split(it->second, ',')) {
            const auto f = verif::split(e, '/');
            Config::BootstrapNode b;
            b.id = verif::id32(f.at(0));
            b.host = bytes_of_hex(f.at(1));
            b.port = static_cast<std::uint16_t>(std::stoul(f.at(2)));
            if (f.at(3) != "-") b.public_identity = static_cast<std::uint32_t>(std::stoul(f.at(3)));
            node->config().bootstrap_nodes.push_back(b);
        }
    }
    server = std::make_unique<daemon::ControlServer>(*node, node_mutex, [] { stops.fetch_add(1); });
    server->start("127.0.0.1", 0);
    port = bound_port(server->impl_->listen_socket_);
    const auto& k = node->config();
    return "ok min=" + std::to_string(k.min_manifest_ttl.count()) + " max=" + std::to_string(k.max_manifest_ttl.count()) +
           " def=" + std::to_string(k.default_chunk_ttl.count()) + " pow=" + std::to_string(k.store_pow_difficulty) +
           " cap=" + std::to_string(daemon::max_control_stream_bytes());
}

void ensure_started() {
    if (!server) start({});
}

std::string short_digest(const std::uint8_t* p, std::size_t n) {
    const auto d = crypto::Sha256::digest(std::span<const std::uint8_t>(p, n));
    return std::to_string(n) + ":" + verif::to_hex(d.data(), 8);
}

std::string files_state() {
    std::vector<std::string> items;
    std::error_code ec;
    for (auto it = fs::recursive_directory_iterator(scratch, ec); !ec && it != fs::recursive_directory_iterator(); it.increment(ec)) {
        if (!it->is_regular_file(ec)) continue;
        std::ifstream in(it->path(), std::ios::binary);
        std::string data((std::istreambuf_iterator<char>(in)), std::istreambuf_iterator<char>());
        items.push_back(verif::to_hex(fs::relative(it->path(), scratch).string()) + ":" +
                        short_digest(reinterpret_cast<const std::uint8_t*>(data.data()), data.size()));
    }
    if (items.empty()) return "-";
    std::sort(items.begin(), items.end());
    std::string out;
    for (std::size_t i = 0; i < items.size(); ++i) { if (i) out += ","; out += items[i]; }
    return out;
}

std::string effects() {
    std::size_t st = 0, mf = 0;
    {
        std::scoped_lock lock(node_mutex);
        st = node->stored_chunks().size();
        if constexpr (requires { node->manifest_cache_.size(); }) mf = node->manifest_cache_.size();
    }
    bool ts = false;
    if constexpr (requires { server->impl_->transport_stopped_.load(); }) ts = server->impl_->transport_stopped_.load();
    return "st=" + std::to_string(st) + " mf=" + std::to_string(mf) + " files=" + files_state() + " stop=" +
           std::to_string(stops.load()) + " ts=" + (ts ? "1" : "0") + " run=" + (server->running() ? "1" : "0");
}

int connect_from(int addr_octet) {
    int fd = ::socket(AF_INET, SOCK_STREAM, 0);
    if (fd < 0) return -1;
    sockaddr_in src{};
    src.sin_family = AF_INET;
    src.sin_port = 0;
    src.sin_addr.s_addr = htonl(0x7F000000u | static_cast<std::uint32_t>(addr_octet & 0xFF));
    if (::bind(fd, reinterpret_cast<sockaddr*>(&src), sizeof(src)) != 0) { ::close(fd); return -1; }
    sockaddr_in dst{};
    dst.sin_family = AF_INET;
    dst.sin_port = htons(port);
    dst.sin_addr.s_addr = htonl(INADDR_LOOPBACK);
    if (::connect(fd, reinterpret_cast<sockaddr*>(&dst), sizeof(dst)) != 0) { ::close(fd); return -1; }
    return fd;
}

bool write_all(int fd, const std::string& s) {
    std::size_t off = 0;
    while (off < s.size()) {
        const auto n = ::send(fd, s.data() + off, s.size() - off, MSG_NOSIGNAL);
        if (n <= 0) return false;
        off += static_cast<std::size_t>(n);
    }
    return true;
}

std::string read_to_eof(int fd) {
    std::string out;
    char buf[65536];
    while (true) {
        const auto n = ::recv(fd, buf, sizeof(buf), 0);
        if (n <= 0) break;
        out.append(buf, static_cast<std::size_t>(n));
    }
    return out;
}

// the few single-line fields the request ops need, read from the raw bytes (independent of ControlClient)
struct RawResponse {
    std::string status{"closed"};
    std::map<std::string, std::string> first_line_of;  // KEY -> text up to the end of its line
    std::string payload;
    bool has_payload{false};
};

RawResponse parse_raw(const std::string& raw) {
    RawResponse r;
    if (raw.empty()) return r;
    std::size_t pos = 0;
    std::optional<std::size_t> plen;
    while (pos <= raw.size()) {
        const auto nl = raw.find('\n', pos);
        if (nl == std::string::npos) { pos = raw.size(); break; }
        const auto line = raw.substr(pos, nl - pos);
        pos = nl + 1;
        if (line.empty()) break;
        const auto c = line.find(':');
        if (c == std::string::npos || line[0] == '\t') continue;
        const auto key = line.substr(0, c);
        const auto val = line.substr(c + 1);
        if (key == "STATUS") r.status = val;
        else if (!r.first_line_of.count(key)) r.first_line_of[key] = val;
    }
    if (auto it = r.first_line_of.find("PAYLOAD-LENGTH"); it != r.first_line_of.end()) {
        r.has_payload = true;
        // the payload is the tail of the stream (multi-line values of the unrepaired framing may
        // contain blank lines, so the length is used from the end)
        const auto n = static_cast<std::size_t>(std::stoull(it->second));
        if (n <= raw.size()) r.payload = raw.substr(raw.size() - n);
    }
    return r;
}

std::string expand_head(const std::string& spec) {
    std::string out;
    for (const auto& seg : verif::split(spec, '+')) {
        if (seg.empty() || seg == "-") continue;
        if (seg[0] == '$') {
            auto it = manifests.find(seg.substr(1));
            out += it == manifests.end() ? std::string("eph://unknown") : it->second;
        } else {
            out += bytes_of_hex(seg);
        }
    }
    return out;
}

std::string do_req(int addr, const std::string& mode, const std::string& head_spec, const std::string& body_hex) {
    ensure_started();
    const auto head = expand_head(head_spec);
    const auto body = bytes_of_hex(body_hex);
    const int fd = connect_from(addr);
    if (fd < 0) return "connect-failed";
    std::string raw;
    write_all(fd, head);
    if (mode != "early") write_all(fd, body);   // early: the body is withheld altogether
    ::shutdown(fd, SHUT_WR);
    raw = read_to_eof(fd);
    ::close(fd);
    const auto r = parse_raw(raw);
    std::string code = "-";
    if (auto it = r.first_line_of.find("CODE"); it != r.first_line_of.end()) code = it->second;
    std::string out = r.status + " " + code;
    if (code == "OK_STORE") {
        ++accepted_stores;
        if (auto it = r.first_line_of.find("MANIFEST"); it != r.first_line_of.end()) {
            manifests["s" + std::to_string(accepted_stores)] = it->second;
        }
        out += " size=" + (r.first_line_of.count("SIZE") ? r.first_line_of.at("SIZE") : std::string("-"));
        out += " ttl=" + (r.first_line_of.count("TTL") ? r.first_line_of.at("TTL") : std::string("-"));
    }
    if (code == "OK_FETCH") {
        out += " size=" + (r.first_line_of.count("SIZE") ? r.first_line_of.at("SIZE") : std::string("-"));
        out += r.first_line_of.count("STREAM")
                   ? " payload=" + short_digest(reinterpret_cast<const std::uint8_t*>(r.payload.data()), r.payload.size())
                   : std::string(" payload=none");
    }
    return out + " | " + effects();
}

std::string fmt_response(const std::optional<daemon::ControlResponse>& resp, const std::string& sel, bool sort_entries) {
    if (!resp) return "no-response";
    std::set<std::string> wanted;
    if (sel != "*") for (const auto& k : verif::split(sel, ',')) wanted.insert(k);
    std::vector<std::string> items;
    for (const auto& [k, v] : resp->fields) {
        if (sel != "*" && !wanted.count(k)) continue;
        std::string value = v;
        if (sort_entries && k == "ENTRIES") {  // order of the chunk store's hash map: sort the lines
            std::vector<std::string> lines;
            bool trailing = !value.empty() && value.back() == '\n';
            for (const auto& l : verif::split(trailing ? value.substr(0, value.size() - 1) : value, '\n')) lines.push_back(l);
            std::sort(lines.begin(), lines.end());
            value.clear();
            for (std::size_t i = 0; i < lines.size(); ++i) { if (i) value += "\n"; value += lines[i]; }
            if (trailing) value += "\n";
        }
        items.push_back(hexs(k) + "=" + hexs(value));
    }
    std::sort(items.begin(), items.end());
    std::string f;
    for (std::size_t i = 0; i < items.size(); ++i) { if (i) f += ";"; f += items[i]; }
    if (f.empty()) f = "-";
    std::string p = "none";
    if (resp->has_payload) p = short_digest(resp->payload.data(), resp->payload.size());
    return std::string("ok=") + (resp->success ? "1" : "0") + " n=" + std::to_string(resp->fields.size()) + " F=" + f + " P=" + p;
}

std::optional<std::string> opt_token(const std::string& t) {
    if (t == "-") return std::nullopt;
    return bytes_of_hex(t);
}

std::string do_cli(const std::vector<std::string>& t) {
    ensure_started();
    daemon::ControlClient client("127.0.0.1", port, opt_token(t.at(1)));
    daemon::ControlFields fields;
    std::vector<std::uint8_t> payload;
    bool with_payload = false;
    for (std::size_t i = 4; i < t.size(); ++i) {
        const auto p = t[i].find('=');
        if (p == std::string::npos) continue;
        const auto k = t[i].substr(0, p);
        auto v = t[i].substr(p + 1);
        if (k == "payload") { payload = verif::from_hex(v); with_payload = true; continue; }
        fields[k] = v.size() && v[0] == '$' ? (manifests.count(v.substr(1)) ? manifests[v.substr(1)] : std::string("eph://unknown")) : bytes_of_hex(v);
    }
    std::optional<daemon::ControlResponse> resp;
    if (with_payload) {
        if (payload.empty()) payload.reserve(1);
        resp = client.send(t.at(2), fields, std::span<const std::uint8_t>(payload.data(), payload.size()));
    } else {
        resp = client.send(t.at(2), fields);
    }
    if (resp && resp->success && t.at(2) == "STORE" && resp->fields.count("MANIFEST")) {
        ++accepted_stores;
        manifests["s" + std::to_string(accepted_stores)] = resp->fields.at("MANIFEST");
    }
    return fmt_response(resp, t.at(3), true);
}

std::string do_list(const std::string& tok) {
    ensure_started();
    daemon::ControlClient client("127.0.0.1", port, opt_token(tok));
    const auto resp = client.send("LIST");
    std::size_t chunks = 0;
    {
        std::scoped_lock lock(node_mutex);
        chunks = node->stored_chunks().size();
    }
    if (!resp) return "no-response";
    const auto text = verif_cli_print_list(*resp);
    std::vector<std::string> lines;
    for (const auto& l : verif::split(text, '\n')) if (!l.empty()) lines.push_back(l);
    if (lines.size() > 1) std::sort(lines.begin() + 1, lines.end());
    std::string out;
    for (std::size_t i = 0; i < lines.size(); ++i) { if (i) out += "|"; out += lines[i]; }
    for (auto& c : out) if (c == ' ') c = '_';
    return "out=" + out + " chunks=" + std::to_string(chunks);
}

// one-shot listener answering the next connection with Impl::send_response(fields, success, payload)
std::string do_rt(bool success, const std::string& fields_spec, const std::string& payload_spec) {
    daemon::ControlFields fields;
    if (fields_spec != "-") {
        for (const auto& item : verif::split(fields_spec, ';')) {
            const auto p = item.find('=');
            if (p == std::string::npos) continue;
            fields[bytes_of_hex(item.substr(0, p))] = bytes_of_hex(item.substr(p + 1));
        }
    }
    std::vector<std::uint8_t> payload;
    const bool with_payload = payload_spec != "none";
    if (with_payload) payload = verif::from_hex(payload_spec);
    if (with_payload && payload.empty()) payload.reserve(1);  // non-null data(): "payload present, zero bytes"
    int ls = ::socket(AF_INET, SOCK_STREAM, 0);
    sockaddr_in a{};
    a.sin_family = AF_INET;
    a.sin_addr.s_addr = htonl(INADDR_LOOPBACK);
    a.sin_port = 0;
    if (ls < 0 || ::bind(ls, reinterpret_cast<sockaddr*>(&a), sizeof(a)) != 0 || ::listen(ls, 4) != 0) return "listen-failed";
    const auto lport = bound_port(ls);
    std::thread responder([&] {
        const int c = ::accept(ls, nullptr, nullptr);
        if (c < 0) return;
        std::string line;
        while (daemon::recv_line(c, line)) { if (line.empty()) break; }
        daemon::ControlServer::Impl::send_response(
            c, fields, success,
            with_payload ? std::span<const std::uint8_t>(payload.data(), payload.size()) : std::span<const std::uint8_t>{});
        ::shutdown(c, SHUT_WR);
        char sink[256];
        while (::recv(c, sink, sizeof(sink), 0) > 0) {}
        ::close(c);
    });
    daemon::ControlClient client("127.0.0.1", lport);
    const auto resp = client.send("PING");
    responder.join();
    ::close(ls);
    return fmt_response(resp, "*", false);
}

}  // namespace

int main(int argc, char** argv) {
    ::signal(SIGPIPE, SIG_IGN);
    daemon::StructuredLogger::instance().set_enabled(false);
    char tmpl[] = "ctl-XXXXXX";
    const char* made = ::mkdtemp(tmpl);
    if (!made) { std::perror("mkdtemp"); return 2; }
    scratch = fs::absolute(made);
    // ops file path is relative to the original cwd: resolve before chdir
    std::string ops = argc > 1 ? fs::absolute(argv[1]).string() : std::string();
    if (::chdir(scratch.c_str()) != 0) { std::perror("chdir"); return 2; }
    std::vector<char*> args{argv[0], ops.data()};

    verif::Handler h;
    h.reset = [] {
        stop_all();
        verif::vclock_set(verif::kVclockStart);
        wipe_scratch();
    };
    h.op = [](const std::vector<std::string>& t, const std::string&) -> std::string {
        if (t[0] == "cfg") return start(kv(t, 1));
        if (t[0] == "adv" && t.size() == 2) { verif::vclock_advance(std::stoll(t[1])); return "ok"; }
        if (t[0] == "mk" && t.size() == 4) {
            ensure_started();
            auto data = verif::from_hex(t[2]);
            const auto id = crypto::Sha256::digest(std::span<const std::uint8_t>(data));
            ChunkId cid{};
            std::copy(id.begin(), id.end(), cid.begin());
            const auto m = other->store_chunk(cid, data, std::chrono::seconds(std::stoll(t[3])));
            manifests[t[1]] = protocol::encode_manifest(m);
            return "ok";
        }
        if (t[0] == "put" && (t.size() == 4 || t.size() == 5)) {
            ensure_started();
            auto data = verif::from_hex(t[2]);
            const auto id = crypto::Sha256::digest(std::span<const std::uint8_t>(data));
            ChunkId cid{};
            std::copy(id.begin(), id.end(), cid.begin());
            std::optional<std::string> name;
            if (t.size() == 5 && t[4] != "-") name = bytes_of_hex(t[4]);
            protocol::Manifest m;
            {
                std::scoped_lock lock(node_mutex);
                m = node->store_chunk(cid, data, std::chrono::seconds(std::stoll(t[3])), name);
            }
            manifests[t[1]] = protocol::encode_manifest(m);
            std::size_t stored = 0;
            for (const auto& e : node->stored_chunks()) if (e.id == cid) stored = e.size;
            return "ok " + verif::to_hex(cid) + " " + std::to_string(stored);
        }
        if (t[0] == "req" && t.size() == 5) return do_req(std::stoi(t[1]), t[2], t[3], t[4]);
        if (t[0] == "cli" && t.size() >= 4) return do_cli(t);
        if (t[0] == "list" && t.size() == 2) return do_list(t[1]);
        if (t[0] == "rt" && t.size() == 4) return do_rt(t[1] == "1", t[2], t[3]);
        return "bad-op";
    };
    const int rc = verif::run_lines(2, args.data(), h);
    stop_all();
    std::error_code ec;
    ::chdir("/");
    fs::remove_all(scratch, ec);
    return rc;
}
