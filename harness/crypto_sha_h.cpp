// Harness for C08: the real Sha256 / HmacSha256 in-process.
// Ops (one output line each):
//   sha <msg> <splits>          digest of <msg> fed to one Sha256 object by update() calls cut at <splits>
//                               (`-`: a single update with the whole message, like Sha256::digest)
//   hmac <key> <data>           HmacSha256::compute
//   verify <key> <data> <tag>   HmacSha256::verify -> true | false
//   shagen <len> <seed> <chunk> digest of a generated <len>-byte message streamed in <chunk>-byte updates (see below)
// <msg>/<key>/<data>/<tag>: lowercase hex, `-` for empty, or `<len>:<seed>` (LCG pattern, same expansion
// as lean/Driver/C08.lean and props/C08.py); <splits>: `-` or ascending comma-separated offsets.
// Every buffer handed to the code under test is an exact-size heap allocation, so ASan sees any read
// past the end of a message, key or tag.
#include "common/lineproto.hpp"
#include "ephemeralnet/crypto/HmacSha256.hpp"
#include "ephemeralnet/crypto/Sha256.hpp"

#include <algorithm>
#include <cstring>
#include <memory>
#include <span>

using namespace ephemeralnet::crypto;

namespace {
struct Bytes {  // exact-size heap buffer (new[0] is a valid, zero-length, poisoned allocation)
    std::unique_ptr<std::uint8_t[]> p;
    std::size_t n{0};
    std::span<const std::uint8_t> span() const { return {p.get(), n}; }
    std::span<const std::uint8_t> sub(std::size_t a, std::size_t b) const { return {p.get() + a, b - a}; }
};

Bytes parse_bytes(const std::string& tok) {
    Bytes b;
    const auto colon = tok.find(':');
    if (colon != std::string::npos) {
        b.n = std::stoull(tok.substr(0, colon));
        std::uint32_t x = static_cast<std::uint32_t>(std::stoull(tok.substr(colon + 1)));
        b.p.reset(new std::uint8_t[b.n]);
        for (std::size_t i = 0; i < b.n; ++i) {
            x = x * 1664525u + 1013904223u;
            b.p[i] = static_cast<std::uint8_t>(x >> 24);
        }
        return b;
    }
    const auto v = verif::from_hex(tok);
    b.n = v.size();
    b.p.reset(new std::uint8_t[b.n]);
    if (b.n) std::memcpy(b.p.get(), v.data(), b.n);
    return b;
}
}  // namespace

int main(int argc, char** argv) {
    verif::Handler h;
    h.reset = [] {};
    h.op = [](const std::vector<std::string>& t, const std::string&) -> std::string {
        if (t[0] == "sha" && t.size() == 3) {
            const Bytes msg = parse_bytes(t[1]);
            Sha256 hasher;
            std::size_t pos = 0;
            if (t[2] != "-") {
                for (const auto& s : verif::split(t[2], ',')) {
                    std::size_t p = std::stoull(s);
                    p = std::min(std::max(p, pos), msg.n);
                    hasher.update(msg.sub(pos, p));
                    pos = p;
                }
            }
            hasher.update(msg.sub(pos, msg.n));
            const auto d = hasher.finalize();
            if (t[2] == "-") {  // the one-shot entry point must agree with update+finalize
                const auto d2 = Sha256::digest(msg.span());
                if (d2 != d) return "digest-differs:" + verif::to_hex(d2) + ":" + verif::to_hex(d);
            }
            return verif::to_hex(d);
        }
        if (t[0] == "hmac" && t.size() == 3) {
            const Bytes key = parse_bytes(t[1]);
            const Bytes data = parse_bytes(t[2]);
            return verif::to_hex(HmacSha256::compute(key.span(), data.span()));
        }
        if (t[0] == "verify" && t.size() == 4) {
            const Bytes key = parse_bytes(t[1]);
            const Bytes data = parse_bytes(t[2]);
            const Bytes tag = parse_bytes(t[3]);
            return HmacSha256::verify(key.span(), data.span(), tag.span()) ? "true" : "false";
        }
        if (t[0] == "shagen" && t.size() == 4) {
            // shagen <len> <seed> <chunk>: the message is the 1 MiB LCG block of <seed> repeated and cut to <len> bytes
            // (byte at offset o = block[o mod 2^20]); it is streamed into one Sha256 object in update() calls of <chunk>
            // bytes, so only min(chunk, len) bytes are ever allocated.  Used by the enlarged search of props/C08.py for
            // lengths (>= 2^29 bytes) that neither the Lean driver nor a hex op can carry; the reference there is hashlib.
            const std::size_t len = std::stoull(t[1]);
            const std::size_t chunk = std::max<std::size_t>(1, std::stoull(t[3]));
            const Bytes block = parse_bytes("1048576:" + t[2]);
            const std::size_t cap = std::min(chunk, len);
            std::unique_ptr<std::uint8_t[]> buf(new std::uint8_t[cap]);
            Sha256 hasher;
            std::size_t off = 0;
            while (off < len) {
                const std::size_t n = std::min(cap, len - off);
                std::size_t done = 0;
                while (done < n) {
                    const std::size_t phase = (off + done) % block.n;
                    const std::size_t m = std::min(n - done, block.n - phase);
                    std::memcpy(buf.get() + done, block.p.get() + phase, m);
                    done += m;
                }
                hasher.update(std::span<const std::uint8_t>(buf.get(), n));
                off += n;
            }
            return verif::to_hex(hasher.finalize());
        }
        return "bad-op";
    };
    return verif::run_lines(argc, argv, h);
}
