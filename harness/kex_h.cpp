// Harness for C12 (a mutual handshake yields one shared session key): the real KeyExchange,
// make_handshake_material, KeyManager::register_session_with_material and pairs of real Nodes
// running Node::perform_handshake with work produced by Node::generate_handshake_work.
//
// Ops (numbers decimal, ids as in lineproto `id32`, bytes hex):
//   modexp <base> <exp> <mod>        -> <result>                      (mod != 0)
//   pub <scalar>                     -> <public>
//   validate <c>                     -> 0 | 1
//   secret <scalar> <remote_pub>     -> <32-byte key hex>             (derive_shared_secret)
//   material <x> <y>                 -> ab=<8 bytes hex> ba=<8 bytes hex>   (make_handshake_material(x,y), (y,x))
//   dh <a> <b>                       -> pA=<pub a> pB=<pub b> sA=<secret a derives from pB> sB=<secret b derives from pA>
//   register <secret hex> <material hex> -> <32-byte key hex>         (KeyManager)
//   ident <seed>                     -> scalar=<s> pub=<p> again=<p'> cli=<p''|?>
//                                       (Node with identity_seed; a second node with the same seed; the CLI's
//                                        derive_public_identity_from_seed(seed), `?` without VERIF_INTERNALS)
//   hsk <sA> <idA> <bitsA> <sB> <idB> <bitsB>
//        two fresh nodes with the given private scalars; each solves work for the other with its own
//        configured difficulty and performs the handshake
//                                    -> pA=<p> pB=<p> nB=<n|none> nA=<n|none> okA=<b> okB=<b> kA=<hex|-> kB=<hex|->
//   -- histories (state kept until the next `case` line) --
//   node <name> <id> <scalar> <bits> <cooldown_s>   create (or replace: "the peer restarts with a new key pair") node <name>
//                                    -> pub=<p>
//   mutual <X> <Y>                   each solves work for the other, then X.perform_handshake(Y), Y.perform_handshake(X)
//                                    -> pX=<p> pY=<p> nY=<n|none> nX=<n|none> okX=<b> okY=<b> kX=<hex|-> kY=<hex|->
//   hs <X> <peer id> <pub> <nonce>   X.perform_handshake(peer, pub, nonce) -> ok=<b> k=<hex|->
//   key <X> <peer id>                -> k=<hex|->
//   hskpub <sA> <idA> <bitsA> <peer> <remote_pub> <nonce>
//        one fresh node receiving an arbitrary public value / nonce
//                                    -> ok=<b> k=<hex|->
//
// VERIF_INTERNALS (default 1): `material` calls the anonymous-namespace helper make_handshake_material of Node.cpp by
// name; with -DVERIF_INTERNALS=0 it answers `skip` and everything else runs on KeyExchange::*, KeyManager and Node members.
#ifndef VERIF_INTERNALS
#define VERIF_INTERNALS 1
#endif
#include "src/core/Node.cpp"

#include "common/lineproto.hpp"

#include <map>

#include "ephemeralnet/network/KeyExchange.hpp"
#include "ephemeralnet/network/KeyManager.hpp"

using namespace ephemeralnet;

#if VERIF_INTERNALS
namespace kexcli { std::uint32_t public_from_seed(std::uint32_t seed); }  // harness/kex_cli_h.cpp
#endif

namespace {

Config quiet_config(std::uint8_t bits) {
    Config c{};
    c.identity_seed = 11u;
    c.nat_stun_enabled = false;
    c.relay_enabled = false;
    c.advertise_auto_mode = Config::AdvertiseAutoMode::Off;
    c.handshake_pow_difficulty = bits;
    return c;
}

std::map<std::string, std::unique_ptr<Node>> nodes;

std::unique_ptr<Node> make_node(const std::string& id_tok, std::uint32_t scalar, std::uint8_t bits, long cooldown_s = 5) {
    Config cfg = quiet_config(bits);
    cfg.handshake_cooldown = std::chrono::seconds(cooldown_s);
    auto n = std::make_unique<Node>(verif::id32(id_tok), cfg);
    n->identity_scalar_ = scalar;
    n->identity_public_ = network::KeyExchange::compute_public(scalar);
    return n;
}

std::string key_hex(const std::optional<std::array<std::uint8_t, 32>>& k) { return k ? verif::to_hex(*k) : std::string("-"); }
std::string nonce_str(const std::optional<std::uint64_t>& n) { return n ? std::to_string(*n) : std::string("none"); }
std::uint32_t u32(const std::string& s) { return static_cast<std::uint32_t>(std::stoull(s)); }

}  // namespace

int main(int argc, char** argv) {
    verif::Handler h;
    h.reset = [] { nodes.clear(); };
    h.op = [](const std::vector<std::string>& t, const std::string&) -> std::string {
        const auto& op = t[0];
        if (op == "modexp" && t.size() == 4) {
            const auto m = u32(t[3]);
            if (m == 0) return "bad-op";
            return std::to_string(network::KeyExchange::modexp(std::stoull(t[1]), u32(t[2]), m));
        }
        if (op == "pub" && t.size() == 2) return std::to_string(network::KeyExchange::compute_public(u32(t[1])));
        if (op == "validate" && t.size() == 2) return network::KeyExchange::validate_public(u32(t[1])) ? "1" : "0";
        if (op == "secret" && t.size() == 3) {
            return verif::to_hex(network::KeyExchange::derive_shared_secret(u32(t[1]), u32(t[2])).bytes);
        }
        if (op == "material" && t.size() == 3) {
#if !VERIF_INTERNALS
            return "skip";
#else
            return "ab=" + verif::to_hex(make_handshake_material(u32(t[1]), u32(t[2]))) +
                   " ba=" + verif::to_hex(make_handshake_material(u32(t[2]), u32(t[1])));
#endif
        }
        if (op == "dh" && t.size() == 3) {
            const auto a = u32(t[1]);
            const auto b = u32(t[2]);
            const auto pa = network::KeyExchange::compute_public(a);
            const auto pb = network::KeyExchange::compute_public(b);
            return "pA=" + std::to_string(pa) + " pB=" + std::to_string(pb) +
                   " sA=" + verif::to_hex(network::KeyExchange::derive_shared_secret(a, pb).bytes) +
                   " sB=" + verif::to_hex(network::KeyExchange::derive_shared_secret(b, pa).bytes);
        }
        if (op == "register" && t.size() == 3) {
            const auto secret = verif::from_hex(t[1]);
            const auto material = verif::from_hex(t[2]);
            if (secret.size() != 32) return "bad-op";
            crypto::Key key{};
            std::copy(secret.begin(), secret.end(), key.bytes.begin());
            network::KeyManager km(std::chrono::seconds(300));
            const auto peer = verif::id32("p1");
            km.register_session_with_material(peer, key, material, std::chrono::steady_clock::now());
            return key_hex(km.current_key(peer));
        }
        if (op == "ident" && t.size() == 2) {
            Config c = quiet_config(0);
            c.identity_seed = u32(t[1]);
            Node n(verif::id32("n1"), c);
            Node again(verif::id32("n2"), c);
#if VERIF_INTERNALS
            const std::string cli = std::to_string(kexcli::public_from_seed(u32(t[1])));
#else
            const std::string cli = "?";
#endif
            return "scalar=" + std::to_string(n.identity_scalar_) + " pub=" + std::to_string(n.public_identity()) +
                   " again=" + std::to_string(again.public_identity()) + " cli=" + cli;
        }
        if (op == "hsk" && t.size() == 7) {
            auto a = make_node(t[2], u32(t[1]), static_cast<std::uint8_t>(std::stoul(t[3])));
            auto b = make_node(t[5], u32(t[4]), static_cast<std::uint8_t>(std::stoul(t[6])));
            const auto nB = b->generate_handshake_work(a->id());
            const auto nA = a->generate_handshake_work(b->id());
            const bool okA = nB && a->perform_handshake(b->id(), b->public_identity(), *nB);
            const bool okB = nA && b->perform_handshake(a->id(), a->public_identity(), *nA);
            return "pA=" + std::to_string(a->public_identity()) + " pB=" + std::to_string(b->public_identity()) +
                   " nB=" + nonce_str(nB) + " nA=" + nonce_str(nA) + " okA=" + (okA ? "1" : "0") + " okB=" + (okB ? "1" : "0") +
                   " kA=" + key_hex(a->session_key(b->id())) + " kB=" + key_hex(b->session_key(a->id()));
        }
        if (op == "node" && t.size() == 6) {
            nodes[t[1]] = make_node(t[2], u32(t[3]), static_cast<std::uint8_t>(std::stoul(t[4])), std::stol(t[5]));
            return "pub=" + std::to_string(nodes[t[1]]->public_identity());
        }
        if (op == "mutual" && t.size() == 3) {
            auto ix = nodes.find(t[1]);
            auto iy = nodes.find(t[2]);
            if (ix == nodes.end() || iy == nodes.end() || ix == iy) return "bad-op";
            Node& x = *ix->second;
            Node& y = *iy->second;
            const auto nY = y.generate_handshake_work(x.id());
            const auto nX = x.generate_handshake_work(y.id());
            const bool okX = nY && x.perform_handshake(y.id(), y.public_identity(), *nY);
            const bool okY = nX && y.perform_handshake(x.id(), x.public_identity(), *nX);
            return "pX=" + std::to_string(x.public_identity()) + " pY=" + std::to_string(y.public_identity()) +
                   " nY=" + nonce_str(nY) + " nX=" + nonce_str(nX) + " okX=" + (okX ? "1" : "0") + " okY=" + (okY ? "1" : "0") +
                   " kX=" + key_hex(x.session_key(y.id())) + " kY=" + key_hex(y.session_key(x.id()));
        }
        if (op == "hs" && t.size() == 5) {
            auto ix = nodes.find(t[1]);
            if (ix == nodes.end()) return "bad-op";
            const auto peer = verif::id32(t[2]);
            const bool ok = ix->second->perform_handshake(peer, u32(t[3]), std::stoull(t[4]));
            return std::string("ok=") + (ok ? "1" : "0") + " k=" + key_hex(ix->second->session_key(peer));
        }
        if (op == "key" && t.size() == 3) {
            auto ix = nodes.find(t[1]);
            if (ix == nodes.end()) return "bad-op";
            return "k=" + key_hex(ix->second->session_key(verif::id32(t[2])));
        }
        if (op == "hskpub" && t.size() == 7) {
            auto a = make_node(t[2], u32(t[1]), static_cast<std::uint8_t>(std::stoul(t[3])));
            const auto peer = verif::id32(t[4]);
            const bool ok = a->perform_handshake(peer, u32(t[5]), std::stoull(t[6]));
            return std::string("ok=") + (ok ? "1" : "0") + " k=" + key_hex(a->session_key(peer));
        }
        return "bad-op";
    };
    return verif::run_lines(argc, argv, h);
}
