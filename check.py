#!/usr/bin/env python3
"""Entry point:  ./check.py <Cxx> [--tier quick|thorough] [--replay <file>]
                 ./check.py --setup          build everything the registered checks need
Honours VERIF_SEED, VERIF_TIER, VERIF_REPO (default /repo)."""
import argparse
import importlib
import os
import sys
from pathlib import Path

HERE = Path(__file__).resolve().parent
sys.path.insert(0, str(HERE))
sys.path.insert(0, str(HERE / "tools"))


def main() -> int:
    ap = argparse.ArgumentParser()
    ap.add_argument("prop", nargs="?")
    ap.add_argument("--tier", default=os.environ.get("VERIF_TIER") or "quick", choices=["quick", "thorough"])
    ap.add_argument("--replay")
    ap.add_argument("--setup", action="store_true")
    ap.add_argument("--extract", action="store_true", help="only regenerate lean/EphVerif/Generated/<prop>.lean from the working tree")
    a = ap.parse_args()
    if a.setup:
        import setup_all
        return setup_all.main()
    if not a.prop:
        ap.error("property id required")
    mod = importlib.import_module(f"props.{a.prop}")
    if a.extract:
        if hasattr(mod, "spec") and mod.spec().extract:
            print(mod.spec().extract())
        elif hasattr(mod, "extract"):
            print(mod.extract())
        return 0
    seed = int(os.environ.get("VERIF_SEED") or "1")
    return mod.run(a.tier, seed, a.replay)


if __name__ == "__main__":
    sys.exit(main())
