"""C07 — routing table answers XOR-closest live peers and keeps bucket shape."""
import re

from tools.vlib import *

PID = "C07"
READY = True
MANIFEST = {
    "level_text": "Lean 4 theorems about a hand-written model of KademliaTable's routing half (bucket_index_for, upsert_bucket, "
                  "register_peer, add_contact's upsert, sweep_buckets, closest_peers), for every local id, every finite sequence of "
                  "registrations / provider additions / sweeps / queries / clock moves over arbitrary 32-byte ids, with no bound on "
                  "sizes or time: the byte-wise countl_zero loop returns exactly the highest bit in which two ids differ (and nothing "
                  "for the local id); after any history the local id is not held, no bucket exceeds 16, every contact sits in the "
                  "bucket of its highest differing bit, ids are unique over the whole table and every held contact carries the "
                  "address/expiry of the last registration of its id (exactly one entry right after a (re-)registration); a "
                  "registration costs no other unexpired contact its place except the front entry of a bucket already holding 16 "
                  "unexpired contacts when the id is new (a refresh evicts nobody); every "
                  "closest-peer query returns min(k,n) unexpired held contacts in strictly increasing 256-bit XOR distance with "
                  "everything left out strictly farther; that specification admits at most one answer, and any sorted permutation "
                  "of the candidates equals the model's (std::sort's instability cannot matter). The model is tied to the code by "
                  "regenerated constants (kBucketSize, kIdBits) and by a differential run of the real KademliaTable (private "
                  "buckets_ read, virtual clock) against the compiled Lean model, with the Lean specification (decide of the same "
                  "predicates the theorems state) judging every bucket dump and query answer the implementation produces.",
    "level_note": "Trusted: Lean kernel; the hand transcription of the C++ into Model/Routing.lean (checked only by the differential "
                  "run, deque order and result order compared verbatim); std::deque / std::sort / std::find_if / std::remove_if "
                  "semantics (std::sort modelled as List.mergeSort); the harness and vlib. Modelled, not verified: time_point "
                  "arithmetic as unbounded Int (no int64 overflow for the generated TTLs), ids as lists of byte-valued Nat with the "
                  "32-byte length as a theorem hypothesis, the provider-directory half of add_contact (property C06). 'Prune expired "
                  "before LRU eviction' and 'a sweep drops expired entries' are model behaviour checked by correspondence only: the "
                  "property text does not fix them, so a change there is reported as a broken correspondence, not as a failing input.",
    "technique": "Lean 4 invariant proof by induction over histories + bit-level lemma (Nat.log2/testBit) for the bucket index + "
                 "uniqueness of the sorted answer; model/implementation differential correspondence with Lean monitor",
}
SECOND = 1_000_000_000
VSTART = 1_000_000_000_000      # verif::kVclockStart


def harness():
    return build_harness("routing_h", "harness/routing_h.cpp", ["src/dht/KademliaTable.cpp", "src/core/Types.cpp"],
                         includes_repo_cpp=False, vclock=True)


def extract():
    vals, gaps = extract_consts([
        Const("kBucketSize", "include/ephemeralnet/dht/KademliaTable.hpp", r"kBucketSize\s*=\s*([^;]+);", default=16),
        Const("peerIdBytes", "include/ephemeralnet/Types.hpp", r"using\s+PeerId\s*=\s*std::array<\s*std::uint8_t\s*,\s*([^>]+)>", default=32),
    ])
    # kIdBits = PeerId{}.size() * 8 : transcribe the multiplier too
    bits_per = 8
    try:
        txt = (REPO / "include/ephemeralnet/dht/KademliaTable.hpp").read_text(errors="replace")
        m = re.search(r"kIdBits\s*=\s*PeerId\{\}\.size\(\)\s*\*\s*([0-9]+)\s*;", txt)
        if m:
            bits_per = int(m.group(1))
        else:
            m2 = re.search(r"kIdBits\s*=\s*([^;]+);", txt)
            try:
                vals["kIdBits"] = eval_cxx_int(m2.group(1))
            except Exception:
                gaps.append("kIdBits (include/ephemeralnet/dht/KademliaTable.hpp): expression not recognised")
    except Exception as ex:
        gaps.append(f"kIdBits: {ex}")
    out = {"kBucketSize": vals["kBucketSize"], "kIdBits": vals.get("kIdBits", vals["peerIdBytes"] * bits_per)}
    write_generated(PID, lean_consts(out))
    return gaps


# ----------------------------------------------------------------------------------------------
# generator
# ----------------------------------------------------------------------------------------------

def hexid(n: int) -> str:
    return f"{n:064x}"


def name_id(tok: str) -> int:
    """verif::id32 for short names"""
    b = bytearray(32)
    b[0] = ord(tok[0])
    n = int(tok[1:]) if len(tok) > 1 else 0
    b[28:32] = n.to_bytes(4, "big")
    return int.from_bytes(b, "big")


def tok_id(tok: str) -> int:
    return int(tok, 16) if len(tok) == 64 else name_id(tok)


class Hist:
    """Builds one history while tracking virtual time, the deadlines handed out and a rough
    picture of who was registered (only to aim later ops; correctness is judged by the monitor)."""

    def __init__(self, rng, self_tok: str):
        self.rng = rng
        self.ops = [f"init {self_tok}"]
        self.self_tok = self_tok
        self.self_id = tok_id(self_tok)
        self.now = VSTART
        self.deadlines: list[int] = []
        self.known: list[str] = []      # id tokens registered so far
        self.naddr = 0

    def addr(self) -> str:
        self.naddr += 1
        return f"h{self.naddr}.{self.rng.randint(1, 9)}"

    def in_bucket(self, idx: int, low_random: bool = True) -> str:
        """a token for an id whose highest bit differing from self is `idx`"""
        low = self.rng.getrandbits(idx) if (idx > 0 and low_random) else 0
        if idx > 0 and not low_random:
            low = self.rng.randint(0, min((1 << idx) - 1, 40))
        v = self.self_id ^ (1 << idx) ^ low
        return self.as_tok(v)

    def as_tok(self, v: int) -> str:
        # use the short name when the id has the shape of one (keeps lines small)
        b = v.to_bytes(32, "big")
        if all(x == 0 for x in b[1:28]) and 97 <= b[0] <= 122:
            return f"{chr(b[0])}{int.from_bytes(b[28:], 'big')}"
        return hexid(v)

    def reg(self, tok: str, ttl=None, addr=None):
        rng = self.rng
        if ttl is None:
            ttl = rng.choice([5 * SECOND, 10 * SECOND, 10 * SECOND, 30 * SECOND, 60 * SECOND, 3600 * SECOND, 1, 2, SECOND + 1,
                              0, -1, -SECOND, "epoch"] if rng.random() < 0.35 else [10 * SECOND, 20 * SECOND, 30 * SECOND, 60 * SECOND])
        self.ops.append(f"reg {tok} {addr or self.addr()} {ttl}")
        if ttl != "epoch":
            self.deadlines.append(self.now + ttl)
        if tok not in self.known:
            self.known.append(tok)

    def add(self, tok: str, secs=None):
        rng = self.rng
        if secs is None:
            secs = rng.choice([1, 2, 5, 10, 30, 60, 0, -1, 3600])
        self.ops.append(f"add c{rng.randint(1, 3)} {tok} {self.addr()} {secs}")
        self.deadlines.append(self.now + secs * SECOND)
        if tok not in self.known:
            self.known.append(tok)

    def upsert(self, tok: str, long: bool = False):
        if self.rng.random() < 0.25:
            self.add(tok, self.rng.choice([10, 30, 60]) if long else None)
        else:
            self.reg(tok, self.rng.choice([10 * SECOND, 30 * SECOND, 60 * SECOND]) if long else None)

    def adv(self, d: int):
        self.ops.append(f"adv {d}")
        self.now += d

    def adv_to_deadline(self):
        fut = sorted({d for d in self.deadlines if d >= self.now})
        if fut and self.rng.random() < 0.85:
            target = self.rng.choice(fut[:5]) + self.rng.choice([-1, 0, 0, 1])
            self.adv(max(0, target - self.now))
        else:
            self.adv(self.rng.choice([0, 1, SECOND // 2, SECOND, 7 * SECOND]))

    def target(self) -> str:
        rng = self.rng
        r = rng.random()
        if r < 0.15:
            return self.self_tok
        if r < 0.45 and self.known:
            return rng.choice(self.known)
        if r < 0.75 and self.known:
            # shares a long prefix with a held id: flip a low bit
            v = tok_id(rng.choice(self.known)) ^ (1 << rng.choice([0, 1, 2, 3, 7, 8, 15, 31, 32]))
            return self.as_tok(v)
        return hexid(rng.getrandbits(256))

    def closest(self, limit=None):
        if limit is None:
            limit = self.rng.choice([0, 1, 2, 2, 3, 5, 16, 17, 1000])
        self.ops.append(f"closest {self.target()} {limit}")

    def finish(self):
        self.ops.append("buckets")
        self.closest(1000)
        self.closest(self.rng.choice([1, 2, 3]))


def pick_self(rng) -> str:
    r = rng.random()
    if r < 0.45:
        return f"s{rng.randint(0, 50)}"            # short-name shaped: ids `sN` land in buckets 0..31
    if r < 0.55:
        return hexid(0)
    if r < 0.65:
        return hexid((1 << 256) - 1)
    return hexid(rng.getrandbits(256))


INTERESTING_BUCKETS = [0, 1, 2, 6, 7, 8, 9, 15, 16, 31, 32, 127, 128, 247, 248, 254, 255]


def shape_prefix(h: Hist, big: bool):
    """one contact in each of many buckets, including both ends"""
    rng = h.rng
    idxs = list(INTERESTING_BUCKETS) + [rng.randrange(256) for _ in range(rng.randint(2, 10 if not big else 60))]
    if rng.random() < 0.2 and big:
        idxs = list(range(256))
    rng.shuffle(idxs)
    for i in idxs:
        h.upsert(h.in_bucket(i, low_random=rng.random() < 0.7), long=rng.random() < 0.7)
        if rng.random() < 0.1:
            h.adv_to_deadline()
        if rng.random() < 0.1:
            h.closest()
    h.ops.append("buckets")
    for _ in range(rng.randint(2, 6)):
        h.closest()
    h.reg(h.self_tok)           # the local id itself
    h.closest(rng.choice([1, 1000]))


def shape_overflow(h: Hist, big: bool):
    """15/16/17/20/33 ids in one bucket, refresh of the oldest just before overflow"""
    rng = h.rng
    idx = rng.choice([5, 6, 7, 8, 12, 20, 31, 100, 200, 254, 255])
    n = min(rng.choice([15, 16, 17, 17, 20, 33]), 1 << idx)      # bucket idx has only 2^idx ids
    toks = []
    while len(toks) < n:
        t = h.in_bucket(idx, low_random=rng.random() < 0.5)
        if t not in toks:
            toks.append(t)
    for k, t in enumerate(toks):
        h.upsert(t, long=True)
        if k in (14, 15) and rng.random() < 0.5:
            h.reg(toks[0], rng.choice([30 * SECOND, 60 * SECOND]))    # refresh the oldest entry: moves to the back
        if rng.random() < 0.08:
            h.adv(rng.choice([1, SECOND]))
        if rng.random() < 0.08:
            h.closest()
    h.ops.append("buckets")
    h.closest(rng.choice([16, 17, 1000]))
    h.closest(rng.choice([1, 2, 15]))
    if rng.random() < 0.5:
        # a few in another bucket so that queries cross buckets
        for _ in range(rng.randint(1, 4)):
            h.upsert(h.in_bucket(rng.choice([0, 1, 3, idx ^ 1 if idx ^ 1 < 256 else 2])), long=True)
        h.closest(1000)


def shape_refresh(h: Hist, big: bool):
    """re-registration of held ids with new address/TTL (longer, shorter, non-positive, epoch)"""
    rng = h.rng
    idxs = [rng.choice(INTERESTING_BUCKETS) for _ in range(rng.randint(1, 3))]
    toks = []
    for _ in range(rng.randint(3, 9)):
        t = h.in_bucket(rng.choice(idxs), low_random=rng.random() < 0.5)
        toks.append(t)
        h.upsert(t, long=True)
    for _ in range(rng.randint(3, 12 if not big else 40)):
        r = rng.random()
        t = rng.choice(toks)
        if r < 0.5:
            h.reg(t, rng.choice([5 * SECOND, 90 * SECOND, 1, 0, -1, "epoch", 30 * SECOND]))
        elif r < 0.65:
            h.add(t)
        elif r < 0.8:
            h.adv_to_deadline()
        elif r < 0.9:
            h.closest()
        else:
            h.ops.append(rng.choice(["sweep", "buckets"]))


def shape_expiry(h: Hist, big: bool):
    """a full bucket whose entries expire, then new registrations (prune before evict), sweeps"""
    rng = h.rng
    idx = rng.choice([5, 6, 9, 30, 128, 255])
    toks = []
    while len(toks) < 16:
        t = h.in_bucket(idx, low_random=rng.random() < 0.5)
        if t not in toks:
            toks.append(t)
    short = rng.sample(range(16), rng.randint(1, 15))
    for k, t in enumerate(toks):
        h.reg(t, (5 * SECOND if k in short else 60 * SECOND) + rng.choice([0, 0, 1]))
    h.closest(1000)
    h.adv(5 * SECOND + rng.choice([-1, 0, 1]))
    h.closest(rng.choice([16, 1000]))
    for _ in range(rng.randint(1, 6)):
        h.upsert(h.in_bucket(idx), long=True)
        if rng.random() < 0.3:
            h.closest()
    h.ops.append(rng.choice(["sweep", "buckets"]))
    h.closest(1000)
    if rng.random() < 0.5:
        h.adv(60 * SECOND)
        h.closest(3)
        h.ops.append("sweep")


def shape_mixed(h: Hist, big: bool):
    rng = h.rng
    idxs = [rng.choice(INTERESTING_BUCKETS + [rng.randrange(256)]) for _ in range(rng.randint(1, 5))]
    n = rng.randint(8, 40) if not big else rng.randint(40, 160)
    for _ in range(n):
        r = rng.random()
        if r < 0.40:
            if h.known and rng.random() < 0.25:
                h.upsert(rng.choice(h.known))
            else:
                h.upsert(h.in_bucket(rng.choice(idxs), low_random=rng.random() < 0.5))
        elif r < 0.44:
            h.reg(h.self_tok)
        elif r < 0.47:
            h.reg(hexid(rng.getrandbits(256)))
        elif r < 0.62:
            h.adv_to_deadline()
        elif r < 0.85:
            h.closest()
        elif r < 0.93:
            h.ops.append("sweep")
        else:
            h.ops.append("buckets")


def shape_fullrefresh(h: Hist, big: bool):
    """exactly full bucket (16), then re-register member i for every position i (a refresh must evict
    nobody), interleaved with new ids (the only legal eviction: front of the full bucket), expiries, sweeps"""
    rng = h.rng
    idx = rng.choice([4, 5, 6, 7, 8, 12, 20, 31, 100, 200, 254, 255])
    toks = []
    while len(toks) < 16:
        t = h.in_bucket(idx, low_random=rng.random() < 0.5)
        if t not in toks:
            toks.append(t)
    short = set(rng.sample(range(16), rng.choice([0, 0, 1, 3])))
    for k, t in enumerate(toks):
        h.reg(t, (8 * SECOND if k in short else rng.choice([60 * SECOND, 120 * SECOND, 3600 * SECOND])))
    h.ops.append("buckets")
    order = list(range(16))
    if rng.random() < 0.5:
        rng.shuffle(order)
    for n, i in enumerate(order):
        if rng.random() < 0.3:
            h.add(toks[i], rng.choice([30, 60, 120]))
        else:
            h.reg(toks[i], rng.choice([60 * SECOND, 90 * SECOND, 3600 * SECOND]))
        r = rng.random()
        if r < 0.12 and (1 << idx) > 40:
            t = h.in_bucket(idx)                      # a new id: the front entry may go, nobody else
            if t not in toks:
                h.reg(t, 60 * SECOND)
        elif r < 0.22:
            h.closest(rng.choice([16, 17, 1000]))
        elif r < 0.28:
            h.adv_to_deadline()
        elif r < 0.33:
            h.ops.append(rng.choice(["sweep", "buckets"]))
    h.ops.append("buckets")
    h.closest(1000)


SHAPES = [("prefix", shape_prefix, 2), ("overflow", shape_overflow, 3), ("refresh", shape_refresh, 2),
          ("expiry", shape_expiry, 2), ("mixed", shape_mixed, 4),
          ("fullrefresh", shape_fullrefresh, 2)]


def gen_case(rng, big: bool) -> Case:
    name, fn, _ = rng.choices(SHAPES, weights=[w for _, _, w in SHAPES])[0]
    h = Hist(rng, pick_self(rng))
    fn(h, big)
    h.finish()
    return Case(ops=h.ops, tag=name)


def gen_malformed(rng) -> Case:
    """separate stream: degenerate inputs (no contacts at all, only the local id, zero limits, huge limits,
    negative advances are not generated: steady_clock never goes backwards)"""
    h = Hist(rng, pick_self(rng))
    for _ in range(rng.randint(1, 8)):
        r = rng.random()
        if r < 0.3:
            h.reg(h.self_tok, rng.choice([SECOND, 0, "epoch"]))
        elif r < 0.5:
            h.closest(rng.choice([0, 1, 18446744073709551615]))
        elif r < 0.6:
            h.ops.append("sweep")
        elif r < 0.8:
            h.reg(h.in_bucket(rng.choice([0, 255])), rng.choice([0, -1, -VSTART, "epoch", 1]))
        else:
            h.adv(rng.choice([0, 1]))
    h.finish()
    return Case(ops=h.ops, tag="degenerate")


def generate(ctx, budget):
    out = []
    for i in range(budget):
        if i % 12 == 11:
            out.append(gen_malformed(ctx.rng))
        else:
            out.append(gen_case(ctx.rng, ctx.tier == "thorough" and i % 5 == 0))
    return out


def _entries(line: str) -> list[str]:
    if line in ("-", "") or line.startswith("crash") or line.startswith("throw"):
        return []
    return line.split(",")


def nontrivial(r: CaseResult) -> bool:
    """some closest query returned >= 2 contacts, and (a bucket reached 16, or a held contact was expired
    at a query, or a limit truncated the answer)"""
    now = VSTART
    two = full = expired_seen = trunc = False
    held_exp: dict[str, int] = {}
    for op, o in zip(r.case.ops, r.impl):
        t = op.split(" ")
        if t[0] == "adv":
            now += int(t[1])
        elif t[0] in ("reg", "add", "sweep", "buckets"):
            if t[0] in ("sweep", "buckets"):
                held_exp = {}
            for part in ([] if o == "-" else o.split("|")):
                m = re.match(r"(\d+)=\[(.*)\]$", part)
                if not m:
                    continue
                es = _entries(m.group(2))
                if len(es) >= 16:
                    full = True
                for e in es:
                    f = e.split(":")
                    if len(f) == 3 and re.fullmatch(r"-?\d+", f[2]):
                        held_exp[f[0]] = int(f[2])
        elif t[0] == "closest":
            es = _entries(o)
            if len(es) >= 2:
                two = True
            live = sum(1 for e in held_exp.values() if now < e)
            if live < len(held_exp):
                expired_seen = True
            if t[2].isdigit() and 0 < int(t[2]) < live:
                trunc = True
    return two and (full or expired_seen or trunc)


def spec() -> Spec:
    return Spec(
        pid=PID,
        proof_modules=["EphVerif.Proofs.C07"],
        driver="drv_c07",
        harness=harness,
        generate=generate,
        extract=extract,
        nontrivial=nontrivial,
        budget={"quick": 2000, "thorough": 20000},
        rule="random histories of init/reg/add/adv/sweep/buckets/closest against the real KademliaTable under the virtual clock: "
             "random, all-zero and all-one local ids; contacts aimed at chosen bucket indices (0,1,7,8,...,254,255 and random: ids "
             "sharing 0..255-bit prefixes with the local id); 15/16/17/20/33 ids in one bucket; refreshes with new address/TTL "
             "(incl. of the oldest entry just before overflow); the local id itself; epoch-sentinel and non-positive TTLs; advances "
             "aimed at deadlines (-1 ns, 0, +1 ns); expiry inside full buckets followed by registrations; sweeps; queries with "
             "limit in {0,1,2,3,5,16,17,1000,2^64-1} and targets = self / held id / near a held id / random. distinct = sha256 of the "
             "op list; non-trivial = some query returned >= 2 contacts and (a bucket reached 16 or a held contact was expired at a "
             "query or the limit truncated the answer)",
        trusted_base=["std::sort / std::deque behaviour (std::sort modelled as List.mergeSort; C07.sort_unique: any sorted permutation is the same list)",
                      "virtual clock by link-time interposition of steady_clock::now",
                      "private member buckets_ read with -fno-access-control"],
        assumptions=["expiry arithmetic does not overflow int64 nanoseconds (|ttl| <= 3600 s in generated cases)",
                     "ids are 32 bytes (PeerId = std::array<uint8_t, 32>)"],
    )


def run(tier, seed, replay=None):
    return standard_check(spec(), tier, seed, replay)
