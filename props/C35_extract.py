"""C35 (T) extractor: exception-flow call tree of the remote-input surfaces, from the clang AST.

For every translation unit in `TUS` the namespace `ephemeralnet` is dumped with
`clang++-14 -Xclang -ast-dump=json -Xclang -ast-dump-filter=ephemeralnet` and reduced to a
*summary*: per function (qualified name; lambdas become pseudo-functions `<fn>::lambda#k`)
the list of steps in source order

    throw  <exception class>                      explicit `throw T(...)`
    ext    <callee> <exception classes>           call of a known throwing library function
    call   <qualified repo function>              call of a function defined in the repository
    ind    <variable>                             call through a std::function object
    thread <target>                               construction of a std::thread

each with the stack of enclosing `try` blocks of *that function* (innermost first; a block is the
list of its handler types; a handler containing a bare `throw;` is dropped).  Summaries are cached
under .build/c35ast keyed by the content of the TU, of every header of the repository and of this
file, so an unchanged tree costs nothing.

`build_tree()` links the summaries: leaf callees (`LEAVES`: codec / crypto entry points) are
summarised to the set of exception classes that can leave them and appear as primitives at their
call sites; every other repository function reachable from a boundary root that can reach a
primitive becomes a node of the tree.  The result is written to lean/EphVerif/Generated/C35.lean.

Gaps (stated, never alarms): allocation failure (`std::bad_alloc`, `std::length_error` from
container growth) is not enumerated; `std::function` emptiness (`bad_function_call`) is not a
primitive (both call sites test the object first); mutex / condition-variable `system_error`,
`std::random_device` failure and iostream failures (no `exceptions()` mask is set anywhere) are
environment faults, not remote input; virtual dispatch does not occur on these paths; overloads
are merged by qualified name; a lambda passed as an argument is taken to run where it is written;
`std::string::substr` is not a primitive: all 14 uses in the analysed files are `substr(0, n)` or
`substr(p)` with `p` at most the size (after a successful find / prefix test / loop bound), read by hand.
"""
from __future__ import annotations

import gzip
import hashlib
import json
import os
import re
import subprocess
from pathlib import Path

VERSION = "12"

TUS = [
    "src/core/Node.cpp", "src/network/SessionManager.cpp", "src/daemon/ControlServer.cpp",
    "src/crypto/Shamir.cpp", "src/protocol/Manifest.cpp", "src/protocol/Message.cpp",
    "src/core/ChunkStore.cpp", "src/dht/KademliaTable.cpp", "src/network/KeyManager.cpp",
    "src/network/KeyExchange.cpp", "src/network/ReputationManager.cpp", "src/crypto/CryptoManager.cpp",
    "src/crypto/ChaCha20.cpp", "src/crypto/Sha256.cpp", "src/crypto/HmacSha256.cpp",
    "src/core/SwarmCoordinator.cpp", "src/security/StoreProof.cpp", "src/core/Types.cpp",
    "src/daemon/StructuredLogger.cpp", "src/network/RelayClient.cpp", "src/bootstrap/TokenChallenge.cpp",
]

# thread boundaries (and the daemon's main loop): an exception leaving one of these ends the process
ROOTS = [
    ("reader-thread", "ephemeralnet::network::SessionManager::receive_loop"),
    ("transport-accept-thread", "ephemeralnet::network::SessionManager::accept_loop"),
    ("control-accept-thread", "ephemeralnet::daemon::ControlServer::Impl::accept_loop"),
    ("relay-worker-thread", "ephemeralnet::network::RelayClient::registration_loop"),
    ("main-loop-tick", "ephemeralnet::Node::tick"),
]

# calls through std::function objects: (enclosing function suffix, variable) -> target function(s)
BINDINGS = {
    ("SessionManager::receive_loop", "handler_copy"): ["ephemeralnet::Node::initialize_transport_handler::lambda#0"],
    ("SessionManager::handle_pending_handshake", "handler_copy"): ["ephemeralnet::Node::initialize_transport_handler::lambda#1"],
    ("RelayClient::build_handshake", "handshake_builder_"): ["ephemeralnet::Node::Node::lambda#0"],
}
# known to be inert in the daemon: unset application hook, test hooks, the CLI's shutdown flag setter
OPAQUE_OK = {"external_handler_", "drop_receive", "stop_callback_", "connect_override", "before_connect", "before_send",
             "stun_override", "request_override"}

# leaf callees: summarised to their exception classes and used as primitives at their call sites
LEAVES = [
    "ephemeralnet::protocol::decode_manifest", "ephemeralnet::protocol::encode_manifest",
    "ephemeralnet::protocol::decode", "ephemeralnet::protocol::decode_signed",
    "ephemeralnet::protocol::encode", "ephemeralnet::protocol::encode_signed",
    "ephemeralnet::crypto::Shamir::combine", "ephemeralnet::crypto::Shamir::split",
    "ephemeralnet::daemon::(anonymous namespace)::write_file_bytes",
]

STO = {"stoul", "stoull", "stoi", "stol", "stoll", "stof", "stod", "stold"}
FS_FREE = {"absolute", "canonical", "weakly_canonical", "copy", "copy_file", "create_directories", "create_directory",
           "current_path", "exists", "file_size", "is_directory", "is_regular_file", "last_write_time", "permissions",
           "read_symlink", "remove", "remove_all", "rename", "resize_file", "space", "status", "temp_directory_path",
           "relative", "proximate", "equivalent", "hard_link_count", "is_empty", "symlink_status", "is_symlink",
           "create_symlink", "create_hard_link", "create_directory_symlink"}
EXC_CLASSES = ["invalid_argument", "out_of_range", "length_error", "runtime_error", "filesystem_error", "system_error",
               "bad_optional_access", "bad_variant_access", "other"]


def _norm_exc(t: str) -> str:
    t = re.sub(r"\b(const|volatile|struct|class)\b", "", t).replace("&", "").strip()
    t = t.split("::")[-1].strip()
    return t if t in EXC_CLASSES else "other"


def _norm_handler(t: str | None) -> str:
    if t is None:
        return "all"
    t = re.sub(r"\b(const|volatile)\b", "", t).replace("&", "").strip()
    base = t.split("::")[-1].strip()
    if base == "exception":
        return "std_exception"
    if base in ("logic_error",):
        return "logic_error"
    if base in ("runtime_error",):
        return "runtime_error_h"
    if base in EXC_CLASSES:
        return "exact_" + base
    return "unrelated"   # a user type: catches none of the classes above


def _dump(repo: Path, tu: str, raw_cache: Path | None = None) -> list:
    cmd = ["clang++-14", "-std=c++20", f"-I{repo}/include", f"-I{repo}/src", f"-I{repo}", "-Xclang", "-ast-dump=json",
           "-Xclang", "-ast-dump-filter=ephemeralnet", "-fsyntax-only", "-w", str(repo / tu)]
    txt = None
    if raw_cache is not None and raw_cache.exists():
        try:
            txt = gzip.decompress(raw_cache.read_bytes()).decode()
        except Exception:
            txt = None
    if txt is None:
        r = subprocess.run(cmd, capture_output=True, text=True)
        txt = r.stdout
        if not txt.strip():
            raise RuntimeError(f"clang produced no AST for {tu}: {r.stderr[-400:]}")
        if raw_cache is not None:
            tmp = raw_cache.with_suffix(f".{os.getpid()}.tmp")
            tmp.write_bytes(gzip.compress(txt.encode(), 3))
            os.replace(tmp, raw_cache)
    dec = json.JSONDecoder()
    i, objs = 0, []
    n = len(txt)
    while i < n:
        while i < n and txt[i] in " \n\r\t":
            i += 1
        if i >= n:
            break
        o, i = dec.raw_decode(txt, i)
        objs.append(o)
    _fill_lines(objs)
    return objs


def _fill_lines(objs: list) -> None:
    """clang prints `line`/`file` of a location only when it differs from the previously printed
    one; replay the document order and store the absolute begin line / file as `_l` / `_f`."""
    state = {"line": 0, "file": ""}

    def loc(d):
        if not isinstance(d, dict):
            return
        if "spellingLoc" in d or "expansionLoc" in d:
            for k, v in d.items():
                if k in ("spellingLoc", "expansionLoc"):
                    loc(v)
            return
        if "file" in d:
            state["file"] = d["file"]
        if "line" in d:
            state["line"] = d["line"]

    stack = [objs]
    def walk(o):
        if isinstance(o, list):
            for c in o:
                walk(c)
            return
        if not isinstance(o, dict):
            return
        for k, v in list(o.items()):
            if k == "loc":
                loc(v)
            elif k == "range":
                loc(v.get("begin"))
                o["_l"] = state["line"]
                o["_f"] = state["file"]
                loc(v.get("end"))
            elif k == "inner":
                walk(v)
    import sys
    sys.setrecursionlimit(max(sys.getrecursionlimit(), 20000))
    walk(objs)


FUNC_KINDS = {"FunctionDecl", "CXXMethodDecl", "CXXConstructorDecl", "CXXDestructorDecl", "CXXConversionDecl"}
SCOPE_KINDS = {"NamespaceDecl", "CXXRecordDecl", "ClassTemplateDecl", "ClassTemplateSpecializationDecl"}
WRAPPERS = {"ExprWithCleanups", "ImplicitCastExpr", "MaterializeTemporaryExpr", "CXXBindTemporaryExpr", "CXXConstructExpr",
            "CXXFunctionalCastExpr", "ParenExpr", "ConstantExpr"}


class TU:
    def __init__(self, objs: list, main_file: str):
        self.objs = objs
        self.names: dict[str, str] = {}      # decl id -> qualified name
        self.kinds: dict[str, str] = {}
        self.fns: dict[str, dict] = {}
        self.main_file = main_file
        self.lambda_ops: dict[str, str] = {}  # closure operator() id -> pseudo function name
        for o in objs:
            self._index(o, [])
        for o in objs:
            self._collect(o, [])

    # -- pass 1: qualified names of all declarations with an id --------------------------------
    def _scope_name(self, o) -> str:
        n = o.get("name")
        if o.get("kind") == "NamespaceDecl" and not n:
            return "(anonymous namespace)"
        return n or "(anonymous)"

    def _index(self, o, ctx):
        if not isinstance(o, dict):
            return
        k = o.get("kind")
        if k in SCOPE_KINDS:
            q = ctx + [self._scope_name(o)]
            pid = o.get("parentDeclContextId")
            if pid and self.names.get(pid):
                q = [self.names[pid], self._scope_name(o)]
            o["_q"] = q
            if "id" in o:
                self.names[o["id"]] = "::".join(q)
                self.kinds[o["id"]] = k
            for c in o.get("inner", []):
                self._index(c, q)
            return
        if k in FUNC_KINDS or k == "FunctionTemplateDecl":
            if "id" in o and o.get("name"):
                self.names.setdefault(o["id"], None)
                self.kinds[o["id"]] = k
                o["_ctx"] = list(ctx)
            for c in o.get("inner", []):
                if isinstance(c, dict) and c.get("kind") in FUNC_KINDS:
                    self._index(c, ctx)
            return
        for c in o.get("inner", []):
            self._index(c, ctx)

    def _qual(self, o) -> str:
        ctx = o.get("_ctx", [])
        pid = o.get("parentDeclContextId")
        if pid and self.names.get(pid):
            return self.names[pid] + "::" + o["name"]
        return "::".join(ctx + [o["name"]])

    # -- pass 2: function bodies ------------------------------------------------------------------
    def _collect(self, o, ctx):
        if not isinstance(o, dict):
            return
        k = o.get("kind")
        if k in SCOPE_KINDS:
            q = o.get("_q") or (ctx + [self._scope_name(o)])
            for c in o.get("inner", []):
                self._collect(c, q)
            return
        if k in FUNC_KINDS and o.get("name"):
            o.setdefault("_ctx", list(ctx))
            q = self._qual(o)
            if "id" in o:
                self.names[o["id"]] = q
            body = [c for c in o.get("inner", []) if isinstance(c, dict) and c.get("kind") == "CompoundStmt"]
            inits = [c for c in o.get("inner", []) if isinstance(c, dict) and c.get("kind") == "CXXCtorInitializer"]
            if body:
                ty = o.get("type", {}).get("qualType", "")
                noexc = bool(re.search(r"\bnoexcept\b(?!\s*\(false\))", ty)) or k == "CXXDestructorDecl"
                fn = self.fns.setdefault(q, {"steps": [], "noexcept": noexc, "file": self.main_file,
                                             "line": o.get("_l", 0), "lambdas": 0})
                w = _Walker(self, q, fn)
                for c in inits:
                    w.stmt(c, [])
                w.stmt(body[0], [])
            return
        if k == "FunctionTemplateDecl":
            for c in o.get("inner", []):
                if isinstance(c, dict) and c.get("kind") in FUNC_KINDS:
                    c.setdefault("_ctx", list(ctx))
                    self._collect(c, ctx)
            return
        for c in o.get("inner", []):
            self._collect(c, ctx)

    def fixup_names(self):
        # ids of declarations (in-class) whose qualified name was not computed in pass 2
        def visit(o, ctx):
            if not isinstance(o, dict):
                return
            k = o.get("kind")
            if k in SCOPE_KINDS:
                q = o.get("_q") or (ctx + [self._scope_name(o)])
                for c in o.get("inner", []):
                    visit(c, q)
                return
            if k in FUNC_KINDS and o.get("name") and "id" in o and not self.names.get(o["id"]):
                o.setdefault("_ctx", list(ctx))
                self.names[o["id"]] = self._qual(o)
            for c in o.get("inner", []):
                visit(c, ctx)
        for o in self.objs:
            visit(o, [])


class _Walker:
    def __init__(self, tu: TU, qual: str, fn: dict):
        self.tu, self.qual, self.fn = tu, qual, fn

    def emit(self, guards, **kw):
        kw["guards"] = [list(g) for g in guards]
        self.fn["steps"].append(kw)

    @staticmethod
    def _line(o):
        return o.get("_l", 0)

    def _unwrap(self, o):
        while isinstance(o, dict) and o.get("kind") in WRAPPERS and o.get("inner"):
            if o["kind"] == "CXXConstructExpr" and len(o["inner"]) != 1:
                break
            o = o["inner"][0]
        return o

    def _has_rethrow(self, o) -> bool:
        if not isinstance(o, dict):
            return False
        if o.get("kind") == "CXXThrowExpr" and not o.get("inner"):
            return True
        if o.get("kind") in ("LambdaExpr", "CXXTryStmt"):
            return False
        return any(self._has_rethrow(c) for c in o.get("inner", []))

    def stmt(self, o, guards):
        if not isinstance(o, dict):
            return
        k = o.get("kind")
        if k == "CXXTryStmt":
            inner = [c for c in o.get("inner", []) if isinstance(c, dict)]
            handlers = []
            for h in inner[1:]:
                if h.get("kind") != "CXXCatchStmt":
                    continue
                hi = [c for c in h.get("inner", []) if isinstance(c, dict)]
                var = next((c for c in hi if c.get("kind") == "VarDecl"), None)
                body = next((c for c in hi if c.get("kind") == "CompoundStmt"), None)
                ht = _norm_handler(var.get("type", {}).get("qualType") if var else None)
                if body is not None and self._has_rethrow(body):
                    ht = "unrelated"
                handlers.append(ht)
            self.stmt(inner[0], [handlers] + guards)
            for h in inner[1:]:
                for c in h.get("inner", []):
                    if isinstance(c, dict) and c.get("kind") == "CompoundStmt":
                        self.stmt(c, guards)
            return
        if k == "CXXThrowExpr":
            inner = o.get("inner", [])
            if inner:
                for c in inner:
                    self.stmt(c, guards)
                t = inner[0].get("type", {}).get("qualType", "")
                self.emit(guards, k="throw", exc=[_norm_exc(t)], line=self._line(o))
            return
        if k == "LambdaExpr":
            self.lambda_(o, guards, inline=True)
            return
        if k == "VarDecl":
            init = [c for c in o.get("inner", []) if isinstance(c, dict)]
            if init:
                u = self._unwrap(init[0])
                if isinstance(u, dict) and u.get("kind") == "LambdaExpr":
                    self.lambda_(u, guards, inline=False)
                    return
            for c in init:
                self.stmt(c, guards)
            return
        if k in ("CallExpr", "CXXMemberCallExpr", "CXXOperatorCallExpr"):
            self.call(o, guards)
            return
        if k in ("CXXConstructExpr", "CXXTemporaryObjectExpr"):
            for c in o.get("inner", []):
                self.stmt(c, guards)
            self.construct(o, guards)
            return
        if k in SCOPE_KINDS or k in FUNC_KINDS:
            return      # local classes: not walked
        for c in o.get("inner", []):
            self.stmt(c, guards)

    def lambda_(self, o, guards, inline: bool):
        idx = self.fn["lambdas"]
        self.fn["lambdas"] += 1
        name = f"{self.qual}::lambda#{idx}"
        inner = [c for c in o.get("inner", []) if isinstance(c, dict)]
        rec = next((c for c in inner if c.get("kind") == "CXXRecordDecl"), None)
        if rec:
            for m in rec.get("inner", []):
                if isinstance(m, dict) and m.get("kind") == "CXXMethodDecl" and m.get("name") == "operator()" and "id" in m:
                    self.tu.lambda_ops[m["id"]] = name
        body = next((c for c in reversed(inner) if c.get("kind") == "CompoundStmt"), None)
        sub = self.tu.fns.setdefault(name, {"steps": [], "noexcept": False, "file": self.fn["file"],
                                            "line": self._line(o), "lambdas": 0, "lambda": True})
        for c in inner:          # capture initialisers run where the lambda is written
            if c.get("kind") not in ("CXXRecordDecl", "CompoundStmt"):
                self.stmt(c, guards)
        if body is not None:
            w = _Walker(self.tu, name, sub)
            w.stmt(body, [])
        if inline:
            self.emit(guards, k="call", target=name, line=self._line(o))

    def _callee(self, o):
        """-> (kind, name, decl id, callee type string, base type string, object expr)"""
        inner = [c for c in o.get("inner", []) if isinstance(c, dict)]
        if not inner:
            return None
        c0 = inner[0]
        while c0.get("kind") in ("ImplicitCastExpr", "ParenExpr") and c0.get("inner"):
            c0 = c0["inner"][0]
        if c0.get("kind") == "MemberExpr":
            base = c0.get("inner", [{}])[0] if c0.get("inner") else {}
            bt = base.get("type", {})
            return ("member", c0.get("name", ""), c0.get("referencedMemberDecl"), c0.get("type", {}).get("qualType", ""),
                    bt.get("desugaredQualType") or bt.get("qualType", ""), base)
        if c0.get("kind") == "DeclRefExpr":
            rd = c0.get("referencedDecl", {})
            obj = inner[1] if len(inner) > 1 else {}
            return ("free", rd.get("name", ""), rd.get("id"), rd.get("type", {}).get("qualType", ""), "", obj)
        return ("expr", "", None, "", "", {})

    def call(self, o, guards):
        inner = [c for c in o.get("inner", []) if isinstance(c, dict)]
        # arguments (and the object expression) are evaluated first
        for c in inner[1:] if inner else []:
            self.stmt(c, guards)
        if inner:
            c0 = inner[0]
            while c0.get("kind") in ("ImplicitCastExpr", "ParenExpr") and c0.get("inner"):
                c0 = c0["inner"][0]
            if c0.get("kind") == "MemberExpr":
                for c in c0.get("inner", []):
                    self.stmt(c, guards)
            elif c0.get("kind") not in ("DeclRefExpr",):
                self.stmt(c0, guards)
        cal = self._callee(o)
        if cal is None:
            return
        kind, name, did, cty, bty, obj = cal
        line = self._line(o)
        if did and did in self.tu.lambda_ops:
            self.emit(guards, k="call", target=self.tu.lambda_ops[did], line=line)
            return
        if did and did in self.tu.names and self.tu.names[did]:
            self.emit(guards, k="call", target=self.tu.names[did], line=line)
            return
        if did and did in self.tu.names:        # repo declaration whose name is filled in later
            self.emit(guards, k="call", target_id=did, line=line)
            return
        # library callee
        if name == "operator()" and o.get("kind") == "CXXOperatorCallExpr":
            ob = obj
            while isinstance(ob, dict) and ob.get("kind") in ("ImplicitCastExpr", "ParenExpr") and ob.get("inner"):
                ob = ob["inner"][0]
            oty = (ob.get("type", {}).get("desugaredQualType") or ob.get("type", {}).get("qualType", "")) if isinstance(ob, dict) else ""
            if "function<" in oty or "Handler" in oty or "Callback" in oty:
                var = ob.get("name") or ob.get("referencedDecl", {}).get("name") or "?"
                self.emit(guards, k="ind", var=var, line=line)
            return
        if kind == "free":
            if name in STO:
                self.emit(guards, k="ext", callee="std::" + name, exc=["invalid_argument", "out_of_range"], line=line)
            elif name in FS_FREE and "path" in cty and "error_code" not in cty:
                self.emit(guards, k="ext", callee="std::filesystem::" + name, exc=["filesystem_error"], line=line)
            elif name == "get" and "variant" in cty:
                self.emit(guards, k="ext", callee="std::get<variant>", exc=["bad_variant_access"], line=line)
        elif kind == "member":
            b = bty
            if name == "at" and re.search(r"\b(vector|array|map|unordered_map|basic_string|string|deque)\b", b):
                self.emit(guards, k="ext", callee="at", exc=["out_of_range"], line=line)
            elif name == "value" and "optional" in b:
                self.emit(guards, k="ext", callee="optional::value", exc=["bad_optional_access"], line=line)

    def construct(self, o, guards):
        t = o.get("type", {})
        ty = t.get("desugaredQualType") or t.get("qualType", "")
        ty = re.sub(r"\b(const|volatile)\b", "", ty).strip()
        line = self._line(o)
        if ty == "std::thread":
            args = [c for c in o.get("inner", []) if isinstance(c, dict)]
            target = "?"
            if args:
                a = self._unwrap(args[0])
                if isinstance(a, dict) and a.get("kind") == "UnaryOperator" and a.get("inner"):
                    a = a["inner"][0]
                rid = None
                if isinstance(a, dict) and a.get("kind") == "DeclRefExpr":
                    rid = a.get("referencedDecl", {}).get("id")
                    target = self.tu.names.get(rid) or a.get("referencedDecl", {}).get("name", "?")
            if args:     # default-constructed std::thread objects start nothing
                if rid and rid in self.tu.names and not self.tu.names[rid]:
                    self.emit(guards, k="thread", target=target, target_id=rid, line=line)
                else:
                    self.emit(guards, k="thread", target=target, line=line)
            return
        if re.search(r"filesystem::(recursive_)?directory_iterator$", ty):
            cty = o.get("ctorType", {}).get("qualType", "")
            if "error_code" not in cty and "path" in cty:
                self.emit(guards, k="ext", callee="std::filesystem::directory_iterator", exc=["filesystem_error"], line=line)
            return
        # constructor of a repository class
        base = ty.split("<")[0]
        for cand in self.tu.record_names():
            if cand == base or cand.endswith("::" + base):
                ctor = cand + "::" + cand.split("::")[-1]
                self.emit(guards, k="call", target=ctor, line=line, maybe=True)
                break


def _record_names(self):
    if not hasattr(self, "_recs"):
        self._recs = sorted({n for i, n in self.names.items() if n and self.kinds.get(i) in ("CXXRecordDecl",)},
                            key=len, reverse=True)
    return self._recs


TU.record_names = _record_names


def summarise(repo: Path, tu: str, raw_cache: Path | None = None) -> dict:
    objs = _dump(repo, tu, raw_cache)
    t = TU(objs, tu)
    t.fixup_names()
    out = {}
    for q, fn in t.fns.items():
        steps = []
        for s in fn["steps"]:
            s = dict(s)
            if "target_id" in s:
                nm = t.names.get(s.pop("target_id"))
                if not nm:
                    if s["k"] != "thread":
                        continue
                else:
                    s["target"] = nm
            steps.append(s)
        out[q] = {"steps": steps, "noexcept": fn["noexcept"], "file": fn["file"], "line": fn["line"],
                  "lambda": fn.get("lambda", False)}
    return out


def headers_hash(repo: Path) -> str:
    h = hashlib.sha256()
    for root in ("include", "src"):
        for p in sorted((repo / root).rglob("*")):
            if p.is_file() and p.suffix in (".hpp", ".h", ".hh", ".ipp", ".inl"):
                h.update(str(p.relative_to(repo)).encode())
                h.update(p.read_bytes())
    return h.hexdigest()


def load_summaries(repo: Path, cache: Path, jobs: int = 4) -> tuple[dict, list[str]]:
    import concurrent.futures as cf
    cache.mkdir(parents=True, exist_ok=True)
    hh = headers_hash(repo)
    me = hashlib.sha256(Path(__file__).read_bytes()).hexdigest()
    gaps: list[str] = []
    res: dict[str, dict] = {}

    def one(tu: str):
        p = repo / tu
        if not p.exists():
            return tu, None, f"{tu}: file not found"
        key = hashlib.sha256((hh + me + VERSION + tu).encode() + p.read_bytes()).hexdigest()[:32]
        f = cache / f"{key}.json.gz"
        if f.exists():
            try:
                return tu, json.loads(gzip.decompress(f.read_bytes())), None
            except Exception:
                pass
        rawkey = hashlib.sha256((hh + tu).encode() + p.read_bytes()).hexdigest()[:32]
        try:
            s = summarise(repo, tu, cache / f"raw-{rawkey}.json.gz")
        except Exception as ex:
            return tu, None, f"{tu}: {ex}"
        tmp = f.with_suffix(f".{os.getpid()}.tmp")
        tmp.write_bytes(gzip.compress(json.dumps(s).encode()))
        os.replace(tmp, f)
        return tu, s, None

    with cf.ThreadPoolExecutor(max_workers=max(1, min(jobs, 4))) as ex:
        for tu, s, gap in ex.map(one, TUS):
            if gap:
                gaps.append(gap)
            if s:
                res[tu] = s
    return res, gaps


# --------------------------------------------------------------------------------------------------
# linking
# --------------------------------------------------------------------------------------------------

def link(summaries: dict) -> dict:
    fns: dict[str, dict] = {}
    for tu, s in summaries.items():
        for q, fn in s.items():
            if q in fns:        # overloads / same inline function seen from several TUs
                if fns[q]["file"] == fn["file"]:
                    fns[q]["steps"] = fns[q]["steps"] + fn["steps"]
                    fns[q]["noexcept"] = fns[q]["noexcept"] and fn["noexcept"]
                elif not fns[q]["steps"] and fn["steps"]:
                    fns[q] = dict(fn)
            else:
                fns[q] = dict(fn)
    return fns


def _binding(fn: str, var: str):
    for (suffix, v), targets in BINDINGS.items():
        if v == var and fn.endswith(suffix):
            return targets
    return None


HANDLER_CATCHES = {
    "all": set(EXC_CLASSES),
    "std_exception": set(EXC_CLASSES) - {"other"},
    "logic_error": {"invalid_argument", "out_of_range", "length_error"},
    "runtime_error_h": {"runtime_error", "filesystem_error", "system_error"},
    "unrelated": set(),
}
for _e in EXC_CLASSES:
    HANDLER_CATCHES["exact_" + _e] = {_e} | ({"filesystem_error"} if _e == "system_error" else set())


def caught(guards, e) -> bool:
    return any(e in HANDLER_CATCHES.get(h, set()) for g in guards for h in g)


def may_throw(fns: dict) -> dict[str, set]:
    """least fixpoint: exception classes that can leave each function"""
    out = {q: set() for q in fns}
    changed = True
    while changed:
        changed = False
        for q, fn in fns.items():
            acc = set()
            for s in fn["steps"]:
                if s["k"] in ("throw", "ext"):
                    es = s["exc"]
                elif s["k"] == "call":
                    es = out.get(s["target"], set())
                elif s["k"] == "ind":
                    es = set()
                    for t in _binding(q, s["var"]) or []:
                        es |= out.get(t, set())
                else:
                    es = ()
                for e in es:
                    if not caught(s["guards"], e):
                        acc.add(e)
            if not acc <= out[q]:
                out[q] |= acc
                changed = True
    return out


def build_tree(summaries: dict) -> dict:
    """-> {"fns": [(name, [step...])], "sites": [...], "roots": [...], "leaves": {...}, "notes": [...]}"""
    fns = link(summaries)
    mt = may_throw(fns)
    notes: list[str] = []
    leaves = {}
    for l in LEAVES:
        if l in fns:
            leaves[l] = sorted(mt[l], key=EXC_CLASSES.index)
        else:
            notes.append(f"leaf {l} not found")
    # reachable from the roots, not descending into leaves
    roots = [(n, q) for n, q in ROOTS if q in fns]
    for n, q in ROOTS:
        if q not in fns:
            notes.append(f"root {q} not found")
    # every std::thread construction must start one of the listed roots
    root_names = {q for _, q in ROOTS}
    for q, fn in fns.items():
        for s in fn["steps"]:
            if s["k"] == "thread" and s["target"] not in root_names:
                notes.append(f"thread started at {q}:{s['line']} runs {s['target']}, which is not a listed boundary")
    reach: list[str] = []
    todo = [q for _, q in roots]
    opaque: set[str] = set()
    while todo:
        q = todo.pop()
        if q in reach or q not in fns or q in leaves:
            continue
        reach.append(q)
        for s in fns[q]["steps"]:
            if s["k"] == "call":
                todo.append(s["target"])
            elif s["k"] == "ind":
                b = _binding(q, s["var"])
                if b is None:
                    if s["var"] not in OPAQUE_OK:
                        opaque.add(f"{q}:{s['var']}")
                else:
                    todo.extend(b)
    for o in sorted(opaque):
        notes.append(f"unbound std::function call {o} (treated as not throwing)")
    # noexcept functions on the way are boundaries of their own
    noexcept_fns = [q for q in sorted(reach) if fns[q]["noexcept"] and not fns[q].get("lambda")]
    # keep functions that can reach a primitive at all (ignoring every catch)
    def raw_steps(q):
        return fns[q]["steps"]
    can = {q: False for q in reach}
    changed = True
    while changed:
        changed = False
        for q in reach:
            if can[q]:
                continue
            for s in raw_steps(q):
                hit = False
                if s["k"] in ("throw", "ext"):
                    hit = True
                elif s["k"] == "call":
                    t = s["target"]
                    hit = (t in leaves and bool(leaves[t])) or can.get(t, False)
                elif s["k"] == "ind":
                    hit = any(can.get(t, False) for t in (_binding(q, s["var"]) or []))
                if hit:
                    can[q] = True
                    changed = True
                    break
    keep = [q for q in reach if can[q]]
    extra_roots = [(f"noexcept:{q.split('ephemeralnet::')[-1]}", q) for q in noexcept_fns if can[q]]
    root_qs = [q for _, q in roots] + [q for _, q in extra_roots]
    for q in root_qs:
        if q not in keep and q in fns:
            keep.append(q)
    keep.sort()
    idx = {q: i for i, q in enumerate(keep)}
    sites: list[str] = []
    out_fns = []
    short = lambda q: q.replace("ephemeralnet::", "").replace("(anonymous namespace)::", "")
    for q in keep:
        steps = []
        counter: dict[str, int] = {}
        for s in fns[q]["steps"]:
            g = s["guards"]
            if s["k"] in ("throw", "ext") or (s["k"] == "call" and s["target"] in leaves):
                if s["k"] == "throw":
                    callee, excs = "throw", s["exc"]
                elif s["k"] == "ext":
                    callee, excs = s["callee"], s["exc"]
                else:
                    callee, excs = short(s["target"]), leaves[s["target"]]
                n = counter.get(callee, 0)
                counter[callee] = n + 1
                for e in excs:
                    sites.append(f"{short(q)}>{callee}#{n}:{e}")
                    steps.append(("prim", len(sites) - 1, e, g, s["line"]))
            elif s["k"] == "call":
                if s["target"] in idx:
                    steps.append(("call", idx[s["target"]], None, g, s["line"]))
            elif s["k"] == "ind":
                for t in _binding(q, s["var"]) or []:
                    if t in idx:
                        steps.append(("call", idx[t], None, g, s["line"]))
        out_fns.append((short(q), steps, fns[q]["file"], fns[q]["line"]))
    all_roots = [(n, idx[q]) for n, q in roots + extra_roots if q in idx]
    return {"fns": out_fns, "sites": sites, "roots": all_roots, "leaves": {short(k): v for k, v in leaves.items()},
            "notes": notes, "may_throw": {short(q): sorted(mt[q]) for q in keep}}


def unprotected(tree: dict) -> dict[str, list[str]]:
    """boundary name -> primitive sites whose exception can reach it uncaught (same semantics as
    Model/Escape.lean: one site fires at a time)"""
    fns = [steps for _, steps, _, _ in tree["fns"]]
    out: dict[str, list[str]] = {}
    for sid, sname in enumerate(tree["sites"]):
        esc = [set() for _ in fns]
        changed = True
        while changed:
            changed = False
            for f, steps in enumerate(fns):
                acc = set()
                for kind, a, e, g, _line in steps:
                    if kind == "prim":
                        if a == sid and not caught(g, e):
                            acc.add(e)
                    else:
                        acc |= {x for x in esc[a] if not caught(g, x)}
                if not acc <= esc[f]:
                    esc[f] |= acc
                    changed = True
        for name, r in tree["roots"]:
            if esc[r]:
                out.setdefault(name, []).append(sname)
    return out


# --------------------------------------------------------------------------------------------------
# Lean output
# --------------------------------------------------------------------------------------------------

PRELUDE = '''/-- exception classes (`other` = anything not derived from `std::exception`) -/
inductive Exc where
  | invalid_argument | out_of_range | length_error | runtime_error | filesystem_error | system_error
  | bad_optional_access | bad_variant_access | other
deriving DecidableEq, Repr

/-- a `catch` clause: `catch (...)`, `catch (const std::exception&)`, `catch (const std::logic_error&)`,
    `catch (const std::runtime_error&)`, `catch (const T&)` for one of the classes, or a handler that
    catches none of them (a user type, or one that rethrows) -/
inductive Handler where
  | all | std_exception | logic_error | runtime_error_h | exact (e : Exc) | unrelated
deriving DecidableEq, Repr

/-- one step of a function body.  `guards`: the `try` blocks of this function that enclose the step,
    innermost first, each as the list of its handlers.
    `prim site exc`: a primitive (explicit `throw`, throwing library call, or call of a summarised leaf
    callee) that may raise `exc`; `call fn`: a call of function number `fn` of the table. -/
inductive Step where
  | prim (site : Nat) (exc : Exc) (guards : List (List Handler))
  | call (fn : Nat) (guards : List (List Handler))
deriving Repr
'''


def _lean_handler(h: str) -> str:
    if h.startswith("exact_"):
        return f".exact .{h[6:]}"
    return "." + h


def _lean_guards(g) -> str:
    return "[" + ", ".join("[" + ", ".join(_lean_handler(h) for h in blk) + "]" for blk in g) + "]"


def lean_text(tree: dict) -> str:
    out = ["-- GENERATED by props/C35_extract.py from the clang AST of the working tree. Do not edit.",
           "namespace EphVerif.Gen.C35", "", PRELUDE]
    out.append("/-- qualified names of the functions of the tree (index = function number) -/")
    out.append("def fnNames : List String := [")
    out.append(",\n".join(f'  "{n}"' for n, _, _, _ in tree["fns"]))
    out.append("]\n")
    out.append("/-- names of the primitive sites: `<function>><callee>#<occurrence>:<exception>` -/")
    out.append("def siteNames : List String := [")
    out.append(",\n".join(f'  "{s}"' for s in tree["sites"]))
    out.append("]\n")
    out.append("/-- the bodies, in source order -/")
    out.append("def fns : List (List Step) := [")
    bodies = []
    for n, steps, f, l in tree["fns"]:
        items = []
        for kind, a, e, g, line in steps:
            if kind == "prim":
                items.append(f"    .prim {a} .{e} {_lean_guards(g)}")
            else:
                items.append(f"    .call {a} {_lean_guards(g)}")
        bodies.append(f"  -- {n}  ({f}:{l})\n  [\n" + ",\n".join(items) + "\n  ]" if items else f"  -- {n}  ({f}:{l})\n  []")
    out.append(",\n".join(bodies))
    out.append("]\n")
    out.append("/-- boundaries: an exception leaving one of these functions ends the process "
               "(thread entry points, the daemon's main-loop tick, `noexcept` functions on the way) -/")
    out.append("def roots : List (String × Nat) := [")
    out.append(",\n".join(f'  ("{n}", {i})' for n, i in tree["roots"]))
    out.append("]\n")
    out.append("/-- exception classes that can leave the summarised leaf callees (from their bodies) -/")
    out.append("def leafSummary : List (String × List Exc) := [")
    out.append(",\n".join(f'  ("{k}", [{", ".join("." + e for e in v)}])' for k, v in sorted(tree["leaves"].items())))
    out.append("]\n")
    flags = tree.get("flags", {})
    out.append("/-- is a receive timeout set on an accepted transport connection before its first blocking read "
               "(`set_recv_timeout` before `recv_all` in `SessionManager::accept_loop`)? -/")
    out.append(f"def transportPeerIdTimeout : Bool := {'true' if flags.get('transportPeerIdTimeout') else 'false'}\n")
    out.append("/-- does the control accept loop set SO_RCVTIMEO on an accepted client socket before handling the client? -/")
    out.append(f"def controlReadTimeout : Bool := {'true' if flags.get('controlReadTimeout') else 'false'}\n")
    out.append("/-- … and SO_SNDTIMEO (a client that never reads its response)? -/")
    out.append(f"def controlWriteTimeout : Bool := {'true' if flags.get('controlWriteTimeout') else 'false'}\n")
    out.append("/-- do the recv / send loops that run on the accept threads go round again on a timeout-class error "
               "(EAGAIN / EWOULDBLOCK / ETIMEDOUT / EINTR followed by `continue`)?  That re-arms the wait and cancels the bound. -/")
    for name in ("controlLineReadRetries", "controlPayloadReadRetries", "controlWriteRetries", "transportReadRetries"):
        out.append(f"def {name} : Bool := {'true' if flags.get(name) else 'false'}")
    out.append("def controlReadRetriesOnTimeout : Bool := controlLineReadRetries || controlPayloadReadRetries\n")
    out.append("end EphVerif.Gen.C35\n")
    return "\n".join(out)


def read_flags(repo: Path) -> tuple[dict, list[str]]:
    """(T) by source scan: are the blocking reads of the two accept loops bounded?"""
    gaps: list[str] = []
    flags = {"transportPeerIdTimeout": False, "controlReadTimeout": False, "controlWriteTimeout": False,
             "controlLineReadRetries": False, "controlPayloadReadRetries": False, "controlWriteRetries": False,
             "transportReadRetries": False}

    def retries(text: str, fn_pattern: str, what: str) -> bool:
        """does the recv/send loop of this function go round again when the call fails with a timeout-class error
        (a `continue` in a body that tests EAGAIN / EWOULDBLOCK / ETIMEDOUT / EINTR)?  SO_RCVTIMEO / SO_SNDTIMEO expiry is
        reported as EAGAIN, so such a retry re-arms the wait and cancels the bound."""
        h = re.search(fn_pattern + r"\s*\([^;{}]*\)\s*(?:const\s*)?\{(.*?)\n\}", text, flags=re.S)
        if not h:
            gaps.append(f"{what}: function body not found")
            return False
        body = h.group(1)
        return bool(re.search(r"\b(EAGAIN|EWOULDBLOCK|ETIMEDOUT|EINTR|WSAEWOULDBLOCK|WSAETIMEDOUT)\b", body)) and \
            bool(re.search(r"\bcontinue\s*;", body))

    def strip(text: str) -> str:
        text = re.sub(r"/\*.*?\*/", " ", text, flags=re.S)
        return re.sub(r"//[^\n]*", " ", text)
    try:
        sm = strip((repo / "src/network/SessionManager.cpp").read_text(errors="replace"))
        m = re.search(r"void\s+SessionManager::accept_loop\s*\(\s*\)\s*\{(.*?)\n\}", sm, flags=re.S)
        if not m:
            gaps.append("SessionManager::accept_loop body not found")
        else:
            body = m.group(1)
            a, b = body.find("set_recv_timeout"), body.find("recv_all")
            flags["transportPeerIdTimeout"] = a >= 0 and (b < 0 or a < b)
        flags["transportReadRetries"] = retries(sm, r"bool\s+SessionManager::recv_all", "SessionManager::recv_all")
    except OSError as ex:
        gaps.append(f"SessionManager.cpp: {ex}")
    try:
        cs = strip((repo / "src/daemon/ControlServer.cpp").read_text(errors="replace"))
        m = re.search(r"void\s+accept_loop\s*\(\s*\)\s*\{(.*?)\n    \}", cs, flags=re.S)
        if not m:
            gaps.append("ControlServer::Impl::accept_loop body not found")
        else:
            body = m.group(1)
            cut = body.find("handle_client")
            before = body if cut < 0 else body[:cut]
            # what is set on the accepted socket before the client is handled: directly, or through a helper of this file
            text = before
            for name in set(re.findall(r"\b([A-Za-z_]\w*)\s*\(", before)):
                h = re.search(r"\b" + re.escape(name) + r"\s*\([^;{}]*\)\s*(?:const\s*)?\{(.*?)\n\}", cs, flags=re.S)
                if h and "setsockopt" in h.group(1):
                    text += h.group(1)
            flags["controlReadTimeout"] = "SO_RCVTIMEO" in text
            flags["controlWriteTimeout"] = "SO_SNDTIMEO" in text
        flags["controlLineReadRetries"] = retries(cs, r"bool\s+recv_line", "ControlServer recv_line")
        flags["controlPayloadReadRetries"] = retries(cs, r"bool\s+recv_exact", "ControlServer recv_exact")
        flags["controlWriteRetries"] = retries(cs, r"bool\s+send_all", "ControlServer send_all")
    except OSError as ex:
        gaps.append(f"ControlServer.cpp: {ex}")
    return flags, gaps


if __name__ == "__main__":
    import sys
    repo = Path(os.environ.get("VERIF_REPO", "/repo")).resolve()
    cache = Path(os.environ.get("VERIF_BUILD", str(Path(__file__).resolve().parent.parent / ".build"))) / "c35ast"
    summ, gaps = load_summaries(repo, cache, int(os.environ.get("VERIF_JOBS", "4")))
    tree = build_tree(summ)
    fns = link(summ)
    mt = may_throw(fns)
    if len(sys.argv) > 1 and sys.argv[1] == "lean":
        print(lean_text(tree))
    else:
        print("gaps:", gaps)
        print("notes:", *tree["notes"], sep="\n  ")
        print("leaves:", tree["leaves"])
        print("roots:")
        for n, i in tree["roots"]:
            print("  ", n, tree["fns"][i][0], "MAY THROW:", tree["may_throw"][tree["fns"][i][0]])
        print("functions:", len(tree["fns"]), "sites:", len(tree["sites"]))
        for n, steps, f, l in tree["fns"]:
            print(f"{n} ({f}:{l}) escapes={tree['may_throw'][n]}")
            for kind, a, e, g, line in steps:
                what = tree["sites"][a] if kind == "prim" else "-> " + tree["fns"][a][0]
                print(f"     {line:5d} {kind} {what} guards={g}")
