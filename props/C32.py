"""C32 — configuration layers apply in the documented precedence."""
from tools.vlib import *
from props.C30 import cli_harness, MAIN_CPP

PID = "C32"
READY = True
MANIFEST = {
    "level_text": "Lean 4 theorems about the model of load_configuration (value trees, merge_objects, remove_key, resolve_profile with its "
                  "visiting set, collect_environment_overrides, apply_profile_to_options for nine representative settings), for all trees, "
                  "profile graphs, environment mappings and flag sets: the value at a path in a merge is the overlay's if it defines it, "
                  "else the base's (scalars in the way shadow); the raw value read for a setting is that of the highest layer defining it "
                  "(environment, selected profile, ancestors nearest first), flags are never overwritten, unset stays unset; "
                  "resolve_profile terminates within |profiles|+1 nested calls, a resolved profile is the merge of a finite chain of "
                  "existing distinct profiles, and any cycle or missing profile on the extends path yields a ConfigError. Tied to the code "
                  "by running the real load_configuration on generated JSON/YAML files (settings assigned to subsets of layers, extends "
                  "chains of depth 0-4, cycles, missing parents, environment-selected profiles, invalid values) and, for a sample, the "
                  "whole CLI entry (`eph ... start` re-executing the harness as the daemon and dumping its argument vector), with a Lean "
                  "specification that knows nothing of merging judging every effective option set.",
    "level_note": "Partial in one respect, recorded as known finding C32-1: a setting spelled differently in different layers is resolved "
                  "spelling-first, not layer-first (alias_counterexample); `precedence` assumes one spelling per setting. Trusted/modelled: "
                  "the JSON/YAML parsers (exercised, not modelled: the model starts from the parsed tree), std::map ordering, arrays and "
                  "doubles are outside the model, only nine of the ~30 settings are modelled, validate_global_options only through the "
                  "end-to-end sample; hand transcription into Lean (checked only by the differential run).",
    "technique": "Lean 4 proof over all trees/profile graphs + generated-configuration differential correspondence with Lean monitor",
}


def harness():
    return cli_harness()


def extract():
    """(T) the spellings apply_profile_to_options accepts for the nine modelled settings, in source order."""
    import re
    gaps = []
    try:
        text = (REPO / MAIN_CPP).read_text(errors="replace")
    except Exception as ex:
        text = ""
        gaps.append(f"main.cpp unreadable: {ex}")
    wanted = {
        "dirPaths": r"options\.storage_dir\)\s*\{\s*if\s*\(auto\s+\w+\s*=\s*config::get_string_any\(profile,\s*\{(.*?)\}\)\)",
        "persPaths": r"options\.persistent_set\)\s*\{\s*if\s*\(auto\s+\w+\s*=\s*config::get_bool_any\(profile,\s*\{(.*?)\}\)\)",
        "cportPaths": r"options\.control_port\)\s*\{\s*if\s*\(auto\s+\w+\s*=\s*config::get_int64_any\(profile,\s*\{(.*?)\}\)\)",
        "tportPaths": r"options\.transport_listen_port\)\s*\{\s*if\s*\(auto\s+\w+\s*=\s*config::get_int64_any\(profile,\s*\{(.*?)\}\)\)",
        "tokPaths": r"options\.control_token\)\s*\{\s*if\s*\(auto\s+\w+\s*=\s*config::get_string_any\(profile,\s*\{(.*?)\}\)\)",
        "ttlPaths": r"options\.default_ttl_seconds\)\s*\{\s*if\s*\(auto\s+\w+\s*=\s*config::get_int64_any\(profile,\s*\{(.*?)\}\)\)",
        "minPaths": r"options\.min_ttl_seconds\)\s*\{\s*if\s*\(auto\s+\w+\s*=\s*config::get_int64_any\(profile,\s*\{(.*?)\}\)\)",
        "maxPaths": r"options\.max_ttl_seconds\)\s*\{\s*if\s*\(auto\s+\w+\s*=\s*config::get_int64_any\(profile,\s*\{(.*?)\}\)\)",
        "powPaths": r"options\.announce_pow_difficulty\)\s*\{\s*if\s*\(auto\s+\w+\s*=\s*config::get_int64_any\(profile,\s*\{(.*?)\}\)\)",
    }
    defaults = {k: v for k, v in SPELLINGS.items()}
    body = []
    for name, pat in wanted.items():
        m = re.search(pat, text, re.S)
        paths = None
        if m:
            paths = [re.findall(r'"([^"]*)"', grp) for grp in re.findall(r"\{([^{}]*)\}", m.group(1))]
            paths = [p for p in paths if p]
        if not paths:
            gaps.append(f"{name}: alias list not found")
            paths = defaults[name]
        lean = "[" + ", ".join("[" + ", ".join(f'"{s}"' for s in p) + "]" for p in paths) + "]"
        body.append(f"def {name} : List (List String) := {lean}")
    write_generated(PID, "\n".join(body))
    return gaps


SPELLINGS = {
    "dirPaths": [["storage", "directory"], ["storage-directory"]],
    "persPaths": [["storage", "persistent"], ["storage", "enable_persistent"]],
    "cportPaths": [["control", "port"], ["network", "control_port"]],
    "tportPaths": [["transport", "port"], ["network", "transport_port"], ["node", "transport_port"]],
    "tokPaths": [["control", "token"], ["control-token"]],
    "ttlPaths": [["node", "default_ttl_seconds"], ["node", "default_ttl"]],
    "minPaths": [["node", "min_ttl_seconds"], ["node", "min_ttl"]],
    "maxPaths": [["node", "max_ttl_seconds"], ["node", "max_ttl"]],
    "powPaths": [["announce", "pow_difficulty"], ["node", "announce_pow_difficulty"]],
}
SETTINGS = ["ttl", "min", "max", "cport", "tport", "tok", "pow", "dir", "pers"]
SECTIONS = ["storage", "control", "node", "announce", "network", "transport"]
# include/ephemeralnet/Config.hpp / docs/03-operations/01-configuration.md
BUILTIN_DEFAULTS = {"ttl": 21600, "min": 30, "max": 21600, "cport": 47777, "tport": 45000, "pow": 6, "dir": "storage", "pers": False}
PATHS = {s: SPELLINGS[s + "Paths"] for s in SETTINGS}


def fresh_value(rng, s, used, e2e=False):
    for _ in range(50):
        if s == "ttl":
            v = rng.randint(1000, 9999)
        elif s == "min":
            v = rng.randint(10, 99)
        elif s == "max":
            v = rng.randint(100000, 999999)
        elif s == "cport":
            v = rng.choice([60000, 60001, 60002, 60003]) if e2e else rng.choice([1, 1024, 47777, 65535, rng.randint(2, 59999)])
        elif s == "tport":
            v = rng.choice([1, 45000, 65535, rng.randint(2, 59999)])
        elif s == "tok":
            v = "tok" + rng.choice("ABCDEFGHJK") + str(rng.randint(0, 99))
        elif s == "pow":
            v = rng.randint(0, 24)
        elif s == "dir":
            v = "@d" + str(rng.randint(0, 30))
        else:
            v = rng.choice([True, False])
        if (s, v) not in used or s == "pers":
            used.add((s, v))
            return v
    return v


def set_path(tree: dict, path, value):
    node = tree
    for k in path[:-1]:
        nxt = node.get(k)
        if not isinstance(nxt, dict):
            nxt = {}
            node[k] = nxt
        node = nxt
    node[path[-1]] = value


def ser(v) -> str:
    if isinstance(v, dict):
        return "{" + ",".join(f"{k}:{ser(x)}" for k, x in v.items()) + "}"
    if isinstance(v, bool):
        return "t" if v else "f"
    if v is None:
        return "n"
    if isinstance(v, int):
        return str(v)
    return '"' + str(v) + '"'


def flag_text(flags: dict) -> str:
    if not flags:
        return "-"
    out = []
    for k, v in flags.items():
        out.append(f"{k}={'t' if v is True else 'f' if v is False else v}")
    return ",".join(out)


def gen_case(rng, shape: str, e2e: bool = False) -> Case:
    """One configuration: a profile chain, optional environment, optional flags; `shape` picks the stream."""
    used = set()
    depth = rng.choice([0, 0, 1, 1, 2, 3, 4])
    use_env = rng.random() < 0.6
    # how the profile is selected: nothing (=> "default"), --profile p0, an explicit --profile default (the flag is given,
    # its value merely equals the built-in choice), or the environment's `profile:` key
    select_by = rng.choice(["default", "flag", "flagdefault", "flagdefault", "env"]) if use_env else rng.choice(["default", "flag", "flagdefault"])
    names = ["default" if select_by in ("default", "flagdefault") else "p0"] + [f"p{i}" for i in range(1, depth + 1)]
    profiles = {n: {} for n in names}
    for i in range(depth):
        profiles[names[i]]["extends"] = names[i + 1]
    env = {} if use_env else None
    env_over = {}
    flags = {}
    chosen = rng.sample(SETTINGS, rng.randint(6, 8))
    spelling = {}
    layers = ["flag", "env", "envmap"] + [f"prof{i}" for i in range(depth + 1)]
    tag = shape
    for s in chosen:
        spell_fixed = rng.choice(PATHS[s]) if rng.random() < 0.3 else PATHS[s][0]
        spelling[s] = spell_fixed
        k = rng.choice([1, 1, 2, 2, 3, len(layers)])
        where = rng.sample(layers, min(k, len(layers)))
        if e2e and s == "cport" and not where:
            where = ["prof0"]
        for lay in where:
            v = fresh_value(rng, s, used, e2e)
            path = rng.choice(PATHS[s]) if shape == "alias-mixed" else spell_fixed
            if shape == "invalid" and rng.random() < 0.25:
                v = rng.choice({"ttl": [0, -5, "x"], "min": [0, "1"], "max": [0, True], "cport": [0, 65536, -1, "80"], "tport": [0, 70000],
                                "tok": [5, True], "pow": [25, -1, "3"], "dir": [7, False], "pers": [3, "maybe", "yes", "OFF"]}[s])
            if lay == "flag":
                if isinstance(v, (dict,)) or (shape == "invalid" and not _flag_ok(s, v)):
                    continue
                if shape != "invalid" and s in BUILTIN_DEFAULTS and rng.random() < 0.3 and not (e2e and s in ("dir", "cport")):
                    v = BUILTIN_DEFAULTS[s]      # an explicit flag whose value equals the built-in default is still a flag
                flags[s] = v
            elif lay == "env":
                if env is not None:
                    set_path(env, path, v)
            elif lay == "envmap":
                if env is not None:
                    set_path(env_over, path, v)
            else:
                set_path(profiles[names[int(lay[4:])]], path, v)
    if e2e and "cport" not in flags and not any(_has(profiles[n], PATHS["cport"]) for n in names) and not (
            env is not None and (_has(env, PATHS["cport"]) or _has(env_over, PATHS["cport"]))):
        set_path(profiles[names[-1]], PATHS["cport"][0], rng.choice([60000, 60001, 60002, 60003]))
    # empty sections: a layer that mentions a section without setting anything in it shadows nothing
    if shape in ("plain", "empty-section", "alias-mixed") and (shape == "empty-section" or rng.random() < 0.35):
        trees = [profiles[n] for n in names if isinstance(profiles.get(n), dict)]
        if env is not None:
            trees += [env, env_over]
        for tree in trees:
            for sect in SECTIONS:
                if sect not in tree and rng.random() < (0.5 if shape == "empty-section" else 0.2):
                    tree[sect] = {}
    if env is not None and env_over:
        env["overrides"] = env_over
    if env is not None and select_by == "env":
        env["profile"] = names[0]
    elif env is not None and rng.random() < 0.6:
        # the environment names another profile: with a --profile flag (whatever its value) the flag's choice must stand;
        # without one the environment legitimately selects the decoy
        env["profile"] = "decoy"
        decoy = {}
        for s2 in SETTINGS:
            set_path(decoy, rng.choice(PATHS[s2]) if shape == "alias-mixed" else spelling.get(s2, PATHS[s2][0]), fresh_value(rng, s2, used, e2e))
        profiles["decoy"] = decoy
    # structural variations
    if shape == "cycle":
        target = rng.choice(names)
        profiles[names[-1]]["extends"] = target
    elif shape == "missing-parent":
        profiles[names[-1]]["extends"] = "ghost"
    elif shape == "missing-selected":
        del profiles[names[0]]
        if not profiles:
            profiles["other"] = {}
    elif shape == "extends-type":
        profiles[rng.choice(names)]["extends"] = rng.choice([5, True, {"x": 1}])
    elif shape == "profile-not-map":
        profiles[rng.choice(names)] = rng.choice([5, "text", None])
    elif shape == "shadow":
        victim = rng.choice(names)
        sect = rng.choice(["control", "node", "storage", "announce", "network", "transport"])
        if isinstance(profiles[victim], dict):
            profiles[victim][sect] = rng.choice([5, "scalar", True])
    # noise: unrelated profiles, one of them cyclic
    profiles["unrelated"] = {"node": {"default_ttl_seconds": 77}, "extends": "unrelated2"}
    profiles["unrelated2"] = {"extends": "unrelated"} if rng.random() < 0.5 else {"control": {"port": 9}}
    doc = {"profiles": profiles}
    env_name = "-"
    if env is not None:
        doc["environments"] = {"ci": env, "other": {"node": {"default_ttl_seconds": 5}}}
        env_name = "ci"
        if shape == "missing-env":
            env_name = "nope"
    profile_flag = names[0] if select_by in ("flag", "flagdefault") else "-"
    if shape == "missing-selected" and select_by == "default":
        profile_flag = "-"
    keys = list(doc["profiles"].keys())
    rng.shuffle(keys)
    doc["profiles"] = {k: doc["profiles"][k] for k in keys}
    fmt = rng.choice(["json", "yaml"])
    if fmt == "yaml" and _yaml_unsafe(doc):
        fmt = "json"
    op = "cfgx" if e2e else "cfg"
    return Case(ops=[f"{op} {fmt} {profile_flag} {env_name} {flag_text(flags)} {ser(doc)}"], tag=tag + ("/e2e" if e2e else ""))


def _flag_ok(s, v):
    if s in ("tok", "dir"):
        return isinstance(v, str)
    if s == "pers":
        return isinstance(v, bool)
    return isinstance(v, int) and not isinstance(v, bool) and v > 0 and (s != "pow" or v <= 24) and (s not in ("cport", "tport") or v <= 65535)


def _has(tree, paths):
    for p in paths:
        node = tree
        ok = True
        for k in p:
            if not isinstance(node, dict) or k not in node:
                ok = False
                break
            node = node[k]
        if ok:
            return True
    return False


def _yaml_unsafe(v) -> bool:
    """the repository's YAML reader has no syntax for an empty mapping as a value ('key:' + nothing is read as one, which is
    what we want) but cannot express a mapping-valued 'extends' or null in a way that differs from JSON; keep those in JSON"""
    if isinstance(v, dict):
        return any(x is None or _yaml_unsafe(x) for x in v.values())
    return False


ERROR_KINDS = ["missing", "self-loop", "2-cycle", "3-cycle", "missing-parent-1", "missing-parent-2", "missing-parent-3"]
ROUTES = ["flag", "env", "ancestor-of-flag", "ancestor-of-env", "ancestor-of-default"]


def gen_error_route(rng, kind: str, route: str, e2e: bool = False) -> Case:
    """A broken profile `bad` (missing / cyclic / with a missing ancestor) reached by one selection route, in a file whose
    `default` profile is perfectly fine: the run must end in a ConfigError, never quietly fall back to `default`."""
    used = set()
    profiles = {}
    if kind == "missing":
        pass
    elif kind == "self-loop":
        profiles["bad"] = {"extends": "bad"}
    elif kind == "2-cycle":
        profiles["bad"] = {"extends": "b2"}
        profiles["b2"] = {"extends": "bad"}
    elif kind == "3-cycle":
        profiles["bad"] = {"extends": "b2"}
        profiles["b2"] = {"extends": "b3"}
        profiles["b3"] = {"extends": "bad"}
    else:
        k = int(kind[-1])
        chain = ["bad"] + [f"c{i}" for i in range(1, k)]
        for a, b in zip(chain, chain[1:] + ["ghost"]):
            profiles[a] = {"extends": b}
    # give the broken profiles some content and make `default` (or the selecting profile) a tempting fallback
    for name in list(profiles):
        for s2 in rng.sample(SETTINGS, 2):
            set_path(profiles[name], PATHS[s2][0], fresh_value(rng, s2, used, e2e))
    good = {}
    for s2 in SETTINGS:
        set_path(good, PATHS[s2][0], fresh_value(rng, s2, used, e2e))
    env = {}
    for s2 in rng.sample(SETTINGS, 2):
        if not (e2e and s2 == "cport"):
            set_path(env, PATHS[s2][0], fresh_value(rng, s2, used, e2e))
    profile_flag, env_name = "-", "-"
    if route == "flag":
        profiles["default"] = good
        profile_flag = "bad"
        env_name = rng.choice(["-", "ci"])
    elif route == "env":
        profiles["default"] = good
        env["profile"] = "bad"
        env_name = "ci"
    elif route == "ancestor-of-flag":
        profiles["default"] = good
        profiles["sel"] = {"extends": "bad", "node": {"default_ttl_seconds": 4242}}
        profile_flag = "sel"
        env_name = rng.choice(["-", "ci"])
    elif route == "ancestor-of-env":
        profiles["default"] = good
        profiles["sel"] = {"extends": "bad", "node": {"default_ttl_seconds": 4242}}
        env["profile"] = "sel"
        env_name = "ci"
    else:
        good["extends"] = "bad"
        profiles["default"] = good
        env_name = rng.choice(["-", "ci"])
    keys = list(profiles)
    rng.shuffle(keys)
    doc = {"profiles": {k2: profiles[k2] for k2 in keys}, "environments": {"ci": env}}
    flags = {}
    if rng.random() < 0.3:
        flags["tok"] = fresh_value(rng, "tok", used, e2e)
    fmt = rng.choice(["json", "yaml"])
    op = "cfgx" if e2e else "cfg"
    return Case(ops=[f"{op} {fmt} {profile_flag} {env_name} {flag_text(flags)} {ser(doc)}"], tag=f"error-route/{kind}/{route}" + ("/e2e" if e2e else ""))


SHAPES = ["plain"] * 10 + ["empty-section", "empty-section", "cycle", "cycle", "missing-parent", "missing-parent", "missing-selected", "extends-type", "profile-not-map",
                           "missing-env", "invalid", "invalid", "shadow", "alias-mixed"]


def generate(ctx, budget):
    rng = ctx.rng
    cases = []
    group = []
    for i in range(budget):
        c = gen_case(rng, rng.choice(SHAPES))
        cases.append(c)
    # every way a profile can be broken x every route by which it can be reached (each combination in every run)
    for rep in range(2 if ctx.tier == "quick" else 12):
        for kind in ERROR_KINDS:
            for route in ROUTES:
                cases.append(gen_error_route(rng, kind, route))
    for _ in range(4 if ctx.tier == "quick" else 30):
        cases.append(gen_error_route(rng, rng.choice(ERROR_KINDS), rng.choice(ROUTES), e2e=True))
    n_e2e = 10 if ctx.tier == "quick" else 120
    for i in range(n_e2e):
        cases.append(gen_case(rng, rng.choice(["plain", "plain", "plain", "cycle", "missing-parent"]), e2e=True))
    return cases


def nontrivial(r: CaseResult) -> bool:
    """a configuration counts if it exercises precedence (some setting present in at least two layers) or an error path."""
    if not r.impl:
        return False
    if r.impl[0].startswith("err:"):
        return True
    op = r.case.ops[0]
    doc = op.split(" ", 5)[5]
    for s, paths in PATHS.items():
        leaf = paths[0][-1]
        if doc.count(leaf + ":") >= 2 or (doc.count(leaf + ":") >= 1 and (s + "=") in op.split(" ")[4]):
            return True
    return False


def spec() -> Spec:
    return Spec(
        pid=PID,
        proof_modules=["EphVerif.Proofs.C32"],
        driver="drv_c32",
        harness=harness,
        generate=generate,
        extract=extract,
        nontrivial=nontrivial,
        budget={"quick": 900, "thorough": 12000},
        rule="generated JSON/YAML configuration files: 6-8 of nine representative settings (default/min/max TTL, control and transport "
             "port, token, PoW difficulty, storage directory, persistence) each assigned distinct values in a random subset of layers "
             "(flags, environment direct keys, environment overrides map, selected profile, ancestors), empty sections ({} / a YAML key "
             "with nothing under it) in any layer, extends chains of depth 0-4, "
             "profile selected by default / --profile p0 / an explicit --profile default / the environment, with the environment naming a "
             "decoy profile while a --profile flag is given; flags whose value equals the built-in default (also 0 and false); unrelated "
             "(also cyclic) profiles as noise; the cross product {missing, self-loop, 2-cycle, 3-cycle, missing parent at depth 1-3} x "
             "{--profile, environment's profile key, ancestor of the flag's / the environment's / the default profile} next to a "
             "healthy `default` profile; further error shapes: cycle "
             "back to any chain member, missing parent, missing selected profile, non-text extends, non-mapping profile, unknown "
             "environment; invalid values (type, range) in winning and in hidden layers; scalar-shadowed sections; mixed spellings "
             "(known finding); plus an end-to-end sample through the real `eph ... start`. distinct = sha256 of the op; non-trivial = "
             "a setting is present in two or more layers, or an error is expected",
        trusted_base=["the repository's JSON and YAML readers (part of the code under test; the model starts at the parsed tree)",
                      "for the end-to-end sample: fork/exec of the harness binary as the 'daemon', fake PING endpoint"],
        assumptions=["keys are unique within a mapping (std::map cannot represent anything else)",
                     "only the nine modelled settings (and extends/profile/overrides) occur in generated files"],
        per_case_timeout=60.0,
        batch=600,
    )


def run(tier, seed, replay=None):
    return standard_check(spec(), tier, seed, replay)
