"""C21 — announces change state only when admissible and within the throttle."""
import re

from tools.vlib import *

PID = "C21"
READY = True
MANIFEST = {
    "level_text": "Lean 4 theorems about a model of Node::handle_announce's admission chain (payload abstracted to the facts it "
                  "checks), the per-peer throttle, failure history and lockout, for every timed history of announces from any number "
                  "of peers and every configuration after sanitize_config: node state (manifest cache, key shares, provider contact, "
                  "pending fetch) changes only for an admissible announce of a peer that is not locked out and passes the throttle; "
                  "announces that pass the throttle are pairwise at least min_interval apart and at most burst_limit fall into any closed "
                  "window of length burst_window; three counted rejections within 120 s with no accept between lock the peer out "
                  "for 180 s (every announce in that time is refused without state change). The model is tied to the code by regenerated "
                  "constants (120 s / 180 s / 3, sanitisation bounds, PoW version threshold, reputation steps) and a differential run of "
                  "the real Node under a virtual clock against the compiled model, with a reference observer written from the "
                  "property text judging every announce the implementation handles.",
    "level_note": "Trusted: Lean kernel; the hand transcription of handle_announce / register_incoming_announce / "
                  "record_announce_failure / announce_sender_locked / sanitize_config into Lean (checked only by the differential run); "
                  "the abstraction of a payload to eight checked facts (the harness re-evaluates them with the real validators of "
                  "Node.cpp and the model must predict them); std::deque/unordered_map semantics; steady clock monotone. Nanosecond "
                  "arithmetic is unbounded Int in the model; absence of int64 overflow is proved from the sanitised bounds "
                  "(C21.sanitize_no_overflow) and relies on the repaired upper clamp of announce_min_interval.",
    "technique": "Lean 4 invariant proofs over histories + model/implementation differential correspondence with Lean monitor",
}
S = 1_000_000_000
NODE = "src/core/Node.cpp"


HARNESS_NOTES: list = []


def harness():
    """admission_h reaches three anonymous-namespace validators of Node.cpp by name when they exist
    (-DVERIF_INTERNALS=1, Node.cpp #included); if they are renamed or gone it is rebuilt without them
    (-DVERIF_INTERNALS=0, Node.cpp linked normally) and measures the same facts through an oracle Node /
    the property's own statement. No op is internal-only, so no case is dropped."""
    def build(defines):
        internals = "-DVERIF_INTERNALS=1" in defines
        sources = [s for s in ALL_CORE_SOURCES if s != NODE] if internals else list(ALL_CORE_SOURCES)
        return build_harness("admission_h", "harness/admission_h.cpp", sources, includes_repo_cpp=True, vclock=True,
                             libs=("-lcurl", "-lpthread"), defines=defines)
    del HARNESS_NOTES[:]
    exe, _internals = build_harness_with_fallback(build, HARNESS_NOTES)
    return exe


def post(ctx, results):
    for n in HARNESS_NOTES:
        if n not in ctx.notes:
            ctx.notes.append(n + " -- validity facts (handshake PoW, threshold, expiry) measured without the private validators")


# ------------------------------------------------------------------------------------ (T)
_UNIT = {"seconds": 1, "minutes": 60, "hours": 3600}


def _chrono_consts(text):
    """name -> seconds for `constexpr std::chrono::seconds kX{std::chrono::<unit>{N}};`"""
    out = {}
    for m in re.finditer(r"constexpr\s+std::chrono::seconds\s+(\w+)\s*\{\s*std::chrono::(seconds|minutes|hours)\s*\{\s*(\d+)\s*\}\s*\}", text):
        out[m.group(1)] = int(m.group(3)) * _UNIT[m.group(2)]
    return out


def extract():
    gaps = []
    text = ""
    try:
        from tools.vlib import _strip_comments
        text = _strip_comments((REPO / NODE).read_text(errors="replace"))
    except Exception as ex:
        gaps.append(f"{NODE}: {ex}")
    ch = _chrono_consts(text)
    vals = {}

    def take(name, default, src=None):
        v = (src if src is not None else ch).get(name)
        if v is None:
            gaps.append(f"{name}: pattern not found (default {default})")
            v = default
        vals[name] = v

    take("kMinAnnounceInterval", 1)
    take("kMaxAnnounceWindow", 3600)
    take("kAnnounceFailureWindow", 120)
    take("kAnnounceLockoutDuration", 180)
    more, g2 = extract_consts([
        Const("kMaxAnnouncePowDifficulty", NODE, r"kMaxAnnouncePowDifficulty\s*\{\s*([^}]+)\}", default=24),
        Const("kAnnounceFailureThreshold", NODE, r"kAnnounceFailureThreshold\s*\{\s*([^}]+)\}", default=3),
        Const("kPowMinVersion", NODE, r"Node::verify_announce_pow\(.*?message_version\s*<\s*(\d+)", default=3),
        Const("repSuccessReward", "include/ephemeralnet/network/ReputationManager.hpp", r"int\s+success_reward\s*=\s*(\d+)", default=1),
        Const("repFailurePenalty", "include/ephemeralnet/network/ReputationManager.hpp", r"int\s+failure_penalty\s*=\s*(\d+)", default=2),
        Const("repMaxScore", "include/ephemeralnet/network/ReputationManager.hpp", r"kMaxScore\s*=\s*(-?\d+)", default=100),
        Const("repMinScoreNeg", "include/ephemeralnet/network/ReputationManager.hpp", r"kMinScore\s*=\s*-\s*(\d+)", default=100),
    ])
    gaps += g2
    order = ["kMinAnnounceInterval", "kMaxAnnounceWindow", "kMaxAnnouncePowDifficulty", "kAnnounceFailureWindow",
             "kAnnounceLockoutDuration", "kAnnounceFailureThreshold"]
    vals.update(more)
    body = "\n".join(f"def {k} : Nat := {vals[k]}" for k in order)
    body += f"\ndef kPowMinVersion : Nat := {vals['kPowMinVersion']}"
    body += f"\ndef repSuccessReward : Nat := {vals['repSuccessReward']}\ndef repFailurePenalty : Nat := {vals['repFailurePenalty']}"
    body += f"\ndef repMaxScore : Nat := {vals['repMaxScore']}\ndef repMinScore : Int := -{vals['repMinScoreNeg']}"
    # upper clamp of sanitize_announce_interval (absent before the C21 repair)
    cap = "none"
    m = re.search(r"sanitize_announce_interval\s*\([^)]*\)\s*\{(.*?)\n\}", text, flags=re.S)
    if not m:
        gaps.append("sanitize_announce_interval: body not found")
        cap = "some 3600"
    else:
        mm = re.search(r"if\s*\(\s*value\s*>\s*(\w+)\s*\)\s*\{\s*return\s+(\w+)\s*;", m.group(1))
        if mm and mm.group(1) == mm.group(2) and mm.group(1) in ch:
            cap = f"some {ch[mm.group(1)]}"
    body += "\n/-- does sanitize_announce_interval clamp from above, and to what (seconds)? -/"
    body += f"\ndef announceIntervalCap : Option Nat := {cap}"
    write_generated(PID, body)
    return gaps


# ------------------------------------------------------------------------------- generator
INVALID = ["S", "E", "W", "G", "I", "T", "X", "x", "A"]
# explicit assigned-shard lists (the harness's manifests carry shares 1,2,3; 1,2 with flag T): members, non-members,
# aliases of carried indices mod 32 / 64 / 128, 0, 255, duplicates
ASSIGNED = ["1", "2", "3", "1,2,3", "3,3,2", "1,1", "-", "4", "0", "255", "64", "65", "66", "67", "129", "130", "131", "193", "194",
            "33", "34", "35", "97", "2,66", "1,65", "3,131,3", "1,2,3,4", "0,64", "128", "192", "63", "127"]
CONFIGS = [
    (15, 120, 4), (1, 1, 1), (2, 10, 3), (5, 5, 2), (1, 4, 2), (3, 9, 3), (0, 0, 0), (-5, -1, 0), (1, 3600, 5),
    (3600, 7200, 2), (4000, 10, 5), (10, 2, 3), (1, 2, 1), (60, 120, 2), (7, 30, 100),
]
HUGE = [(10**10, 2 * 10**10, 3), (9223372036, 1, 2), (9223372037, 9223372037, 1), (2**62, 2**62, 4), (5 * 10**9, 10**12, 2)]


def _cfg_line(rng, shape):
    if shape == "huge":
        mi, bw, bl = rng.choice(HUGE)
    elif shape == "burst":
        mi, bw, bl = rng.choice([(1, 4, 2), (1, 5, 3), (2, 10, 3), (1, 10, 4), (1, 3, 2)])
    elif shape == "lockout":
        mi, bw, bl = rng.choice([(1, 1, 1), (15, 120, 4), (5, 5, 2), (1, 300, 50)])
    elif shape == "relock":
        mi, bw, bl = rng.choice([(1, 1, 1), (1, 1, 1), (1, 300, 50), (15, 120, 4), (5, 5, 2)])
    elif rng.random() < 0.25:
        mi, bw, bl = rng.choice([0, 1, 2, 5, 30, 200, 3599, 3600, 3601, 10**5]), rng.choice([0, 1, 2, 7, 60, 3600, 3601, 10**6]), rng.choice([0, 1, 2, 3, 10])
    else:
        mi, bw, bl = rng.choice(CONFIGS)
    diff = rng.choice([0, 1, 2, 2, 3, 4])
    return f"cfg mi={mi} bw={bw} bl={bl} diff={diff}", (mi, bw, bl, diff)


def _sanitised(mi, bw, bl):
    mi = 1 if mi < 1 else min(mi, 3600)
    bw = 1 if bw <= 0 else min(bw, 3600)
    return mi, max(bw, mi), max(bl, 1)


def gen_case(rng, big=False) -> Case:
    shape = rng.choice(["mixed", "mixed", "steady", "burst", "lockout", "lockout", "relock", "relock", "invalid-kinds", "assigned", "huge", "cfgonly"])
    if shape == "cfgonly":
        ops = []
        for _ in range(rng.randint(1, 4)):
            ops.append(f"cfg mi={rng.choice([-1, 0, 1, 59, 3600, 3601, 10**9, 10**12])} bw={rng.choice([-7, 0, 1, 3599, 3600, 3601, 10**7, 10**13])} "
                       f"bl={rng.choice([0, 1, 4, 10**6])} diff={rng.choice([0, 6, 23, 24, 25, 200, 255])} cd={rng.choice([0, 5, 60])} hdiff={rng.choice([0, 4, 24, 25, 255])}")
        return Case(ops=ops, tag=shape)
    line, (rmi, rbw, rbl, diff) = _cfg_line(rng, shape)
    mi, bw, bl = _sanitised(rmi, rbw, rbl)
    ops = [line]
    if shape in ("mixed", "steady", "invalid-kinds") and rng.random() < 0.25:
        ops.append(f"hold {rng.choice(['c1', 'c2'])}")      # the node holds a chunk: announces must not re-key it
    npeers = rng.choice([1, 2, 3])
    peers = [f"p{i+1}" for i in range(npeers)]
    chunks = ["c1", "c2"][: rng.choice([1, 2])]
    now = 0
    marks = {p: [] for p in peers}      # times of this peer's announces (steering only)
    mtok = 0

    def ann(p, flags="-", ver=4, assigned=None):
        nonlocal mtok
        mtok = (mtok + 1) % 200
        if assigned is None and shape in ("mixed", "steady", "burst") and rng.random() < 0.12:
            assigned = rng.choice(ASSIGNED)
        mod = ""
        r = rng.random()
        if r < 0.12:
            mod = "n"
        elif r < 0.2:
            mod = "e"
        elif r < 0.24:
            mod = "ne"
        f = (flags if flags != "-" else "") + mod
        ops.append(f"ann {p} {rng.choice(chunks)} {mtok} {f or '-'} {ver}" + (f" as={assigned}" if assigned is not None else ""))
        marks[p].append(now)

    def adv(d):
        nonlocal now
        d = max(0, int(d))
        ops.append(f"adv {d}")
        now += d

    def adv_to_edge(p):
        """advance so that `now` lands on / one ns around an interesting deadline of peer p"""
        ts = marks[p][-6:]
        cands = []
        for t in ts:
            for off in (mi * S, bw * S, 120 * S, 180 * S):
                cands.append(t + off)
        cands = [c for c in cands if c + 1 >= now]
        if not cands:
            return adv(rng.choice([0, 1, S, mi * S]))
        target = rng.choice(sorted(cands)[:5]) + rng.choice([-1, 0, 0, 1])
        adv(target - now)

    def bad_flags():
        k = rng.choice(INVALID)
        if rng.random() < 0.15:
            k += rng.choice(INVALID)
        return k

    n = rng.randint(8, 30) if not big else rng.randint(40, 120)
    if shape == "steady":
        p = peers[0]
        for _ in range(n):
            ann(p)
            adv(mi * S + rng.choice([-1, 0, 0, 1, -S, S]))
    elif shape == "burst":
        p = peers[0]
        for _ in range(n):
            ann(p)
            if rng.random() < 0.6:
                adv(mi * S + rng.choice([0, 0, 1]))
            else:
                adv_to_edge(p)
    elif shape == "lockout":
        p = peers[0]
        for rounds in range(rng.choice([1, 2, 3])):
            gaps = rng.choice([[0, 0], [1, 1], [60 * S, 60 * S], [60 * S, 60 * S - 1], [60 * S, 60 * S + 1], [119 * S, S], [120 * S, 0],
                               [120 * S + 1, 0], [30 * S, 100 * S], [S, 119 * S + 1]])
            ann(p, bad_flags())
            for g in gaps:
                adv(g)
                if rng.random() < 0.15:
                    ann(rng.choice(peers))               # another announce in between (maybe an accept)
                ann(p, bad_flags())
            for _ in range(rng.randint(1, 4)):
                if rng.random() < 0.7:
                    adv(rng.choice([180 * S - 1, 180 * S, 180 * S + 1, 90 * S, 179 * S, S, 0]))
                else:
                    adv_to_edge(p)
                ann(p, "-" if rng.random() < 0.8 else bad_flags())
    elif shape == "relock":
        # second and third lockout cycles: lock, let the lockout run out (with or without an accepted announce in
        # between, with rejections straddling the expiry), three fresh rejections, then probe with valid announces
        def three_rejections(p):
            gaps = rng.choice([[0, 0], [1, 1], [S, S], [30 * S, 30 * S], [60 * S, 60 * S], [119 * S, S], [60 * S, 60 * S - 1],
                               [120 * S, 0], [0, 120 * S], [100 * S, 20 * S + 1]])
            ann(p, bad_flags())
            for g in gaps:
                adv(g)
                if rng.random() < 0.2 and len(peers) > 1:
                    q = rng.choice([x for x in peers if x != p])
                    ann(q, "-" if rng.random() < 0.6 else bad_flags())
                ann(p, bad_flags())
            return now                                    # time of the third rejection

        p = peers[0]
        cycles = rng.choice([2, 2, 3])
        for c in range(cycles):
            t3 = three_rejections(p)
            if c == cycles - 1:
                break
            # run the lockout out: land at / around its expiry
            expiry = t3 + 180 * S
            style = rng.choice(["past", "past", "edge", "straddle", "accepted", "accepted-late"])
            if style == "past":
                adv(expiry - now + rng.choice([0, 1, S, 50 * S, 400 * S]))
            elif style == "edge":
                adv(expiry - now + rng.choice([-1, 0, 1]))
            elif style == "straddle":
                adv(expiry - now - 1)
                ann(p, bad_flags())                       # still locked: not counted
                adv(rng.choice([1, 1, 2]))
            elif style == "accepted":
                adv(expiry - now + rng.choice([0, 1, S]))
                ann(p)                                    # accepted: clears the record
                adv(rng.choice([mi * S, mi * S + 1, 20 * S]))
            else:
                adv(expiry - now + rng.choice([0, S]))
                if len(peers) > 1:
                    ann(peers[1])                         # somebody else is accepted, p is not
                adv(rng.choice([0, S, 200 * S]))
        # probe: the peer must be locked for 180 s after the last third rejection
        for _ in range(rng.randint(1, 4)):
            adv(rng.choice([0, 1, S, mi * S, 60 * S, 90 * S, max(0, t3 + 180 * S - now - 1), max(0, t3 + 180 * S - now),
                            max(0, t3 + 180 * S - now + 1)]))
            ann(rng.choice(peers) if rng.random() < 0.25 else p, "-" if rng.random() < 0.85 else bad_flags())
    elif shape == "assigned":
        # otherwise admissible announces whose assigned-shard list is the only thing that varies; spaced so that
        # neither the throttle nor a lockout (two good ones between bad ones) interferes
        for lst in rng.sample(ASSIGNED, rng.randint(6, 12)):
            p = rng.choice(peers)
            ann(p, rng.choice(["-", "-", "-", "e", "T"]), rng.choice([4, 4, 3]), assigned=lst)
            adv(max(mi, 1) * S + rng.choice([0, 1, 130 * S]))
            if rng.random() < 0.5:
                ann(p, "-", 4, assigned=rng.choice(["1", "2,3", "-"]))
                adv(max(mi, 1) * S)
    elif shape == "invalid-kinds":
        for k in rng.sample(INVALID, len(INVALID)):
            p = rng.choice(peers)
            ann(p, k, rng.choice([4, 4, 3]))
            adv(rng.choice([mi * S, 200 * S, S]))
            ann(p)
            adv(rng.choice([mi * S, 181 * S]))
    else:  # mixed / huge
        for _ in range(n):
            r = rng.random()
            p = rng.choice(peers)
            if r < 0.45:
                ann(p, "-", rng.choice([4, 4, 4, 3, 3, 2, 1, 5, 0]))
            elif r < 0.65:
                ann(p, bad_flags(), rng.choice([4, 4, 3, 2]))
            elif r < 0.9:
                adv_to_edge(p)
            else:
                adv(rng.choice([0, 1, S - 1, S, mi * S, bw * S, 120 * S, 180 * S, 3600 * S + 1]))
    return Case(ops=ops, tag=shape)


def generate(ctx, budget):
    return [gen_case(ctx.rng, ctx.tier == "thorough" and i % 5 == 0) for i in range(budget)]


def nontrivial(r: CaseResult) -> bool:
    """throttle rule of DESIGN §9: at least one accept and one refusal"""
    anns = [o for op, o in zip(r.case.ops, r.impl) if op.startswith("ann ")]
    acc = [o for o in anns if " chg=" in o and " chg=0000" not in o]
    rej = [o for o in anns if " chg=0000" in o]
    return bool(acc) and bool(rej)


def signature(res: CaseResult) -> str:
    """stable signatures: sanitizer messages carry the operands, keep only the kind"""
    if not res.viols and res.crashed:
        head = res.crashed.split("\n", 1)[0]
        for kind in ("signed-integer-overflow", "heap-buffer-overflow", "heap-use-after-free", "stack-buffer-overflow"):
            if kind in head:
                return "crash:" + kind
    return default_signature(res)


def spec() -> Spec:
    return Spec(
        pid=PID,
        proof_modules=["EphVerif.Proofs.C21"],
        driver="drv_c21",
        harness=harness,
        generate=generate,
        extract=extract,
        nontrivial=nontrivial,
        post=post,
        signature=signature,
        budget={"quick": 550, "thorough": 7000},
        search_budget={"quick": 2500, "thorough": 20000},
        rule="timed announce histories (incl. second and third lockout cycles of one peer, with rejections straddling the lockout expiry) from 1-3 peers over 1-2 chunks against a real Node under the virtual clock; throttle "
             "configurations incl. zero, negative, interval > window, > 1 h and values whose nanosecond conversion overflows; every "
             "invalidity kind separately and in pairs; advances aimed at min-interval, window, 120 s and 180 s edges (-1 ns, 0, +1 ns); "
             "distinct = sha256 of the op list; non-trivial = at least one announce changed state and one was refused",
        trusted_base=["virtual clock by link-time interposition of steady_clock/system_clock::now",
                      "validity facts measured with Node.cpp's private validators when they exist (VERIF_INTERNALS=1), otherwise through an oracle Node / the property's own statement (noted in the evidence)",
                      "harness construction of payloads from flag letters (the facts are re-measured with the real validators and compared with the model's)",
                      "std::deque / std::unordered_map behaviour"],
        assumptions=["PoW difficulty <= 4 in generated histories (the solver is the real one); difficulty clamping is covered by cfg-only cases",
                     "steady clock monotone (advances are non-negative)"],
    )


def run(tier, seed, replay=None):
    return standard_check(spec(), tier, seed, replay)
