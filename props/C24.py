"""C24 — fetch scheduling respects limits, backs off, and always terminates."""
from tools.vlib import *
from props.C23 import sched_harness, config_consts, aimed_advance, SECOND

PID = "C24"
READY = True
MANIFEST = {
    "level_text": "Lean 4 theorems about a model of Node's assigned-fetch scheduler (schedule_assigned_fetch, "
                  "process_pending_fetches with its two loops and the priority sort, dispatch_pending_fetch, "
                  "schedule_next_fetch_attempt, can_dispatch_fetch, note_dispatch_start/end, clear_pending_fetch), for every "
                  "configuration, every history of announces (re-announces of an in-flight fetch included), arrivals and ticks at "
                  "arbitrary steady/wall clock readings, and every answer of the environment (chunk held, request deliverable, "
                  "provider count): no peer's in-flight counter or actual number of in-flight requests exceeds "
                  "fetch_max_parallel_requests; the counter equals the number of in-flight entries of that peer (zero when none is "
                  "outstanding); a failed attempt k is followed by a delay of min(base*2^(k-1), cap) with cap = min(max_backoff, "
                  "256*base) (the 2^8 is the code's exponent clamp, regenerated), which starts at the initial back-off, doubles while "
                  "below the cap and never decreases; after every scheduler pass no entry remains whose chunk is held, whose manifest "
                  "has expired or whose attempts are exhausted, and an arrival removes the entry at once; every recorded expiry is at "
                  "most announce time + max_manifest_ttl, so the first tick at or after that horizon leaves no pending fetch. The "
                  "model is tied to the code by regenerated constants (Config defaults, exponent clamp) and by a differential run of "
                  "the real Node (virtual clock, socketpair-planted sessions, real manifests and ciphertexts) against the compiled "
                  "Lean model, with the Lean specification judging every line the implementation produces.",
    "level_note": "Trusted: Lean kernel; the hand transcription of the scheduler into Lean (checked only by the differential run, "
                  "which compares request frames, every pending entry's peer / attempts / in-flight flag / next-attempt delay / "
                  "recorded expiry / provider count / last dispatch, the per-peer counters and the set of held chunks after every "
                  "op); the harness (calls schedule_assigned_fetch after caching the manifest as handle_announce does, or "
                  "handle_announce itself; handle_chunk; tick) and its canonicalisation; the driver's environment model (manifest_ttl "
                  "window for accepting an arriving chunk, stored-chunk lifetime, provider directory with non-expiring entries). "
                  "std::sort ties (two fetches created at the same instant) are outside the correspondence run; the theorems hold for "
                  "every order. The termination theorem assumes announces as handle_announce admits them (manifest not yet expired). "
                  "Threads and locking are out of scope (C36).",
    "technique": "Lean 4 invariant proof (induction over histories) + arithmetic lemmas, and model/implementation differential correspondence with a Lean monitor",
}


def extract():
    vals, gaps = config_consts({"fetch_retry_initial_backoff", "fetch_retry_max_backoff", "fetch_retry_success_interval",
                                "fetch_retry_attempt_limit", "fetch_max_parallel_requests", "fetch_availability_refresh",
                                "min_manifest_ttl", "max_manifest_ttl"})
    more, g2 = extract_consts([
        Const("kBackoffExponentClamp", "src/core/Node.cpp",
              r"clamped_exponent\s*=\s*std::min<std::size_t>\(\s*exponent\s*,\s*([^)]+)\)", default=8,
              doc="overflow guard on the back-off exponent"),
        Const("kBackoffFactorBase", "src/core/Node.cpp",
              r"factor\s*=\s*static_cast<int>\(\s*([0-9]+)\s*<<\s*clamped_exponent\s*\)", default=1,
              doc="the doubling: factor = 1 << exponent"),
    ])
    vals.update(more)
    write_generated(PID, lean_consts(vals))
    return gaps + g2


def backoff_marks(now, base, maxb, succ):
    b = base if base > 0 else 1
    out = [now + (succ if succ > 0 else 1) * SECOND]
    for j in range(7):
        d = b * (1 << j)
        if maxb > 0 and d > maxb:
            d = maxb
        out.append(now + max(d, 1) * SECOND)
    return out


def gen_case(rng, big: bool) -> Case:
    shape = rng.choice(["retry", "retry", "reannounce", "reannounce", "limit", "expiry", "arrive", "priority", "hann", "mixed"])
    base = rng.choice([3, 3, 1, 2, 0, 5])
    maxb = rng.choice([60, 60, 2, 5, 0, 12, 1000])
    succ = rng.choice([15, 15, 1, 4, 0])
    limit = rng.choice([1, 2, 3, 4, 5, 5, 0, 7]) if shape != "retry" else rng.choice([1, 2, 3, 4, 5, 0, 12])
    par = rng.choice([0, 1, 2, 3, 3]) if shape != "limit" else rng.choice([1, 2, 3])
    refresh = rng.choice([10, 10, 0, 3])
    ops = [f"cfg fetch_retry_initial_backoff {base}", f"cfg fetch_retry_max_backoff {maxb}",
           f"cfg fetch_retry_success_interval {succ}", f"cfg fetch_retry_attempt_limit {limit}",
           f"cfg fetch_max_parallel_requests {par}", f"cfg fetch_availability_refresh {refresh}"]
    if rng.random() < 0.12:
        ops = []                              # all defaults (3 s, 60 s, 15 s, 5 attempts, 3 parallel)
        base, maxb, succ, limit, par, refresh = 3, 60, 15, 5, 3, 10
    npeers = rng.choice([1, 2, 3]) if shape != "limit" else rng.choice([1, 2])
    peers = [f"p{i+1}" for i in range(npeers)]
    nchunks = {"retry": rng.choice([1, 1, 2]), "limit": rng.choice([3, 4, 5]), "priority": rng.choice([3, 4])}.get(shape, rng.choice([1, 2, 3]))
    chunks = [f"c{i+1}" for i in range(nchunks)]
    now = 0
    marks = []
    ann_times = set()
    last_hann = {}
    linked = set()
    for p in peers:
        if rng.random() < 0.9:
            ops.append(f"key {p}")
            up = rng.random() < (0.25 if shape == "retry" else 0.8)
            if up:
                ops.append(f"link {p}")
                linked.add(p)
    if shape == "priority":
        for c in chunks:
            for p in rng.sample(["p7", "p8", "p9"], rng.randint(0, 3)):
                ops.append(f"prov {c} {p}")

    def expiry_choice():
        r = rng.random()
        horizon = now // SECOND
        if shape == "expiry" or r < 0.25:
            return horizon + rng.choice([1, 2, 5, 10, 29, 30, 31, 45, 90])
        if r < 0.35:
            return rng.choice([999_999_999, 21600 + horizon, 21601 + horizon, 21599 + horizon, 100_000])   # far future / around the cap
        if r < 0.40:
            return horizon - rng.choice([0, 1, 100])                                                        # already expired
        return horizon + rng.choice([120, 300, 3600, 7200])

    announced = []
    n = rng.randint(6, 28) if not big else rng.randint(30, 110)
    for _ in range(n):
        r = rng.random()
        if r < 0.30:
            c = rng.choice(chunks)
            if announced and rng.random() < (0.7 if shape == "reannounce" else 0.3):
                c = rng.choice(announced)[0]
            p = rng.choice(peers)
            x = expiry_choice()
            if now in ann_times:
                ops.append("adv 1")
                now += 1
            ann_times.add(now)
            use_hann = shape in ("hann", "mixed") and rng.random() < (0.7 if shape == "hann" else 0.2) \
                and now - last_hann.get(p, -10**18) >= 41 * SECOND and x * SECOND - now >= 100 * SECOND
            if use_hann:
                last_hann[p] = now
                ops.append(f"hann {c} {p} {x}")
            else:
                ops.append(f"ann {c} {p} {x}")
            announced.append((c, p))
            marks += backoff_marks(now, base, maxb, succ) + [x * SECOND, (x - 30) * SECOND, now + 21600 * SECOND]
        elif r < 0.50:
            ops.append("tick")
            marks += backoff_marks(now, base, maxb, succ)[:4]
        elif r < 0.78:
            d = aimed_advance(rng, now, marks)
            ops.append(f"adv {d}")
            now += d
        elif r < 0.88:
            if announced:
                c, p = rng.choice(announced)
                if rng.random() < 0.2:
                    p = rng.choice(peers)
                ops.append(f"arr {c} {p} {rng.choice(['good', 'good', 'bad'])}")
                marks += [now + 21600 * SECOND]
            else:
                ops.append("tick")
        elif r < 0.95:
            p = rng.choice(peers)
            ops.append(rng.choice([f"unlink {p}", f"link {p}", f"link {p}", f"key {p}"]))
        else:
            c = rng.choice(chunks)
            ops.append(rng.choice([f"prov {c} {rng.choice(['p7', 'p8', 'p9'])}", f"unprov {c} {rng.choice(['p7', 'p8', 'p9'])}"]))
    # epilogue: let everything run out
    ops.append("tick")
    future = [m for m in marks if m > now]
    if future and rng.random() < 0.7:
        d = max(future) - now + rng.choice([0, 1])
        if d < 10**15:
            ops += [f"adv {d}", "tick"]
    return Case(ops=ops, tag=shape)


def generate(ctx, budget):
    return [gen_case(ctx.rng, ctx.tier == "thorough" and i % 5 == 0) for i in range(budget)]


def nontrivial(r: CaseResult) -> bool:
    """an attempt was made (request sent or failed attempt recorded) and a pending fetch was removed afterwards"""
    had = False
    removed = False
    attempted = False
    for o in r.impl:
        if " | pf=" not in o:
            continue
        pf = o.split(" | pf=")[1].split(" ")[0]
        if pf != "-":
            had = True
            attempted = attempted or any(it.split(":")[2] != "0" for it in pf.split(";"))
        elif had:
            removed = True
    return attempted and removed


def spec() -> Spec:
    return Spec(
        pid=PID,
        proof_modules=["EphVerif.Proofs.C24"],
        driver="drv_c24",
        harness=sched_harness,
        harness_args=["c24"],
        generate=generate,
        extract=extract,
        nontrivial=nontrivial,
        budget={"quick": 800, "thorough": 7000},
        search_budget={"quick": 1800, "thorough": 10000},
        rule="random histories of ann/hann/arr/tick/adv/link/unlink/prov over 1-3 providers and 1-5 chunks; initial back-off "
             "0/1/2/3/5 s, maximum 0/1/2/5/12/60/1000 s, success interval 0/1/4/15 s, attempt limits 0..7 and 12, parallel limit "
             "0..3; re-announces of in-flight fetches by the same and by another provider; manifests expiring mid-retry, already "
             "expired, and far in the future (around announce + 6 h); advances aimed at back-off, success-interval and expiry "
             "deadlines (-1 ns, 0, +1 ns); no two announces at the same instant; distinct = sha256 of the op list; non-trivial = "
             "an attempt was made and a pending fetch was removed",
        trusted_base=["virtual clock by link-time interposition of steady_clock/system_clock::now",
                      "Session objects planted into SessionManager::sessions_ over socketpair(2); frames decrypted with the "
                      "peer's session key and decoded with protocol::decode_signed",
                      "driver-side environment model: manifest_ttl acceptance window (>= 30 s left), stored-chunk lifetime, provider directory"],
        assumptions=["single-threaded use of Node (no transport threads are started)",
                     "announces carry no dialable endpoint (the request_chunk fallback cannot connect), so a request is "
                     "deliverable iff the provider has a key and a planted session",
                     "time arithmetic does not overflow int64 nanoseconds in generated cases (C18 covers manifest expiry conversion)"],
    )


def run(tier, seed, replay=None):
    return standard_check(spec(), tier, seed, replay)
