"""C05 — a cleanup tick removes all expired state and reports each expiry once."""
import re

from tools.vlib import *

PID = "C05"
READY = True
MANIFEST = {
    "level_text": "Lean 4 theorems about a model of the node's expiry bookkeeping (chunk store x provider locators x routing table x key-share "
                  "table x manifest cache x swarm plans x notification queue; the chunk-store, locator and routing parts are the models proved "
                  "for C01/C04, C06 and C07, imported), for every configuration, start time, wall-clock offset and every history of clock "
                  "advances, store_chunk, ingest_manifest, handle_announce, the node's own re-announcement, fetch_chunk lookups, provider-count "
                  "probes, ticks, drains and audits (any length; TTLs of any sign, any manifest expiry, any tie-break of the provider truncation): "
                  "C05.clean - after any history every chunk, locator, provider contact (locator holder and routing contact), key-share record, "
                  "cached manifest and swarm plan the node holds expires strictly after the most recent cleanup, every plan belongs to a cached "
                  "manifest, and the node is announced only for chunks it still stores; C05.clean_after_tick - right after a tick whose cleanup "
                  "branch runs at T (it runs iff cleanup_interval has elapsed, C05.tick_cleans_iff), and after anything else that happens at the "
                  "same instant, nothing with expiry <= T is held, the announcement of every expired local chunk is withdrawn (also when the "
                  "announcement itself would have lived longer, C05.withdrawn) and the TTL audit reports no expired local chunk, locator or "
                  "contact and no orphaned announcement; C05.once - for every id the number of its occurrences in the concatenation of all "
                  "drained notifications (plus the still queued ones) equals the number of reports of an abstract node that knows only stores, "
                  "ticks and the clock and reports an id at a cleanup iff the deadline of its current copy has passed, then forgets the copy - "
                  "so whether a lookup, a provider probe or the sweep noticed the expiry first cannot matter; an id is never reported more "
                  "often than it was stored (notified_le_stores), and after a cleanup no copy is due (spec_cleanup). The model is tied to the "
                  "source by regenerated comparison operators / presence of each step of the cleanup branch (C05.constants) and by a "
                  "differential run of a real Node (no listeners) under a virtual clock against the compiled Lean model, in which the Lean "
                  "specification judges every dump of the implementation's structures, every audit report at a cleanup instant and every "
                  "drained notification list. A second proof module (SystemLifetime) composes these results with C01, C02, C03 and C06 "
                  "for a node built from any raw configuration through the generated sanitize_config: every chunk, locator, contact and "
                  "key-share record has lastCleanup < deadline <= creation + max_ttl <= creation + 24 h, is unreadable from its deadline on "
                  "(C01.reads_exact / dead_unreachable, C06.refines_at on projected histories) and physically absent after the first cleanup "
                  "at or after it (ephemerality_bound, chunk_ephemeral, removed_by_first_cleanup); nothing with deadline <= T reappears after "
                  "a cleanup at T (no_resurrection, quiet_frame); #notifications of an id = #store epochs that expired and were swept "
                  "(notification_accounting); plus two finding-level observations proved as theorems: cleanup_interval is not sanitised "
                  "(stale_forever) and a cached remote manifest lives until its own publisher-chosen expiry (remote_manifest_outlives_day).",
    "level_note": "Trusted: Lean kernel; the hand transcription of tick / store_chunk / ingest_manifest / handle_announce / announce_chunk / "
                  "fetch_chunk / count_known_providers / rebalance_swarm_plans / audit_ttl into Lean (checked only by the differential run; 9 "
                  "hand-made mutants of the anchored code were all caught); the imported C01/C06/C07 models; std::unordered_map, the mutexes; "
                  "the harness (reads the private structures with -fno-access-control, prints expiries relative to the clock) and its "
                  "canonicalisation (every list sorted as strings on both sides). Modelled, not verified: manifests, key shares and plans are "
                  "reduced to their lifetimes; sender admission of handle_announce (PoW, throttle, lock-out: C21) is switched off in the "
                  "harness and assumed passed in the model; whether an arriving manifest stands for the same content and key as a held chunk "
                  "(repair C11-1) is a Boolean input of the model's ingest/announce (the differential run derives it from key/content ids it "
                  "tracks for the harness's manifests); announcing peers are other than the node itself (hypothesis OpsWf); the fetch "
                  "scheduler (C24) is not modelled - a dispatched pending fetch is a provider probe plus a re-ingest of its manifest, both "
                  "operations of the model, so every schedule is a quantified history, and the differential run takes the implementation's "
                  "dispatch decisions as a validated hint; receive_chunk (replica arrival), uploads, the swarm role ledger and session keys are "
                  "outside. C05.once needs the sanitised TTL window 1 <= min <= max (C02). 'A chunk that is stored again after its deadline but "
                  "before any cleanup saw it' counts as replaced, not expired (no notification; reporting it would withdraw the announcement of "
                  "the live copy). The audit clause covers the three expired lists and orphaned announcements; a *missing* own announcement "
                  "(possible when 20 longer-lived providers crowd the node out of its own locator, C06's truncation) is compared but not judged. "
                  "Steady and wall clock advance in lock-step with a constant offset; no real time passes inside one call (the skew between "
                  "put and announce_chunk is exercised by an explicit re-announcement with a longer TTL). Until "
                  "fixes/C05-prune-expired-manifests.patch is committed, ./check.py C05 on /repo reports exactly defect C05-1 "
                  "(VIOLATION expired-manifest, no obligation discharged because C05.constants no longer holds); the patch is committed as ef4ef8f.",
    "technique": "Lean 4 invariant + refinement proof over histories (induction), product of imported component models + model/implementation "
                 "differential correspondence with Lean monitor",
}

S = 1_000_000_000
START = 1_000_000_000_000
WALL0 = 1_700_000_000 * S


def harness():
    return build_harness("cleanup_h", "harness/cleanup_h.cpp", ALL_CORE_SOURCES, includes_repo_cpp=False, vclock=True,
                         libs=("-lcurl", "-lpthread"))


# --------------------------------------------------------------------------------------------
# (T) extraction
# --------------------------------------------------------------------------------------------

def _body(text: str, start_pat: str, end_pat: str):
    m = re.search(start_pat, text)
    if not m:
        return None
    e = re.search(end_pat, text[m.end():])
    return text[m.start(): m.end() + (e.start() if e else len(text) - m.end())]


def extract():
    """Comparison operators and the presence of each step of the cleanup branch, regenerated from the working tree.
    A function that cannot be located is a translator gap (default = the repaired code); a step that is missing from a
    function that *was* located is transcribed as missing (the model follows the code, `constants` stops checking)."""
    from tools.vlib import _strip_comments
    gaps = []
    nd = _strip_comments((REPO / "src/core/Node.cpp").read_text(errors="replace"))
    kt = _strip_comments((REPO / "src/dht/KademliaTable.cpp").read_text(errors="replace"))
    tick = _body(nd, r"void\s+Node::tick\s*\(\s*\)\s*\{", r"\n\}\n")
    audit = _body(nd, r"Node::TtlAuditReport\s+Node::audit_ttl\s*\(\s*\)\s*const\s*\{", r"\n\}\n")
    sweep = _body(kt, r"void\s+KademliaTable::sweep_expired\s*\(\s*\)\s*\{", r"\n\}\n")
    shrec = _body(kt, r"KademliaTable::shard_record\s*\([^)]*\)\s*const\s*\{", r"\n\}\n")
    vals = {}

    def op(name, body, pattern, where):
        if body is None:
            gaps.append(f"{name}: {where} not found (default >=)")
            vals[name] = True
            return
        m = re.search(pattern, body, flags=re.S)
        if not m:
            gaps.append(f"{name}: pattern not found in {where} (default >=)")
            vals[name] = True
        else:
            vals[name] = m.group(1) == ">="

    def present(name, body, pattern, where):
        if body is None:
            gaps.append(f"{name}: {where} not found (default present)")
            vals[name] = True
        else:
            vals[name] = re.search(pattern, body, flags=re.S) is not None

    op("tickGateIsGe", tick, r"if\s*\(\s*elapsed\s*(>=|>)\s*config_\.cleanup_interval\s*\)", "Node::tick")
    present("tickNotifiesInSweepLoop", tick, r"for\s*\([^)]*expired_chunks\s*\).*?cleanup_notifications_\.push_back\(\s*key\s*\)", "Node::tick")
    present("tickWithdrawsSelf", tick, r"for\s*\([^)]*expired_chunks\s*\).*?dht_\.withdraw_contact\(\s*chunk_id\s*,\s*id_\s*\)", "Node::tick")
    present("tickSweepsDht", tick, r"dht_\.sweep_expired\(\s*\)", "Node::tick")
    present("tickPrunesManifests", tick, r"manifest_cache_\.erase\(", "Node::tick")
    if tick is not None and vals["tickPrunesManifests"]:
        op("manifestPruneIsGe", tick, r"\w+\s*(>=|>)\s*it->second\.expires_at", "Node::tick")
    else:
        vals["manifestPruneIsGe"] = True
    present("tickPrunesPlans", tick, r"swarm_plans_\.erase\(", "Node::tick")
    op("shardSweepIsGe", sweep, r"shard_table_\.begin\(\).*?if\s*\(\s*now\s*(>=|>)\s*it->second\.expires_at", "KademliaTable::sweep_expired")
    op("locatorSweepIsGe", sweep, r"now\s*(>=|>)\s*locator\.expires_at", "KademliaTable::sweep_expired")
    op("contactExpiredIsGe", kt, r"bool\s+expired\s*\([^)]*\)\s*\{\s*return\s+now\s*(>=|>)\s*contact\.expires_at", "KademliaTable.cpp expired()")
    op("shardRecordExpiredIsGe", shrec, r"if\s*\(\s*now\s*(>=|>)\s*it->second\.expires_at", "KademliaTable::shard_record")
    op("auditLocalIsGe", audit, r"now\s*(>=|>)\s*entry\.expires_at", "Node::audit_ttl")
    op("auditLocatorIsGe", audit, r"now\s*(>=|>)\s*locator\.expires_at", "Node::audit_ttl")
    op("auditContactIsGe", audit, r"now\s*(>=|>)\s*holder\.expires_at", "Node::audit_ttl")
    # repair C11-1 (not a C05 obligation: the model merely follows whichever behaviour the tree has)
    ingest = _body(nd, r"bool\s+Node::ingest_manifest\s*\([^)]*\)\s*\{", r"\n\}\n")
    announce = _body(nd, r"void\s+Node::handle_announce\s*\(", r"\n\}\n")
    present("ingestGuardsHeld", ingest, r"manifest_keeps_held_chunk_readable\s*\(", "Node::ingest_manifest")
    present("announceGuardsHeld", announce, r"manifest_keeps_held_chunk_readable\s*\(", "Node::handle_announce")
    order = ["tickGateIsGe", "tickNotifiesInSweepLoop", "tickWithdrawsSelf", "tickSweepsDht", "tickPrunesManifests", "manifestPruneIsGe",
             "tickPrunesPlans", "shardSweepIsGe", "locatorSweepIsGe", "contactExpiredIsGe", "shardRecordExpiredIsGe", "auditLocalIsGe",
             "auditLocatorIsGe", "auditContactIsGe", "ingestGuardsHeld", "announceGuardsHeld"]
    write_generated(PID, "\n".join(f"def {k} : Bool := {'true' if vals[k] else 'false'}" for k in order))
    # the imported models read their own generated constants
    import props.C01 as c01
    import props.C06 as c06
    import props.C07 as c07
    gaps += c01.extract_store() or []
    gaps += c06.extract() or []
    gaps += c07.extract() or []
    # Proofs/SystemLifetime.lean composes C02/C03 (proved over the generated sanitise / TTL functions)
    from tools.extract_c02 import write_generated_c02
    gaps += write_generated_c02() or []
    return gaps


# --------------------------------------------------------------------------------------------
# generator
# --------------------------------------------------------------------------------------------

CONFIGS = [(3, 2, 10), (2, 1, 5), (9, 2, 4), (30, 30, 60), (1, 1, 1), (4, 3, 8), (2, 2, 3)]


class Track:
    """what the generator knows about the history so far, to aim the clock"""

    def __init__(self, rng, cfg, ci, rb, off):
        self.rng = rng
        d, mn, mx = cfg
        self.mn, self.mx = mn, max(mn, mx)
        self.d = min(max(d, self.mn), self.mx)
        self.ci, self.rb, self.off = ci, rb, off
        self.now = START
        self.last_cleanup = START
        self.local = {}          # chunk -> deadline (steady ns)
        self.deadlines = []      # every other deadline we know of (steady ns)
        self.ops = []
        if off != WALL0:
            self.ops.append(f"wall {off}")
        self.ops.append(f"cfg {d} {mn} {mx} {ci} {rb}")

    def eff(self, ttl):
        e = ttl if ttl > 0 else self.d
        return max(self.mn, min(e, self.mx))

    def wall(self):
        return self.now + self.off

    def store(self, c, ttl):
        self.ops.append(f"store {c} {ttl}")
        self.local[c] = self.now + self.eff(ttl) * S
        self.deadlines.append(self.local[c])

    def expiry_s(self, delta=None):
        base = self.wall() // S
        if delta is None:
            delta = self.rng.choice([-1, 0, 1, self.mn - 1, self.mn, self.mn, self.mn + 1, (self.mn + self.mx) // 2, self.mx, self.mx + 1, self.mx + 5])
        return base + delta

    def note_manifest(self, e_s):
        rem = (e_s * S - self.wall()) // S
        if e_s * S > self.wall() and rem >= self.mn:
            self.deadlines.append(e_s * S - self.off)                       # the manifest itself
            self.deadlines.append(self.now + min(rem, self.mx) * S)         # its key shares
            return min(rem, self.mx)
        return None

    def src(self, p_self=0.3):
        """which manifest: the remote publisher's (`o`) or the one this node has cached for the id (`s`)"""
        return " s" if self.rng.random() < p_self else self.rng.choice(["", " o"])

    def ingest(self, c, e_s=None, src=None):
        e_s = self.expiry_s() if e_s is None else e_s
        self.ops.append(f"ingest {c} {e_s}{self.src() if src is None else src}")
        self.note_manifest(e_s)

    def announce(self, c, p, ttl=None, asg=0, e_s=None, src=None):
        e_s = self.expiry_s() if e_s is None else e_s
        t = self.note_manifest(e_s)
        if ttl is None:
            ttl = self.rng.choice([0, 1, self.mn, self.mx, (t or 1) - 1, (t or 1), (t or 1) + 1, -1])
        self.ops.append(f"announce {c} {e_s} {p} {ttl} {asg}{self.src() if src is None else src}")
        if t is not None:
            a = ttl if ttl > 0 else t
            a = max(self.mn, min(min(a, t), self.mx))
            self.deadlines.append(self.now + a * S)

    def reannounce(self, c, ttl):
        self.ops.append(f"reannounce {c} {ttl}")
        self.deadlines.append(self.now + ttl * S)

    def adv(self, d):
        d = max(0, d)
        self.ops.append(f"adv {d}")
        self.now += d

    def adv_to(self, t):
        self.adv(t - self.now)

    def gate_edge(self):
        return self.last_cleanup + self.ci * S

    def targets(self):
        out = []
        for dl in self.deadlines:
            out += [dl - 1, dl, dl, dl + 1]
        g = self.gate_edge()
        out += [g - 1, g, g + 1]
        return sorted(t for t in out if t >= self.now)

    def adv_aimed(self):
        t = self.targets()
        if t and self.rng.random() < 0.85:
            self.adv_to(self.rng.choice(t[:8]))
        else:
            self.adv(self.rng.choice([0, 1, S // 2, S, 3 * S]))

    def tick(self):
        self.ops.append("tick")
        if self.now - self.last_cleanup >= self.ci * S:
            self.last_cleanup = self.now
            return True
        return False

    def op(self, s):
        self.ops.append(s)

    def settle(self):
        """make the next tick a cleanup tick without moving past more than necessary"""
        if self.now < self.gate_edge():
            self.adv_to(self.gate_edge())

    def epilogue(self):
        horizon = max(self.deadlines + [self.now]) + 1
        for _ in range(3):
            t = [x for x in self.targets() if x > self.now]
            if not t:
                break
            self.adv_to(self.rng.choice(t[:4]))
            self.settle() if self.rng.random() < 0.6 else None
            self.tick()
            self.op("drain") if self.rng.random() < 0.5 else None
            self.op("audit")
        if self.now < horizon:
            self.adv_to(horizon)
        self.settle()
        self.tick()
        self.op("audit")
        self.op("drain")
        self.adv(self.ci * S if self.ci > 0 else S)
        self.tick()
        self.op("drain")


def gen_case(rng, shape, big=False) -> Case:
    cfg = rng.choice(CONFIGS)
    ci = rng.choice([1, 1, 2, 3, 5, 0])
    rb = rng.choice([2, 3, 7, 1800])
    off = rng.choice([WALL0, WALL0, WALL0 + 1, WALL0 + 999_999_999, WALL0 + 400_000_000])
    t = Track(rng, cfg, ci, rb, off)
    chunks = ["c1", "c2", "c3", "c4"]
    peers = ["p1", "p2", "p3"]
    ttls = [0, -1, 1, t.mn - 1, t.mn, t.mn, t.mn + 1, t.mx, t.mx + 1]

    if shape == "lookup-before-tick":
        c = rng.choice(chunks)
        t.store(c, t.mn)
        if rng.random() < 0.5:
            t.announce(c, rng.choice(peers))
        t.adv_to(t.local[c] + rng.choice([-1, 0, 0, 1, S // 2]))
        for _ in range(rng.choice([1, 1, 2])):
            t.op(rng.choice([f"lookup {c}", f"lookup {c}", f"probe {c}"]))
        if rng.random() < 0.5:
            t.op("audit")
        if rng.random() < 0.7:
            t.settle()
        t.tick()
        t.op("audit")
        t.op("drain")
    elif shape == "same-tick":
        k = rng.choice([2, 3, 4])
        ttl = rng.choice([t.mn, t.mn, t.mx])
        for c in chunks[:k]:
            t.store(c, ttl)
        for c in chunks[k:] + [chunks[0]]:
            if rng.random() < 0.6:
                t.ingest(c, t.expiry_s(rng.choice([t.eff(ttl) - 1, t.eff(ttl), t.eff(ttl) + 1, t.mn])))
        if rng.random() < 0.5:
            t.op(f"lookup {rng.choice(chunks[:k])}")
        t.adv_to(t.local[chunks[0]] + rng.choice([-1, 0, 0, 1]))
        if rng.random() < 0.4:
            t.op(f"lookup {rng.choice(chunks[:k])}")
        t.settle() if rng.random() < 0.7 else None
        t.tick()
        t.op("drain")
        t.op("audit")
    elif shape == "gate-edge":
        c = rng.choice(chunks)
        t.store(c, rng.choice([t.mn, t.mn + 1]))
        if rng.random() < 0.6:
            t.ingest(rng.choice(chunks), t.expiry_s(t.mn))
        # a cleanup as late as possible before the deadline, then land on the gate edge after the deadline
        t.adv_to(max(t.now, t.local[c] - rng.choice([0, 1, S // 2, S])))
        t.tick()
        edge = max(t.gate_edge(), t.local[c])
        t.adv_to(edge + rng.choice([-1, 0, 0, 0, 1]))
        t.tick()
        t.op("audit")
        t.op("drain")
    elif shape == "remote-mix":
        c = rng.choice(chunks)
        ttl = rng.choice([t.mn, t.mx, (t.mn + t.mx) // 2])
        order = rng.random() < 0.5
        if order:
            t.store(c, ttl)
        t.ingest(c, t.expiry_s(rng.choice([t.mn, t.eff(ttl) - 1, t.eff(ttl), t.eff(ttl) + 1, t.mx + 3])))
        if not order:
            t.adv(rng.choice([0, 1, S]))
            t.store(c, ttl)
        for _ in range(rng.randint(1, 4)):
            t.announce(rng.choice(chunks), rng.choice(peers), asg=rng.choice([0, 0, 1]))
            if rng.random() < 0.5:
                t.adv_aimed()
        for _ in range(rng.randint(2, 5)):
            t.adv_aimed()
            if rng.random() < 0.3:
                t.op(f"lookup {c}")
            t.tick()
    elif shape == "overwrite":
        c = rng.choice(chunks)
        t.store(c, t.mn)
        t.adv_to(t.local[c] + rng.choice([-1, 0, 1, S // 2]))
        if rng.random() < 0.5:
            t.op(f"lookup {c}")
        if rng.random() < 0.3:
            t.tick()
            t.op("drain")
        t.store(c, rng.choice([t.mn, t.mx]))
        t.settle() if rng.random() < 0.7 else None
        t.tick()
        t.op("drain")
        t.op("audit")
    elif shape == "reannounce":
        c = rng.choice(chunks)
        ttl = rng.choice([t.mn, t.mn + 1])
        t.store(c, ttl)
        t.adv(rng.choice([0, 1, S // 2]))
        t.reannounce(c, t.eff(ttl) + rng.choice([-1, 0, 1, 2]))
        if rng.random() < 0.4:
            t.announce(c, rng.choice(peers))
        t.adv_to(t.local[c] + rng.choice([-1, 0, 0, 1]))
        t.settle() if rng.random() < 0.8 else None
        t.tick()
        t.op("audit")
        t.op("drain")
    elif shape == "held-foreign":
        # a chunk the node holds + manifests for the same id that arrive without the chunk (repair C11-1): the
        # remote publisher's (other key; same content for odd, other content for even ids) and the node's own
        # re-encoded with another expiry, through ingest and announce, before / after the local deadline
        c = rng.choice(chunks)
        ttl = rng.choice([t.mn, t.mn + 1, t.mx])
        if rng.random() < 0.3:
            t.ingest(c, src=rng.choice([" o", ""]))          # learned remotely first: adopted, then displaced by the store
        t.store(c, ttl)
        for _ in range(rng.randint(2, 5)):
            e_s = t.expiry_s(rng.choice([t.mn, t.eff(ttl) - 1, t.eff(ttl), t.eff(ttl) + 1, t.mx, t.mx + 3]))
            src = rng.choice([" o", " o", " s", " s", ""])
            if rng.random() < 0.5:
                t.ingest(c, e_s, src=src)
            else:
                t.announce(c, rng.choice(peers), asg=rng.choice([0, 0, 1]), e_s=e_s, src=src)
            k = rng.random()
            if k < 0.3:
                t.op(f"lookup {c}")
            elif k < 0.5:
                t.op("dump")
            elif k < 0.7:
                t.adv_aimed()
        t.adv_to(t.local[c] + rng.choice([-1, 0, 0, 1]))
        if rng.random() < 0.5:
            t.ingest(c, src=rng.choice([" o", " s"]))
        t.settle() if rng.random() < 0.7 else None
        t.tick()
        t.op("drain")
        t.op("audit")
        if rng.random() < 0.5:
            t.store(c, t.mn)
            t.announce(c, rng.choice(peers), e_s=t.expiry_s(t.mx), src=rng.choice([" o", " s"]))
            t.op(f"lookup {c}")
    elif shape == "pending":
        for _ in range(rng.randint(1, 3)):
            t.announce(rng.choice(chunks), rng.choice(peers), asg=1)
            t.adv(rng.choice([0, S, 2 * S]))
        if rng.random() < 0.5:
            t.store(rng.choice(chunks), t.mn)
        for _ in range(rng.randint(2, 5)):
            t.adv_aimed()
            t.tick()

    n = rng.randint(4, 14) if not big else rng.randint(20, 60)
    for _ in range(n):
        r = rng.random()
        c = rng.choice(chunks)
        if r < 0.14:
            t.store(c, rng.choice(ttls))
        elif r < 0.24:
            t.ingest(c)
        elif r < 0.36:
            t.announce(c, rng.choice(peers), asg=rng.choice([0, 0, 0, 1]))
        elif r < 0.40:
            t.reannounce(c, rng.choice([t.mn, t.mx, t.mx + 2]))
        elif r < 0.62:
            t.adv_aimed()
        elif r < 0.72:
            t.op(rng.choice([f"lookup {c}", f"lookup {c}", f"probe {c}"]))
        elif r < 0.90:
            t.tick()
            if rng.random() < 0.4:
                t.op("audit")
        elif r < 0.96:
            t.op("drain")
        else:
            t.op("audit")
    t.epilogue()
    return Case(ops=t.ops, tag=shape)


SHAPES = ["mixed", "lookup-before-tick", "same-tick", "gate-edge", "remote-mix", "overwrite", "reannounce", "pending", "held-foreign", "mixed"]


def generate(ctx, budget):
    return [gen_case(ctx.rng, SHAPES[i % len(SHAPES)], ctx.tier == "thorough" and i % 6 == 0) for i in range(budget)]


def _field(line: str, key: str):
    for tok in line.split(" "):
        if tok.startswith(key + "="):
            return tok[len(key) + 1:]
    return None


def nontrivial(r: CaseResult) -> bool:
    """a local expiry was reported (a drain returned an id) and some cached manifest was seen at one tick and gone at a later one"""
    drained = any(op == "drain" and o not in ("-", "") and not o.startswith("crash") for op, o in zip(r.case.ops, r.impl))
    seen, lost = set(), False
    for op, o in zip(r.case.ops, r.impl):
        if op == "tick":
            mc = _field(o, "mc")
            if mc is None:
                continue
            keys = set() if mc == "-" else {x.split(":")[0] for x in mc.split(",")}
            if seen - keys:
                lost = True
            seen |= keys
    return drained and lost


def spec() -> Spec:
    return Spec(
        pid=PID,
        proof_modules=["EphVerif.Proofs.C05"],
        # composition module: imports the proofs of C01, C02, C03, C06 - counted when it builds, never an alarm for C05
        soft_proof_modules=["EphVerif.Proofs.SystemLifetime"],
        driver="drv_c05",
        harness=harness,
        generate=generate,
        extract=extract,
        nontrivial=nontrivial,
        budget={"quick": 900, "thorough": 40000},
        search_budget={"quick": 2400, "thorough": 40000},
        rule="one real Node per case (TTL window from 7 small windows incl. 1..1, 2..3, 30..60; cleanup_interval 0/1/2/3/5 s; rebalance interval "
             "2/3/7/1800 s; wall-clock offset with sub-second phases 0 / 1 ns / 0.4 s / 0.999999999 s), 9 shapes (mixed, lookup-before-tick, "
             "same-tick, gate-edge, remote-mix, overwrite, reannounce, pending, held-foreign) of 10-80 ops: local stores with TTL in {<=0, 1, min-1, min, min+1, "
             "max, max+1}, remote manifests (ingest / announce, with and without assigned shards) expiring at now + {-1, 0, 1, min-1, min, "
             "min+1, mid, max, max+1, max+5} s incl. for ids that are also stored locally - the remote publisher's manifest (other key; same or other "
             "content) or the node's own cached manifest re-encoded with another expiry (repair C11-1: adopted for a held chunk only when key "
             "and content match) -, re-announcements outliving the record, lookups and "
             "provider probes between a deadline and the next tick, clock advances aimed at every known deadline and at the cleanup-interval "
             "edge (-1 ns, 0, +1 ns), several chunks expiring in one tick, ticks / drains / audits, an epilogue that runs past every deadline; "
             "distinct = sha256 of the op list; non-trivial = a local expiry was reported by a drain and a cached manifest present at one "
             "tick was gone at a later one",
        trusted_base=["virtual clock by link-time interposition of steady_clock::now / system_clock::now (lock-step, settable wall offset)",
                      "remote manifests are the genuine manifest of a second real Node (store_chunk) re-encoded with the expiry under test; "
                      "handle_announce / announce_chunk / count_known_providers are entered through the friend test::NodeTestAccess",
                      "which pending fetches the fetch scheduler dispatches is taken from the implementation (attempt counters / last_dispatch) "
                      "and validated by the driver; fetch_retry_attempt_limit = 0, fetch_availability_refresh = 0 in the generated cases",
                      "the imported models of ChunkStore (C01/C04), provider locators (C06) and routing table (C07) and their regenerated constants"],
        assumptions=["announcing peers are not the node itself", "sender admission of handle_announce (C21) passes",
                     "no real time passes inside one call; steady and wall clock differ by a constant",
                     "expiry arithmetic does not overflow int64 nanoseconds (TTLs <= 24 h)"],
    )


def run(tier, seed, replay=None):
    return standard_check(spec(), tier, seed, replay)
