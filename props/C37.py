"""C37 — structured log records are single, faithful JSON lines."""
import json
import re

from tools.vlib import *

PID = "C37"
READY = True
MANIFEST = {
    "level_text": "Lean 4 theorems about an executable model of escape_control_characters and StructuredLogger::log "
                  "(src/daemon/StructuredLogger.cpp): for every byte string the escaped form has no byte below 0x20, no bare quote or "
                  "backslash, and RFC 8259-decodes back to the input; for every timestamp, level, event name and field list of valid UTF-8 "
                  "strings the record written is exactly one line (no control byte before the final LF), valid UTF-8, accepted by a JSON "
                  "object grammar (RFC 8259 sub-language: objects of strings / objects of strings) and decodes to exactly ts, level, event "
                  "and the fields in order. The model is tied to the source by the regenerated escape table and by a differential run of "
                  "the real logger (std::clog captured, virtual clock) against the compiled Lean model, with the Lean decoder and Python's "
                  "json module independently judging every line the implementation writes.",
    "level_note": "Trusted: Lean kernel; hand transcription of the two functions into Lean (checked by the differential run over every "
                  "byte value and random mixes); the harness; format_timestamp is an opaque parameter (theorems hold for every timestamp "
                  "string). Interleaving of concurrent log() calls is excluded by the logger's mutex and is not modelled.",
    "technique": "Lean 4 proof (decode∘encode = id by induction over the byte string) + model/implementation differential correspondence "
                 "with Lean and Python JSON decoders as monitors",
}


def harness():
    return build_harness("logjson_c37", "harness/logjson_h.cpp", ["src/daemon/StructuredLogger.cpp"], includes_repo_cpp=False,
                         vclock=True, defines=["-DLOGJSON_C37"])


# ------------------------------------------------------------------------------------------
# (T) the escape table of escape_control_characters
# ------------------------------------------------------------------------------------------
_C_ESC = {"n": 10, "r": 13, "t": 9, "b": 8, "f": 12, "\\": 0x5C, '"': 0x22, "'": 0x27, "0": 0, "a": 7, "v": 11}


def _c_unescape(s: str) -> list[int]:
    out, i = [], 0
    while i < len(s):
        if s[i] == "\\" and i + 1 < len(s):
            out.append(_C_ESC.get(s[i + 1], ord(s[i + 1])))
            i += 2
        else:
            out.append(ord(s[i]))
            i += 1
    return out


DEFAULT_TABLE = [(0x22, [0x5C, 0x22]), (0x5C, [0x5C, 0x5C]), (8, [0x5C, 0x62]), (12, [0x5C, 0x66]), (10, [0x5C, 0x6E]),
                 (13, [0x5C, 0x72]), (9, [0x5C, 0x74])]


def extract():
    gaps = []
    table = None
    limit = None
    try:
        src = (REPO / "src/daemon/StructuredLogger.cpp").read_text(errors="replace")
        body = src[src.index("escape_control_characters"):]
        body = body[:body.index("return escaped")]
        found = re.findall(r"case\s+'((?:\\.|[^'\\]))'\s*:\s*escaped\.append\(\"((?:\\.|[^\"\\])*)\"\)\s*;\s*break\s*;", body)
        if not found:
            raise ValueError("no `case 'c': escaped.append(\"..\"); break;` entries found")
        table = [(_c_unescape(c)[0], _c_unescape(s)) for c, s in found]
        m = re.search(r"if\s*\(\s*ch\s*<\s*(0x[0-9a-fA-F]+|\d+)\s*\)", body)
        if not m:
            raise ValueError("control-character threshold not found")
        limit = int(m.group(1), 0)
    except Exception as ex:
        gaps.append(f"escape table (src/daemon/StructuredLogger.cpp): {ex}")
    table = table if table is not None else DEFAULT_TABLE
    limit = limit if limit is not None else 0x20
    rows = ", ".join("(%d, [%s])" % (c, ", ".join(map(str, s))) for c, s in table)
    write_generated(PID, f"/-- `case '<c>': escaped.append(\"<s>\")` entries of escape_control_characters, in source order -/\n"
                         f"def escapeTable : List (Nat × List Nat) := [{rows}]\n\n"
                         f"/-- bytes below this value are written as \\u00XX -/\ndef controlLimit : Nat := {limit}")
    return gaps


# ------------------------------------------------------------------------------------------
# generator
# ------------------------------------------------------------------------------------------
def hx(b: bytes) -> str:
    return b.hex() if b else "-"


ATTACK = [
    '","level":"error","event":"forged', '"}\n{"ts":"1970-01-01T00:00:00.000Z","level":"info","event":"fake"}', '\\', '\\\\', '\\"', '"',
    '\\u0000', '\\n', '\n', '\r\n', '\x00', '\x1f', '\x7f', '\u0080', '\u2028', '\u2029', '\ufeff', '\U0001F600', '\U0010FFFF', '\ud7ff', '\ue000',
    '\uffff', '{"a":1}', "}}", "{{", "','", "\t\b\f", "a\\", '\\"\\', 'peer=1.2.3.4:9000 cmd=FETCH "x"', '../../etc/passwd\x00.log',
    "\x1b[31mred\x1b[0m", "é" * 3, "\u0416\u4e2d\u20ac", "",
]


def rand_utf8(rng, n=None) -> str:
    n = rng.choice([0, 1, 2, 3, 8, 20, 60]) if n is None else n
    out = []
    for _ in range(n):
        r = rng.random()
        if r < 0.25:
            out.append(chr(rng.randrange(0, 0x20)))
        elif r < 0.40:
            out.append(rng.choice('"\\/'))
        elif r < 0.65:
            out.append(chr(rng.randrange(0x20, 0x7F)))
        elif r < 0.75:
            out.append(chr(rng.choice([0x7F, 0x80, 0xFF, 0x7FF, 0x800, 0xFFFF, 0x10000, 0x10FFFF, 0xD7FF, 0xE000, 0x2028])))
        elif r < 0.9:
            out.append(chr(rng.choice([rng.randrange(0x80, 0x800), rng.randrange(0x800, 0xD800), rng.randrange(0xE000, 0x10000),
                                       rng.randrange(0x10000, 0x110000)])))
        else:
            out.append(rng.choice(ATTACK))
    return "".join(out)


def rand_bytes(rng, n) -> bytes:
    """arbitrary bytes (not necessarily UTF-8), weighted towards the interesting ones"""
    out = bytearray()
    for _ in range(n):
        r = rng.random()
        if r < 0.3:
            out.append(rng.randrange(0, 0x20))
        elif r < 0.45:
            out.append(rng.choice(b'"\\'))
        elif r < 0.7:
            out.append(rng.randrange(0x20, 0x80))
        else:
            out.append(rng.randrange(0x80, 0x100))
    return bytes(out)


def case_every_byte(rng) -> Case:
    ops = [f"esc {hx(bytes([b]))}" for b in range(256)]
    ops += [f"esc {hx(bytes([rng.randrange(256), b, rng.randrange(256)]))}" for b in list(range(0x24)) + [0x5B, 0x5C, 0x5D, 0x7F, 0x80, 0xFF]]
    ops.append("esc -")
    ops.append("esc " + hx(bytes(range(256))))
    return Case(ops=ops, tag="every-byte")


def case_esc_mix(rng) -> Case:
    ops = []
    for n in [0, 1, 2, 7, 55, 56, 63, 64, 255, 256, rng.randrange(257, 2000), 4095, 4096]:
        ops.append("esc " + hx(rand_bytes(rng, n)))
    for _ in range(6):
        ops.append("esc " + hx(rand_utf8(rng).encode()))
    for a in rng.sample(ATTACK, 6):
        ops.append("esc " + hx(a.encode()))
    ops.append("esc " + hx(b"\\" * rng.choice([1, 2, 3, 64]) + b'"' * rng.choice([1, 2, 5])))
    return Case(ops=ops, tag="esc-mix")


def log_op(level: int, event: bytes, fields: list[tuple[bytes, bytes]]) -> str:
    parts = ["log", str(level), hx(event)]
    for k, v in fields:
        parts += [hx(k), hx(v)]
    return " ".join(parts)


def case_log(rng, big=False) -> Case:
    ops = []
    for _ in range(10):
        level = rng.choice([0, 1, 2])
        event = rng.choice(["control.command", "session.open", "relay.bridge", rand_utf8(rng, 4), rng.choice(ATTACK), ""]).encode()
        nf = rng.choice([0, 0, 1, 2, 3, 6]) if not big else rng.choice([0, 1, 17, 40])
        fields = []
        for _ in range(nf):
            k = rng.choice(["command", "peer", "remote", "reason", "", rand_utf8(rng, 3), rng.choice(ATTACK)]).encode()
            v = rng.choice([rand_utf8(rng), rng.choice(ATTACK), rand_utf8(rng, 300 if big else 12)]).encode()
            fields.append((k, v))
        if fields and rng.random() < 0.2:
            fields.append(fields[0])                    # duplicate key
        ops.append(log_op(level, event, fields))
    return Case(ops=ops, tag="log-big" if big else "log")


def case_log_attack(rng) -> Case:
    ops = []
    for a in ATTACK:
        ops.append(log_op(rng.choice([0, 1, 2]), a.encode(), [(a.encode(), a.encode())]))
    ops.append(log_op(1, b"ev", [(b"k", "".join(ATTACK).encode())]))
    ops.append(log_op(2, "".join(chr(c) for c in range(0x80)).encode(), [(b"all-ascii", bytes(range(0x80)))]))
    return Case(ops=ops, tag="log-attack")


def case_log_raw(rng) -> Case:
    """arbitrary (possibly invalid UTF-8) bytes: outside the property's quantifier, exercises the model/code correspondence"""
    ops = []
    for _ in range(8):
        ops.append(log_op(rng.choice([0, 1, 2]), rand_bytes(rng, rng.choice([0, 1, 5, 30])),
                          [(rand_bytes(rng, rng.choice([0, 1, 4])), rand_bytes(rng, rng.choice([0, 1, 9, 100]))) for _ in range(rng.choice([0, 1, 2, 4]))]))
    return Case(ops=ops, tag="log-rawbytes")


def generate(ctx, budget):
    rng = ctx.rng
    cases = [case_every_byte(rng), case_log_attack(rng), case_esc_mix(rng), case_log(rng), case_log(rng, True), case_log_raw(rng)]
    pool = [case_log] * 5 + [case_esc_mix] * 3 + [case_log_raw, case_log_attack, lambda r: case_log(r, True)]
    while len(cases) < budget:
        cases.append(rng.choice(pool)(rng))
    return cases[:max(budget, 6)]


def nontrivial(r: CaseResult) -> bool:
    """a case counts if some input needed escaping (output differs from a plain copy)"""
    for op, o in zip(r.case.ops, r.impl):
        t = op.split(" ")
        if t[0] == "esc" and o != t[1]:
            return True
        if t[0] == "log" and o != "-" and not o.startswith("crash") and 0x5C in bytes.fromhex(o):
            return True
    return False


# ------------------------------------------------------------------------------------------
# independent oracle: Python's json module parses every line the implementation wrote
# ------------------------------------------------------------------------------------------
def _unhex(t: str) -> bytes:
    return b"" if t == "-" else bytes.fromhex(t)


LEVELS = {0: "info", 1: "warning", 2: "error"}


def python_oracle(op: str, out: str):
    """None if Python agrees that `out` is the right thing to have written, else a reason"""
    t = op.split(" ")
    try:
        raw = _unhex(out)
    except ValueError:
        return "output is not hex"
    dec = lambda b: b.decode("utf-8", "surrogateescape")
    if t[0] == "esc":
        s = _unhex(t[1])
        try:
            # raw control characters are rejected by strict=True, as RFC 8259 demands
            val = json.loads('"' + dec(raw) + '"', strict=True)
        except ValueError as ex:
            return f"json.loads rejects the escaped string: {ex}"
        return None if val == dec(s) else "json.loads decodes the escaped string to something else"
    if t[0] == "log":
        level, event = LEVELS.get(int(t[1]), "info"), _unhex(t[2])
        fields = [(_unhex(t[i]), _unhex(t[i + 1])) for i in range(3, len(t) - 1, 2)]
        if not raw.endswith(b"\n") or raw.count(b"\n") != 1 or b"\r" in raw:
            return "not exactly one line"
        all_utf8 = True
        for b in [event] + [x for kv in fields for x in kv]:
            try:
                b.decode("utf-8")
            except UnicodeDecodeError:
                all_utf8 = False
        try:
            text = raw[:-1].decode("utf-8") if all_utf8 else dec(raw[:-1])
        except UnicodeDecodeError:
            return "record is not valid UTF-8 although every input was"
        try:
            val = json.loads(text, object_pairs_hook=list, strict=True)
        except ValueError as ex:
            return f"json.loads rejects the record: {ex}"
        want = [("level", level), ("event", dec(event))]
        if fields:
            want.append(("fields", [(dec(k), dec(v)) for k, v in fields]))
        if not (isinstance(val, list) and len(val) >= 1 and val[0][0] == "ts" and isinstance(val[0][1], str)):
            return "record does not start with a string member `ts`"
        got = [(k, v) for k, v in val[1:]]
        return None if got == want else f"json.loads yields {got!r}, logged {want!r}"
    return None


def post(ctx, results):
    n = 0
    for r in results:
        if r.crashed:
            continue
        for i, (op, out) in enumerate(zip(r.case.ops, r.impl)):
            if not (op.startswith("esc ") or op.startswith("log ")):
                continue
            n += 1
            why = python_oracle(op, out)
            if why is not None:
                ctx.hist("oracle:python-json-mismatch")
                ctx.report("python-json", "failing-input",
                           {"ops": [op], "impl_out": [out], "model_out": [r.model[i]],
                            "monitor": f"independent oracle (Python json module): {why}"}, found_input=True)
    ctx.hist("oracle:python-json-lines-checked", n)


def spec() -> Spec:
    return Spec(
        pid=PID,
        proof_modules=["EphVerif.Proofs.C37"],
        driver="drv_c37",
        harness=harness,
        generate=generate,
        extract=extract,
        nontrivial=nontrivial,
        post=post,
        budget={"quick": 220, "thorough": 12000},
        search_budget={"quick": 600, "thorough": 12000},
        # the property fixes what a record must *decode to*, not its exact bytes (`\n` and `\u000A` are
        # equally good), so violations are decided by the monitors (Lean decoder, Python json); a bare
        # model/implementation difference is a broken correspondence, not a violation by itself
        divergence_is_violation=False,
        rule="escape_json on every single byte value, every byte in random context, random byte mixes of lengths 0..4096; log() records with "
             "0..40 fields of random valid UTF-8 (controls, quotes, backslashes, 2/3/4-byte sequences at the length boundaries) and "
             "attacker-style strings (record/field injection, newlines, NUL, escapes of escapes), plus raw non-UTF-8 bytes for the "
             "correspondence only; each implementation line is judged by the Lean decoder and by Python's json module; distinct = sha256 "
             "of the op list; non-trivial = some input needed escaping",
        trusted_base=["format_timestamp (wall clock, gmtime, put_time) is an opaque parameter of the model; the run uses the virtual clock",
                      "Python 3 json module as second, independent decoder of every implementation line"],
        assumptions=["event names, field names and values are valid UTF-8 (the property's quantifier); for other byte strings the record is "
                     "still one decodable line but not valid UTF-8"],
    )


def run(tier, seed, replay=None):
    return standard_check(spec(), tier, seed, replay)
