"""C36 — daemon threads never race on shared node state (partial: lockset discipline).

Custom run(): (T) extract the access table from the clang AST of the working tree, emit
Generated/C36.lean, build/audit the Lean theorems (general lockset theorem + kernel evaluation of
the checker on the table), compare the kernel-checked list of lock-less conflicting pairs with
known_findings.d/C36.json, and validate the table against a ThreadSanitizer run of a daemon-shaped
harness (every TSan report must be a pair the table predicts)."""
from __future__ import annotations

import glob
import json
import os
import re
import subprocess
import time
from pathlib import Path

from tools.vlib import *
from props import C36_extract as X

PID = "C36"
READY = True
MANIFEST = {
    "category": "proof",
    "level_text": "PARTIAL. Proved in Lean 4 (EphVerif.C36.lockset_sound_except / lockset_sound / premise_iff / table_ok / "
                  "violation_realisable), for an unbounded number of threads, program lengths and schedules in an interleaving "
                  "semantics with exclusive locks: if every thread follows an access table (role, location, R|W, lockset) then two "
                  "threads are simultaneously at conflicting accesses only on a (location, role pair) for which the table has two "
                  "conflicting rows without a common lock; the decidable checker is equivalent to that premise and is tight (every "
                  "reported pair is a real race of a two-thread system following the table). The table is regenerated on every run "
                  "from the clang AST of Node / SessionManager / KeyManager / ReputationManager / ChunkStore / KademliaTable / "
                  "SwarmCoordinator / NatTraversal / RelayClient / ControlServer / main.cpp (fields read/written per method, lexical "
                  "lock scopes, call graph, thread roles control / main / accept / reader xN / relay) and the checker is evaluated on "
                  "it by the Lean kernel (table_violations, C36_partial, C36_counterexamples, C36_full_iff). A second kernel-evaluated check, "
                  "lockOrderAcyclic over the extracted graph 'l2 acquired while l1 held', with the theorem lock_order_no_deadlock / "
                  "no_deadlock_of_edges / C36_no_deadlock: threads that nest acquisitions as the sources do can always make progress. "
                  "On the tree the design was written for the premise was false on 41 (location, role pair) triples over 10 locations "
                  "(KeyManager::contexts_, Node::handshake_state_, Session::key/socket, Config advertise fields, Node::nat_status_, "
                  "listen socket/port); six small fixes (fixes/C36-*.patch: leaf mutexes, reads under the existing lock, atomics, "
                  "descriptor owned by the Session) remove all of them without adding a lock-order cycle, so with them the checker "
                  "returns the empty list and lockset_sound applies; any lock-less conflicting pair or lock-order cycle is a violation. "
                  "A ThreadSanitizer run of a daemon-shaped harness (real Node + ControlServer + loopback sessions + peers + ticks) "
                  "validates the table: every TSan report must be a predicted pair.",
    "level_note": "Not proved: that the running C++ process is race free or racy - a data race is a runtime event; what is proved is the "
                  "lock discipline that excludes it, over an extracted table. Trusted: the extractor (props/C36_extract.py: clang-14 AST "
                  "-> accesses/locks/calls; local alias analysis only; functions outside the analysed files assumed to touch shared "
                  "state only through arguments; std::function callbacks resolved through setter/field flow; constructors/destructors "
                  "outside any role; object instances of Session merged; happens-before by thread creation/join not modelled, so a few "
                  "listed pairs are benign and say so), the role/entry-point table, the singleton assumption (one Node per process), "
                  "recursive_mutex re-acquisition flattened, C++ memory-model details (atomics treated as synchronised). TSan only "
                  "validates the table on the schedules it happens to see.",
    "technique": "Lean 4 invariant proof of a lockset theorem (mutual exclusion + per-thread lock coverage) with a kernel-evaluated "
                 "decidable checker over a clang-AST-extracted access table; ThreadSanitizer run as table validation",
}

NODE_MUTEX = "main::node_mutex"

# Thread roles of the daemon and their entry points (explicit, documented; see notes/C36.md).
#   control : the ControlServer accept thread; handles one client at a time, handlers take node_mutex_
#             (= main's node_mutex, LOCK_ALIASES) around the Node calls they make - extracted, not assumed.
#   main    : main()'s serve branch (start_transport, tick loop, stop_transport under node_mutex;
#             transport_port() without); the whole of main() is the entry.
#   accept  : SessionManager::accept_loop (inbound transport handshakes -> Node::handle_transport_handshake
#             through the handshake handler installed by Node::initialize_transport_handler).
#   reader  : SessionManager::receive_loop, one thread per session (multi-instance) -> message handler ->
#             Node::handle_transport_message -> handle_request / handle_chunk / handle_acknowledge / handle_announce.
#   relay   : RelayClient::registration_loop (only runs when relay is enabled).
ROLES = {
    "control": {"multi": False, "entries": [("ephemeralnet::daemon::ControlServer::Impl::accept_loop", [])]},
    "main": {"multi": False, "entries": [("main", [])]},
    "accept": {"multi": False, "entries": [("ephemeralnet::network::SessionManager::accept_loop", [])]},
    "reader": {"multi": True, "entries": [("ephemeralnet::network::SessionManager::receive_loop", [])]},
    "relay": {"multi": False, "entries": [("ephemeralnet::network::RelayClient::registration_loop", [])]},
}
ROLE_ORDER = list(ROLES)

# frames that identify the role of a thread in a TSan stack
ROLE_FRAMES = [
    (re.compile(r"ControlServer::Impl::accept_loop|ControlServer::Impl::handle_"), {"control"}),
    (re.compile(r"SessionManager::receive_loop"), {"reader"}),
    (re.compile(r"SessionManager::accept_loop"), {"accept"}),
    (re.compile(r"RelayClient::registration_loop"), {"relay"}),
    (re.compile(r"role_main_thread"), {"main"}),
    (re.compile(r"role_peer_driver"), {"main", "control"}),   # the mutex-holding driver of a peer node
]

DAEMON_SOURCES = ["src/daemon/ControlServer.cpp", "src/daemon/ControlClient.cpp", "src/daemon/ControlPlane.cpp",
                  "src/daemon/StructuredLogger.cpp"]


def in_scope(loc: str) -> bool:
    """shared *node* state: everything except the control server's own bookkeeping and main()'s locals"""
    return not (loc.startswith("ephemeralnet::daemon::ControlServer") or loc.startswith("main.cpp::")
                or loc.startswith("ControlServer.cpp::") or loc.startswith("ControlPlane.cpp::"))


def short(loc: str) -> str:
    return loc.replace("ephemeralnet::network::SessionManager::Session::", "Session::").replace("ephemeralnet::network::", "") \
        .replace("ephemeralnet::", "")


def harness():
    return build_harness("race_h", "harness/race_h.cpp", ALL_CORE_SOURCES + DAEMON_SOURCES, includes_repo_cpp=False,
                         flags=TSAN_FLAGS, libs=("-lcurl", "-lpthread"))


# --------------------------------------------------------------------------------------
# (T) extraction -> Generated/C36.lean
# --------------------------------------------------------------------------------------

_STATE: dict = {}


def compute_violations(groups, multi):
    """mirror of Lockset.violationsG (same order, dedup keeps the last occurrence)"""
    out = []
    for f, rs in groups:
        for a in rs:
            for b in rs:
                if (a[1] or b[1]) and (a[0] != b[0] or a[0] in multi) and not (set(a[2]) & set(b[2])):
                    out.append((f, min(a[0], b[0]), max(a[0], b[0])))
    return [x for i, x in enumerate(out) if x not in out[i + 1:]]


def topo_ranks(n: int, edges: list) -> tuple[list, list]:
    """rank = length of the longest path ending in the node; ([0]*n, cycle) if the graph has a cycle"""
    succ = {i: [] for i in range(n)}
    indeg = [0] * n
    for a, b in edges:
        if a == b:
            return [0] * n, [a, a]
        succ[a].append(b)
        indeg[b] += 1
    rank = [0] * n
    todo = [i for i in range(n) if indeg[i] == 0]
    seen = 0
    while todo:
        i = todo.pop()
        seen += 1
        for j in succ[i]:
            rank[j] = max(rank[j], rank[i] + 1)
            indeg[j] -= 1
            if indeg[j] == 0:
                todo.append(j)
    if seen < n:
        # recover one cycle among the remaining nodes
        # recover one cycle: every remaining node has a remaining predecessor, so walking predecessors repeats
        rem = {i for i in range(n) if indeg[i] > 0}
        pred = {j: [i for i, b in edges if b == j and i in rem] for j in rem}
        cur = min(rem)
        path = []
        while cur not in path:
            path.append(cur)
            cur = pred[cur][0]
        cyc = path[path.index(cur):] + [cur]
        return [0] * n, cyc[::-1]
    return rank, []


def extract():
    gaps: list[str] = []
    prog = X.build_program(min(NPROC, 4))
    tab = X.build_table(prog, ROLES, lambda loc: True)
    all_site_locs = tab.site_locs
    # the table proper: node state only
    rows = {rk: v for rk, v in tab.rows.items() if in_scope(rk[1])}
    gaps += tab.gaps + X.reference_member_gaps(prog) + sorted(set(prog.gaps))
    fields = sorted({rk[1] for rk in rows})
    # locks that protect a tabled access, then locks that only take part in the acquisition order
    locks = sorted({l for rk in rows for l in rk[3]})
    locks += sorted({x for e in tab.lock_edges for x in e} - set(locks))
    fi = {f: i for i, f in enumerate(fields)}
    li = {l: i for i, l in enumerate(locks)}
    ri = {r: i for i, r in enumerate(ROLE_ORDER)}
    groups: dict[int, list] = {}
    for rk in sorted(rows):
        groups.setdefault(fi[rk[1]], []).append((ri[rk[0]], 1 if rk[2] == "W" else 0, sorted(li[l] for l in rk[3])))
    G = [(f, sorted(set((a, b, tuple(c)) for a, b, c in rs))) for f, rs in sorted(groups.items())]
    multi = [ri[r] for r in ROLE_ORDER if ROLES[r]["multi"]]
    viols = compute_violations(G, multi)

    def q(s):
        return '"' + s.replace("\\", "\\\\").replace('"', '\\"') + '"'

    body = f"def roleNames : List String := [{', '.join(q(r) for r in ROLE_ORDER)}]\n"
    body += f"def multi : List Nat := [{', '.join(map(str, multi))}]\n"
    body += "def fieldNames : List String := [\n  " + ",\n  ".join(q(short(f)) for f in fields) + "]\n"
    body += "def lockNames : List String := [\n  " + ",\n  ".join(q(short(l)) for l in locks) + "]\n"
    body += "/-- the access table, grouped by location: (field, [(role, 0 = read / 1 = write, locks held)]) -/\n"
    def row_s(r):
        return "(%d, %d, [%s])" % (r[0], r[1], ", ".join(map(str, r[2])))

    body += "def groups : List (Nat × List (Nat × Nat × List Nat)) := [\n  " + ",\n  ".join(
        "(%d, [%s])" % (f, ", ".join(row_s(r) for r in rs)) for f, rs in G) + "]\n"
    body += "/-- the checker's result as computed by the extractor; `EphVerif.C36.table_violations` makes the kernel confirm it -/\n"
    body += "def expectedViolations : List (Nat × Nat × Nat) := [\n  " + ",\n  ".join(
        f"({a}, {b}, {c})" for a, b, c in viols) + "]\n"
    # lock-order graph: edge h -> l when some role acquires l while holding h; ranks = a topological numbering
    edges = {(li[h], li[l]): v for (h, l), v in tab.lock_edges.items()}
    ranks, cycle = topo_ranks(len(locks), sorted(edges))
    body += "/-- lock-order edges (held, acquired) and a rank certificate (topological numbering; all 0 if there is a cycle) -/\n"
    body += "def lockEdges : List (Nat × Nat) := [" + ", ".join("(%d, %d)" % e for e in sorted(edges)) + "]\n"
    body += "def lockRanks : List Nat := [" + ", ".join(map(str, ranks)) + "]\n"
    _STATE.update(lock_edges={(locks[a], locks[b]): v for (a, b), v in edges.items()}, lock_cycle=[locks[i] for i in cycle])
    write_generated(PID, body)
    _STATE.update(prog=prog, tab=tab, rows=rows, fields=fields, locks=locks, groups=G, multi=multi, viols=viols,
                  site_locs=all_site_locs, gaps=gaps)
    return [g for g in gaps if not g.startswith("callback with no installer")] + \
        sorted({g.split(" invoked at")[0] for g in gaps if g.startswith("callback with no installer")})


def signature(field: str, ra: str, rb: str) -> str:
    a, b = sorted([ra, rb])
    return f"race:{short(field)}:{a}x{b}"


# --------------------------------------------------------------------------------------
# TSan run and report mapping
# --------------------------------------------------------------------------------------

ACCESS_RE = re.compile(r"^\s+(Previous )?(atomic )?(read|write) of size \d+ at \S+ by (main thread|thread T\d+)", re.I)
FRAME_RE = re.compile(r"^\s+#(\d+) (.*?) (\S+?):(\d+)(?::\d+)? \(")


def parse_tsan(text: str) -> list[dict]:
    reports = []
    for block in text.split("=================="):
        if "WARNING: ThreadSanitizer" not in block:
            continue
        m = re.search(r"WARNING: ThreadSanitizer: ([\w -]+?) \(pid", block)
        kind = m.group(1) if m else "?"
        stacks: list[dict] = []
        cur = None
        for line in block.splitlines():
            if ACCESS_RE.match(line):
                cur = {"head": line.strip(), "frames": []}
                stacks.append(cur)
                continue
            if re.match(r"^\s+(Location is|Thread T\d+|Mutex M\d+|As if synchronized|SUMMARY)", line) or not line.strip():
                if line.strip().startswith("Location is"):
                    cur = {"head": line.strip(), "frames": [], "location": True}
                    stacks.append(cur)
                elif line.strip():
                    cur = None
                continue
            fm = FRAME_RE.match(line)
            if fm and cur is not None:
                cur["frames"].append((fm.group(2), fm.group(3), int(fm.group(4))))
        acc = [s for s in stacks if not s.get("location")]
        locn = [s for s in stacks if s.get("location")]
        sm = re.search(r"SUMMARY: ThreadSanitizer: [^\n]*", block)
        reports.append({"kind": kind, "accesses": acc[:2], "location": locn[0]["head"] if locn else "",
                        "summary": sm.group(0) if sm else "", "text": block.strip()[:6000]})
    return reports


def stack_info(stack: dict, site_locs: dict) -> tuple[set, set, str]:
    """(candidate locations, candidate roles, the frame used) of one access stack"""
    repo = str(REPO)
    locs: set = set()
    used = ""
    for fn, f, line in stack["frames"]:
        if f.startswith(repo + "/src") or f.startswith(repo + "/include"):
            l = site_locs.get((Path(f).name, line))
            if l:
                locs = set(l)
                used = f"{Path(f).name}:{line}"
                break
    roles: set = set()
    text = " ".join(fn for fn, _, _ in stack["frames"])
    for rx, rs in ROLE_FRAMES:
        if rx.search(text):
            roles = set(rs)
            break
    return locs, roles, used


def classify(report: dict, site_locs: dict, violset: set) -> dict:
    acc = report["accesses"]
    if report["kind"] != "data race" or not acc:
        return {"class": "other", "detail": report["kind"]}
    infos = [stack_info(s, site_locs) for s in acc]
    cands = [i[0] for i in infos if i[0]]
    alltext = " ".join(fn for s in acc for fn, _, _ in s["frames"])
    if re.search(r"::~\w+\(|\b~Daemon\b", alltext):
        # a destructor racing with a detached session thread at process teardown: destructors belong to
        # no role (the daemon's ~Node runs after stop_transport; detached readers are never joined)
        return {"class": "teardown", "detail": report["summary"][:200]}
    if not cands:
        if report.get("location", "").startswith("Location is file descriptor"):
            # close() of a descriptor number against a recv()/send() on it with no member location in
            # either stack (descriptor reuse between nodes of the same process): not a memory location
            return {"class": "fd-only", "detail": report["summary"][:200]}
        return {"class": "unattributed", "detail": report["summary"]}
    weak = False
    if len(cands) == 2 and cands[0] & cands[1]:
        locs = cands[0] & cands[1]
    else:
        # only one stack could be attributed, or the two stacks point at different locations (TSan's
        # restored "previous" stack is approximate): any of them may be the racing one
        locs = set().union(*cands)
        weak = len(cands) == 2
    scoped = {l for l in locs if in_scope(l)}
    if not scoped:
        return {"class": "out-of-scope", "detail": ", ".join(sorted(short(l) for l in locs))}
    roles_known = bool(infos[0][1]) and len(infos) > 1 and bool(infos[1][1])
    ra = infos[0][1] or set(ROLE_ORDER)
    rb = (infos[1][1] if len(infos) > 1 else set()) or set(ROLE_ORDER)
    hit_locs = sorted({short(l) for l in scoped for a in ra for b in rb if (l, *sorted([a, b])) in violset})
    hits = sorted({signature(l, a, b) for l in scoped for a in ra for b in rb if (l, *sorted([a, b])) in violset})
    detail = {"locations": sorted(short(l) for l in scoped), "roles": [sorted(infos[0][1]), sorted(infos[1][1]) if len(infos) > 1 else []],
              "frames": [i[2] for i in infos], "weak": weak, "roles_known": roles_known}
    if hits:
        # a signature counts as observed only when both threads' roles could be read off the stacks
        return {"class": "matched", "hits": hits if roles_known else [], "hit_locations": hit_locs, **detail}
    return {"class": "unpredicted", **detail}


def run_tsan(ctx: Ctx, exe: Path, seconds: float, peers: int, seed: int) -> tuple[list[dict], dict, str]:
    logbase = ctx.work / f"tsan-{seed}"
    env = dict(os.environ)
    env["TSAN_OPTIONS"] = f"halt_on_error=0 exitcode=0 log_path={logbase} history_size=5 second_deadlock_stack=1 report_signal_unsafe=0"
    t0 = time.time()
    try:
        r = subprocess.run([str(exe), str(seconds), str(peers), str(seed)], capture_output=True, text=True, errors="replace",
                           timeout=seconds * 6 + 120, env=env, cwd=str(ctx.work))
        out, rc = r.stdout, r.returncode
    except subprocess.TimeoutExpired as ex:
        out = (ex.stdout or b"").decode(errors="replace") if isinstance(ex.stdout, bytes) else (ex.stdout or "")
        rc = -9
    stats = {}
    for line in out.splitlines():
        m = re.match(r"^(\w+) (\d+)$", line.strip())
        if m:
            stats[m.group(1)] = int(m.group(2))
    stats["exit"] = rc
    stats["wall_s"] = round(time.time() - t0, 1)
    text = ""
    for f in sorted(glob.glob(str(logbase) + "*")):
        text += Path(f).read_text(errors="replace") + "\n"
    return parse_tsan(text), stats, text


# --------------------------------------------------------------------------------------
# the check
# --------------------------------------------------------------------------------------

# what the extractor must produce for props/C36_selftest.cpp (one line per pattern, see the comments there)
SELFTEST_EXPECT = {
    ("A", "Box::a_", "W", ("m_",)), ("A", "Box::c_", "W", ()), ("A", "Box::cb_", "W", ("cb_mutex_",)),
    ("A", "Box::d_", "W", ("m_",)), ("A", "Box::g_", "W", ("m_", "r_")), ("A", "Box::g_", "W", ("r_",)),
    ("A", "Box::items_", "W", ("items_mutex_", "r_")), ("A", "Box::map2_", "R", ("m_",)), ("A", "Box::map2_", "W", ("m_",)),
    ("A", "Box::map3_", "W", ("m_",)), ("A", "Box::map_", "R", ("m_",)),
    ("A", "Box::map_", "W", ("m_",)), ("A", "Box::vec_", "R", ("m_",)), ("A", "Box::vec_", "W", ("m_",)),
    ("B", "Box::a_", "R", ()), ("B", "Box::b_", "R", ()), ("B", "Box::cb_", "R", ("cb_mutex_",)), ("B", "Box::e_", "W", ()),
    ("B", "Box::f_", "W", ()), ("B", "Box::h_", "W", ()), ("B", "Box::items_", "R", ("items_mutex_",)),
    ("B", "Box::map4_", "R", ("m_",)), ("B", "Box::map4_", "W", ("m_",)), ("B", "Box::map_", "R", ("m_",)),
    ("B", "Box::vec_", "R", ()), ("B", "Item::shared", "R", ("items_mutex_",)),
    # explicit operations on lock objects (entryC): unlock()/lock()/release(), join of branches and loop
    # iterations, defer_lock / try_to_lock, an inner guard block, a condition-variable wait, try/catch
    ("C", "Box::k1_", "W", ("m_",)), ("C", "Box::k1_", "R", ("m_",)), ("C", "Box::k2_", "W", ()),
    ("C", "Box::k3_", "W", ("m_",)), ("C", "Box::k4_", "W", ()), ("C", "Box::k5_", "W", ()),
    ("C", "Box::k6_", "W", ("m2_",)), ("C", "Box::k7_", "W", ("m2_",)), ("C", "Box::k8_", "W", ("m2_", "m3_")),
    ("C", "Box::k9_", "W", ("m2_",)), ("C", "Box::k10_", "W", ()), ("C", "Box::k11_", "R", ("m4_",)),
    ("C", "Box::k11_", "W", ("m4_",)), ("C", "Box::k12_", "W", ("m4_",)), ("C", "Box::k12_", "W", ()),
    ("C", "Box::k13_", "W", ("m_",)), ("C", "Box::k13_", "W", ()),
}
SELFTEST_CONFINED = ["Item::owner_only"]


def extractor_selftest() -> list[str]:
    """differences between what the extractor derives from props/C36_selftest.cpp and what it must"""
    rows, confined, gaps = X.selftest_rows()
    out = []
    for r in sorted(SELFTEST_EXPECT - rows):
        out.append(f"missing row {r}")
    for r in sorted(rows - SELFTEST_EXPECT):
        out.append(f"unexpected row {r}")
    if sorted(confined) != SELFTEST_CONFINED:
        out.append(f"creator-confined fields {confined} != {SELFTEST_CONFINED}")
    out += [f"gap: {g}" for g in gaps]
    return out


def spec() -> Spec:
    """used by setup_all.py (extractor, lake targets, harness build)"""
    return Spec(pid=PID, proof_modules=["EphVerif.Proofs.C36"], driver="drv_c36", harness=harness,
                generate=lambda ctx, budget: [], extract=extract, leanchecker=True)


def load_known_local() -> list[dict]:
    p = VERIF / "known_findings.d" / "C36.json"
    if p.exists():
        return [e for e in json.loads(p.read_text()) if e.get("property") == PID]
    return []


def row_dump(rows: dict, field: str) -> list[str]:
    out = []
    for rk in sorted(rows):
        if rk[1] == field:
            out.append(f"{rk[0]:8s} {rk[2]} locks={{{', '.join(short(l) for l in rk[3])}}}  at {'; '.join(rows[rk][:3])}")
    return out


def run(tier, seed, replay=None):
    ctx = Ctx(PID, tier, seed)
    # known findings: the aggregate file may lag behind known_findings.d/C36.json
    known = {e["signature"]: e for e in ctx.known if e.get("status") == "known"}
    for e in load_known_local():
        if e.get("status") == "known":
            known.setdefault(e["signature"], e)
    ctx.known = list(known.values())
    ctx.coverage["rule"] = ("table rows = distinct (role, location, R|W, lockset) reachable from the role entry points; a pair is "
                            "checked when same location, different thread (different role or multi-instance role), at least one "
                            "write; TSan reports are counted when they map to a location of the table")
    ctx.coverage["trusted_base"] = [
        TRUSTED_COMMON[0], TRUSTED_COMMON[1],
        "props/C36_extract.py (clang-14 JSON AST -> per-function accesses, lexical lock scopes, call graph; local alias analysis; "
        "callbacks through std::function setter/field flow) and the role/entry-point table in props/C36.py",
        "singleton assumption (one Node and one of each sub-object per daemon process; Session instances merged)",
        "functions outside the analysed translation units touch shared state only through their arguments",
        "std::atomic / mutex-protected library objects are synchronised; recursive_mutex re-acquisition flattened",
        "g++ 12 ThreadSanitizer runtime and its stack restoration (validation only)",
    ]
    ctx.assumptions += ["happens-before by thread creation/join is not modelled: pairs ordered only that way are still listed (marked benign in known_findings.d/C36.json)",
                        "constructors and destructors run before/after the threads exist and belong to no role"]
    spec_ = spec()
    spec_.extract = None
    t_ex = time.time()
    try:
        gaps = extract()
    except Exception as ex:  # extractor failure: the table cannot be trusted -> broken tie
        import traceback
        ctx.notes.append("extractor failed: " + traceback.format_exc()[-1500:])
        ctx.report("broken:extractor", "broken-correspondence", {"monitor": f"extractor failed: {ex}"}, found_input=False)
        return ctx.finish("proof")
    ctx.coverage["extract_s"] = round(time.time() - t_ex, 1)
    if gaps:
        ctx.notes.append("extractor gaps (not alarms): " + "; ".join(gaps)[:3000])
    st = _STATE
    rows, fields, viols = st["rows"], st["fields"], st["viols"]

    if replay:
        return _replay(ctx, replay)

    # 1. proof obligations -----------------------------------------------------------------
    all_ok, broken = proof_obligations(ctx, spec_)
    ok_drv, out_drv = lake_build(["drv_c36"])
    tie_broken: list[str] = []
    lean_viols = None
    if ok_drv:
        r = subprocess.run([str(LEAN / ".lake" / "build" / "bin" / "drv_c36")], capture_output=True, text=True)
        lines = r.stdout.splitlines()
        facts = {l.split()[0]: l.split()[1] for l in lines if len(l.split()) == 2}
        lean_viols = [tuple(l.split()[1:]) for l in lines if l.startswith("viol ")]
        mine = [(short(fields[f]), ROLE_ORDER[a], ROLE_ORDER[b]) for f, a, b in viols]
        if lean_viols != mine:
            tie_broken.append(f"compiled Lean checker and extractor disagree on the violation list ({len(lean_viols)} vs {len(mine)})")
        for k in ("keys", "nodup", "flat-agrees"):
            if facts.get(k) != "true":
                tie_broken.append(f"driver reports {k}={facts.get(k)}")
        ctx.coverage["lean_checker"] = facts
    else:
        tie_broken.append("driver build failed: " + out_drv[-300:])

    try:
        st_diff = extractor_selftest()
    except Exception as ex:
        st_diff = [f"self-test crashed: {ex}"]
    ctx.coverage["extractor_selftest"] = {"rows_expected": len(SELFTEST_EXPECT), "differences": st_diff}
    if st_diff:
        tie_broken.append("extractor self-test (props/C36_selftest.cpp) failed: " + "; ".join(st_diff)[:800])

    # 2. the pairs lacking a common lock ------------------------------------------------------
    multi_roles = {r for r in ROLE_ORDER if ROLES[r]["multi"]}
    npairs = 0
    for f, rs in st["groups"]:
        for a in rs:
            for b in rs:
                if (a[1] or b[1]) and (a[0] != b[0] or ROLE_ORDER[a[0]] in multi_roles):
                    npairs += 1
    ctx.coverage.update({"table_rows": len(rows), "locations": len(fields), "locks": [short(l) for l in st["locks"]],
                         "conflicting_pairs_checked": npairs // 2, "pairs_lacking_common_lock": len(viols),
                         "functions_reached": {r: len(v) for r, v in st["tab"].reached.items()},
                         "creator_confined_fields": [short(x) for x in st["tab"].confined]})
    ctx.coverage["evaluations"] = npairs // 2
    violset = {(fields[f], *sorted([ROLE_ORDER[a], ROLE_ORDER[b]])) for f, a, b in viols}
    new_pairs = []
    for f, a, b in viols:
        sig = signature(fields[f], ROLE_ORDER[a], ROLE_ORDER[b])
        if sig in known:
            ctx.known_hits.setdefault(sig, known[sig].get("what", sig))
        else:
            new_pairs.append((fields[f], ROLE_ORDER[a], ROLE_ORDER[b], sig))
    # lock order: a cycle in "l2 acquired while l1 held" is a potential deadlock
    ctx.coverage["lock_order_edges"] = sorted(f"{short(a)} -> {short(b)}" for a, b in st["lock_edges"])
    ctx.coverage["lock_order_acyclic"] = not st["lock_cycle"]
    if st["lock_cycle"]:
        cyc = st["lock_cycle"]
        sig = "lock-order-cycle:" + ">".join(short(l) for l in cyc)
        sites = {f"{short(a)} -> {short(b)}": st["lock_edges"].get((a, b), []) for a, b in zip(cyc, cyc[1:])}
        if sig in known:
            ctx.known_hits.setdefault(sig, known[sig].get("what", sig))
        else:
            ctx.report(sig, "broken-obligation",
                       {"monitor": "the lock-order graph extracted from the sources has a cycle: threads nesting these locks in "
                                   "opposite orders can deadlock (EphVerif.C36.table_lock_order does not hold)",
                        "theorem": "EphVerif.C36.table_lock_order", "edges": sites}, found_input=False)
    stale = sorted(s for s in known if s not in {signature(fields[f], ROLE_ORDER[a], ROLE_ORDER[b]) for f, a, b in viols})
    if stale:
        ctx.notes.append("listed known findings no longer produced by the table (fixed or renamed; nothing reported): " + ", ".join(stale))

    # 3. TSan validation ---------------------------------------------------------------------------
    reports, stats, classes = [], {}, []
    try:
        exe = harness()
    except BuildError as ex:
        exe = None
        tie_broken.append(f"TSan harness build failed ({ex.what}): {ex.output[-500:]}")
    if exe is not None:
        runs = [(8.0, 3, seed)] if tier == "quick" else [(25.0, 5, seed), (25.0, 6, seed + 1000)]
        if new_pairs and tier == "quick":
            runs.append((12.0, 4, seed + 7))       # enlarged search for a concrete replay of a new pair
        agg: dict = {}
        for secs, peers, sd in runs:
            rep, stt, _txt = run_tsan(ctx, exe, secs, peers, sd)
            reports += rep
            for k, v in stt.items():
                agg[k] = agg.get(k, 0) + v if isinstance(v, (int, float)) and k != "exit" else v
        stats = agg
        classes = [classify(r, st["site_locs"], violset) for r in reports]
        hist: dict = {}
        for c in classes:
            hist[c["class"]] = hist.get(c["class"], 0) + 1
            ctx.hist("tsan:" + c["class"])
        matched_sigs = sorted({h for c in classes if c["class"] == "matched" for h in c["hits"]})
        matched_locs = sorted({l for c in classes if c["class"] == "matched" for l in c["hit_locations"]})
        hist["matched_with_disagreeing_stacks"] = sum(1 for c in classes if c["class"] == "matched" and c.get("weak"))
        hist["matched_location_only"] = sum(1 for c in classes if c["class"] == "matched" and not c.get("roles_known"))
        ctx.coverage["tsan_matched_signatures"] = matched_sigs
        ctx.coverage.update({"tsan_reports": len(reports), "tsan_by_class": hist, "tsan_matched_locations": matched_locs,
                             "tsan_harness_stats": stats, "tsan_runs": [list(r) for r in runs]})
        ctx.coverage["traces_validated_against_impl"] = hist.get("matched", 0)
        ctx.coverage["distinct_nontrivial"] = len(matched_locs)
        for r, c in list(zip(reports, classes))[:4]:
            if c["class"] == "matched":
                ctx.sample({"tsan": r["summary"][:200], "maps_to": c["hits"][:4], "roles": c["roles"]})
        if stats.get("requests_ok", 0) == 0 or stats.get("control_ok", 0) == 0 or stats.get("ticks", 0) == 0:
            tie_broken.append(f"TSan harness did not exercise the daemon (stats {stats})")
        # a TSan race the table does not predict: the extractor is unsound there
        for r, c in zip(reports, classes):
            if c["class"] == "unpredicted":
                sig = "tsan-unpredicted:" + ",".join(c["locations"])[:80]
                ctx.report(sig, "broken-correspondence",
                           {"monitor": "ThreadSanitizer reported a race on a location for which the extracted table has no lock-less "
                                       "conflicting pair for these roles: the extractor missed an access or over-estimated a lockset",
                            "tsan_report": r["text"], "classification": c,
                            "table_rows": {l: row_dump(rows, next((f for f in fields if short(f) == l), l)) for l in c["locations"]}},
                           found_input=True)
        unatt = [r for r, c in zip(reports, classes) if c["class"] == "unattributed"]
        if unatt:
            ctx.notes.append(f"{len(unatt)} TSan report(s) could not be attributed to a table location (no analysed frame with a "
                             f"recorded access): " + "; ".join(sorted({u['summary'][:160] for u in unatt}))[:1500])
        # new pairs: VIOLATION, with the TSan report attached when TSan reproduced it
        for field, ra, rb, sig in new_pairs:
            tsan_hit = next((r for r, c in zip(reports, classes) if c["class"] == "matched" and sig in c["hits"]), None)
            payload = {"monitor": f"the access table has conflicting accesses of {short(field)} by roles {ra} and {rb} without a common "
                                  f"lock, and the pair is not a listed known finding",
                       "theorem": "EphVerif.C36.table_violations / C36_counterexamples (this triple is in expectedViolations)",
                       "table_rows": row_dump(rows, field)}
            if tsan_hit is not None:
                payload["tsan_report"] = tsan_hit["text"]
            ctx.report(sig, "failing-input" if tsan_hit else "broken-obligation", payload, found_input=tsan_hit is not None)
    else:
        for field, ra, rb, sig in new_pairs:
            ctx.report(sig, "broken-obligation", {"monitor": "new lock-less conflicting pair (TSan harness unavailable)",
                                                  "table_rows": row_dump(rows, field)}, found_input=False)

    # 4. broken obligations / tie without anything more specific -------------------------------------------
    if (broken or tie_broken) and not ctx.violations:
        ctx.report("broken:" + sha("|".join(broken + tie_broken))[:10],
                   "broken-obligation" if broken else "broken-correspondence",
                   {"theorem": broken, "correspondence": tie_broken,
                    "monitor": "proof obligations or the table/TSan tie are broken; no concrete racy pair beyond the known ones was found"},
                   found_input=False)
    elif broken or tie_broken:
        ctx.notes.append("also broken: " + "; ".join(broken + tie_broken)[:1500])
    if not ctx.coverage["samples"]:
        ctx.sample({"first_pairs": [signature(fields[f], ROLE_ORDER[a], ROLE_ORDER[b]) for f, a, b in viols[:6]]})
    return ctx.finish("proof")


def _replay(ctx: Ctx, path: str) -> int:
    """Re-derive the table from the working tree and tell whether the recorded pair is still there
    (and, for TSan-backed replays, run the harness once more looking for it)."""
    doc = json.loads(Path(path).read_text())
    sig = doc.get("signature", "")
    st = _STATE
    fields, viols, rows = st["fields"], st["viols"], st["rows"]
    sigs = {signature(fields[f], ROLE_ORDER[a], ROLE_ORDER[b]): fields[f] for f, a, b in viols}
    print(f"replay {path}: signature {sig}")
    bad = False
    if sig in sigs:
        bad = True
        print("the extracted table still has this lock-less conflicting pair:")
        for l in row_dump(rows, sigs[sig]):
            print("   " + l)
    elif sig.startswith("tsan-unpredicted:"):
        try:
            exe = harness()
            reports, stats, _ = run_tsan(ctx, exe, 10.0, 4, ctx.seed)
            violset = {(fields[f], *sorted([ROLE_ORDER[a], ROLE_ORDER[b]])) for f, a, b in viols}
            for r in reports:
                c = classify(r, st["site_locs"], violset)
                if c["class"] == "unpredicted":
                    bad = True
                    print("TSan again reports a race the table does not predict:", c["locations"], c["roles"])
                    print(r["text"][:3000])
                    break
        except BuildError as ex:
            print("harness build failed:", ex.what)
    print("REPRODUCED" if bad else "not reproduced")
    import shutil
    shutil.rmtree(ctx.work, ignore_errors=True)
    return 1 if bad else 0
