"""C10 — Shamir sharing reconstructs from any threshold subset and rejects bad sets."""
from tools.vlib import *

PID = "C10"
READY = False
MANIFEST = {
    "level_text": "TODO",
    "level_note": "TODO",
    "technique": "TODO",
}

SRC = "src/crypto/Shamir.cpp"
HDR = "include/ephemeralnet/crypto/Shamir.hpp"


def harness():
    return build_harness("shamir_h", "harness/shamir_h.cpp", [], includes_repo_cpp=True)


# --------------------------------------------------------------------------------------
# (T) extraction
# --------------------------------------------------------------------------------------

_INDEX_BITS = {"std::uint8_t": 8, "uint8_t": 8, "unsigned char": 8, "std::uint16_t": 16, "uint16_t": 16,
               "unsigned short": 16, "unsigned int": 32, "unsigned": 32, "std::uint32_t": 32, "uint32_t": 32,
               "int": 31, "std::size_t": 64, "size_t": 64, "std::uint64_t": 64, "uint64_t": 64, "unsigned long": 64}


def _py_tables(poly: int, bit: int, fill: int, wrap: int, size: int, logfill: int):
    exp = [0] * size
    x = 1
    for i in range(fill):
        exp[i] = x & 0xFF
        x = (x << 1) & 0xFFFF
        if x & bit:
            x = (x ^ poly) & 0xFFFF
    for i in range(wrap, size):
        exp[i] = exp[i - wrap]
    log = [0] * 256
    for i in range(logfill):
        log[exp[i]] = i
    return exp, log


def extract():
    vals, gaps = extract_consts([
        Const("kFieldPolynomial", SRC, r"kFieldPolynomial\s*=\s*([^;]+);", default=0x11D),
        Const("kReduceBit", SRC, r"if\s*\(\s*x\s*&\s*([0-9a-fA-FxXuU]+)\s*\)", default=0x100),
        Const("kExpTableSize", SRC, r"std::array<std::uint8_t,\s*(\d+)>\s+build_exp_table", default=512),
        Const("kLogTableSize", SRC, r"std::array<std::uint8_t,\s*(\d+)>\s+build_log_table", default=256),
        Const("kExpFill", SRC, r"build_exp_table\(\)\s*\{.*?for\s*\(std::size_t i = 0; i < (\d+); \+\+i\)\s*\{\s*exp\[i\] = static_cast", default=255),
        Const("kExpWrapStart", SRC, r"for\s*\(std::size_t i = (\d+); i < exp\.size\(\); \+\+i\)", default=255),
        Const("kExpWrap", SRC, r"exp\[i\] = exp\[i - (\d+)\];", default=255),
        Const("kLogFill", SRC, r"build_log_table\(.*?for\s*\(std::size_t i = 0; i < (\d+); \+\+i\)\s*\{\s*log\[exp\[i\]\]", default=255),
        Const("kMulMod", SRC, r"return exp\[sum % (\d+)\];", default=255),
        Const("kDivMod", SRC, r"auto index = diff % (\d+);", default=255),
        Const("kDivAdd", SRC, r"if \(index < 0\) \{\s*index \+= (\d+);", default=255),
        Const("kShareIndexStart", SRC, r"for\s*\([\w:\s]+?\bshare_index = (\d+); share_index <= share_count;", default=1),
        Const("kSecretBytes", HDR, r"struct ShamirShare\s*\{.*?std::array<std::uint8_t,\s*(\d+)>\s+value", default=32),
        Const("kInterpolateBytes", SRC, r"std::array<std::uint8_t,\s*(\d+)>\s+secret\{\};", default=32),
    ])
    # width of the share-index loop counter (the n = 255 termination argument depends on it)
    txt = (REPO / SRC).read_text(errors="replace")
    m = re.search(r"for\s*\(\s*([\w:\s]+?)\s+share_index\s*=", txt)
    bits = _INDEX_BITS.get(" ".join(m.group(1).split())) if m else None
    if bits is None:
        gaps.append("kShareIndexModulus: loop counter type of share_index not recognised")
        bits = 32
    vals["kShareIndexModulus"] = 2 ** bits
    # the two tables, as the compiled source builds them (the harness dumps build_exp_table / build_log_table)
    exp = log = None
    try:
        hb = harness()
        d = BUILD / "tmp" / f"C10-extract-{os.getpid()}"
        d.mkdir(parents=True, exist_ok=True)
        try:
            out = run_harness(hb, [Case(ops=["exptab", "logtab"], cid="t")], d, timeout=60)["t"][0]
        finally:
            shutil.rmtree(d, ignore_errors=True)
        exp = list(bytes.fromhex(out[0]))
        log = list(bytes.fromhex(out[1]))
    except Exception as ex:  # translator gap, fall back to a re-computation from the constants
        gaps.append(f"tables: could not dump the compiled tables ({type(ex).__name__}); recomputed from the extracted constants")
    if not exp or not log:
        exp, log = _py_tables(vals["kFieldPolynomial"], vals["kReduceBit"], vals["kExpFill"], vals["kExpWrap"],
                              vals["kExpTableSize"], vals["kLogFill"])

    def lst(name, xs):
        rows = [", ".join(str(v) for v in xs[i:i + 32]) for i in range(0, len(xs), 32)]
        return f"def {name} : List Nat := [\n  " + ",\n  ".join(rows) + "]"

    body = lean_consts(vals) + "\n\n" + \
        "/-- `build_exp_table()` as computed by the compiled source. -/\n" + lst("expTableLit", exp) + "\n\n" + \
        "/-- `build_log_table(build_exp_table())` as computed by the compiled source. -/\n" + lst("logTableLit", log)
    write_generated(PID, body)
    return gaps


def spec() -> Spec:
    raise NotImplementedError


def run(tier, seed, replay=None):
    return standard_check(spec(), tier, seed, replay)
