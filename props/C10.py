"""C10 — Shamir sharing reconstructs from any threshold subset and rejects bad sets."""
from tools.vlib import *

PID = "C10"
READY = True      # on the repaired tree: the coordinator must apply fixes/C10-split-255-terminates.patch and
                  # fixes/C10-combine-distinct-indices.patch; on the unrepaired /repo the check reports exactly
                  # split-terminates, reject-duplicate and reject-zero-index (see notes/C10.md)
MANIFEST = {
    "level_text": "Lean 4 theorems (EphVerif.C10.*) about a Lean model of Shamir.cpp, for all inputs: (1) gf256_field / gf_div / "
                  "gf_mul_is_polynomial_multiplication: bytes with gf_add (xor) and the log/exp-table gf_mul form a field (closure, "
                  "commutativity, associativity, units, distributivity, inverses), gf_div throws exactly on a zero divisor and otherwise "
                  "returns the quotient, and the table product equals shift-and-add multiplication modulo x^8+x^4+x^3+x^2+1; packaged as a "
                  "Mathlib Field instance. (2) split: for every secret, every 1 <= t <= n <= 255 (n = 255 included) and every outcome of "
                  "the random draws, split terminates with n shares, indices exactly 1..n, each share byte the evaluation of a polynomial "
                  "of degree < t with the secret byte as constant term (split_uint8_counter_never_exits proves that the original uint8_t "
                  "loop never exits at n = 255). (3) combine: any selection of those shares in any order whose first t members have "
                  "distinct indices reconstructs the secret (Lagrange interpolation at 0 via Mathlib's Lagrange.interpolate). (4) "
                  "reject_too_few / reject_bad_indices / combine_value_only_if_wellformed / combine_wellformed_ok: fewer than t shares, "
                  "a repeated index or index 0 among the shares used give invalid-argument whatever the bytes are; a value is presented "
                  "only for well-formed sets; combine never hangs and does not throw on well-formed sets. (5) secrecy: for any t-1 "
                  "distinct non-zero indices and any candidate secret byte the map coefficient vector -> share-value vector is a bijection; "
                  "secrecy_joint / draws_fresh_per_byte: for the whole 32-byte secret, with the draw-consumption pattern of the source (the "
                  "random device is called inside the per-byte loop: coefficient d of byte b is draw b(t-1)+d, 32(t-1) distinct draws, "
                  "regenerated flag kDrawPerByte) the map from all 32(t-1) draws to all 32(t-1) bytes of any t-1 shares is a bijection for "
                  "every secret; shared_draws_leak / shared_draws_secrecy_fails: with one coefficient set shared by all bytes every single "
                  "share satisfies value[i]^value[j] = secret[i]^secret[j] and the map is not onto. "
                  "Tie to the code: all numeric literals of Shamir.cpp, the width of the share-index counter and both tables (dumped from the "
                  "compiled build_exp_table/build_log_table) are regenerated on every run and the proofs depend on them "
                  "(tables_match_source); the real Shamir.cpp (anonymous-namespace GF functions included) runs in-process against the "
                  "compiled model: the complete gf_mul / gf_div tables, split over boundary/random (t, n) pairs and, thorough tier, the "
                  "triangle 1 <= t <= n <= 255 (every pair for n <= 64, seven thresholds for every larger n), combine on random subsets/orders and malformed sets, with the Lean specification "
                  "(field axioms on the exhibited table, polynomial-consistency of the shares, spec-field Lagrange reconstruction, number of "
                  "values taken from the interposed random device = 32(t-1) and no common random part across bytes) judging every line.",
    "level_note": "Holds on the tree with the two C10 fix patches applied (the model follows the repaired code). Trusted: Lean kernel and "
                  "the Mathlib modules imported (Algebra.Field.Defs, LinearAlgebra.Lagrange); the hand transcription of gf_mul/gf_div/"
                  "evaluate_polynomial/interpolate/split/combine into Lean (checked by the differential run; 7 hand-made mutants and the "
                  "2 original defects were all caught); std::random_device is a parameter of the model (theorems quantify over every "
                  "draw sequence) and is replaced by a deterministic stream in the harness; its entropy quality and the informal step "
                  "'bijection => uniform and independent of the secret' are outside the proof. A split hang is recognised in the harness "
                  "by a 2 s CPU-time limit on a watched worker thread. combine(…, 0) (threshold 0, outside the property's domain) returns the "
                  "all-zero secret in code and model and is not judged.",
    "technique": "Lean 4 proof (finite-field structure via log/exp bijection and xtime linearity, Mathlib Lagrange interpolation) + regenerated "
                 "constants/tables + model/implementation differential correspondence with Lean monitor",
}

SRC = "src/crypto/Shamir.cpp"
HDR = "include/ephemeralnet/crypto/Shamir.hpp"


def harness():
    return build_harness("shamir_h", "harness/shamir_h.cpp", [], includes_repo_cpp=True, libs=("-lpthread",))


# --------------------------------------------------------------------------------------
# (T) extraction
# --------------------------------------------------------------------------------------

_INDEX_BITS = {"std::uint8_t": 8, "uint8_t": 8, "unsigned char": 8, "std::uint16_t": 16, "uint16_t": 16,
               "unsigned short": 16, "unsigned int": 32, "unsigned": 32, "std::uint32_t": 32, "uint32_t": 32,
               "int": 31, "std::size_t": 64, "size_t": 64, "std::uint64_t": 64, "uint64_t": 64, "unsigned long": 64}


def _py_tables(poly: int, bit: int, fill: int, wrap: int, size: int, logfill: int):
    exp = [0] * size
    x = 1
    for i in range(fill):
        exp[i] = x & 0xFF
        x = (x << 1) & 0xFFFF
        if x & bit:
            x = (x ^ poly) & 0xFFFF
    for i in range(wrap, size):
        exp[i] = exp[i - wrap]
    log = [0] * 256
    for i in range(logfill):
        log[exp[i]] = i
    return exp, log


def _strip_cxx_comments(text: str) -> str:
    text = re.sub(r"/\*.*?\*/", " ", text, flags=re.S)
    return re.sub(r"//[^\n]*", " ", text)


def _block(text: str, open_at: int) -> int:
    """index just past the `}` matching the `{` at text[open_at]"""
    depth = 0
    for i in range(open_at, len(text)):
        if text[i] == "{":
            depth += 1
        elif text[i] == "}":
            depth -= 1
            if depth == 0:
                return i + 1
    return len(text)


def draw_site(txt: str):
    """Where does Shamir::split call the random device relative to its per-byte loop?
    Returns (inside: bool | None, detail).  inside=True: every `rd()` call of split lies in the body of the
    `for (... byte ...)` loop (a fresh set of draws per secret byte); False: some call lies outside."""
    txt = _strip_cxx_comments(txt)
    m = re.search(r"Shamir::split\s*\([^)]*\)\s*\{", txt, flags=re.S)
    if not m:
        return None, "Shamir::split not found"
    start = m.end() - 1
    body = txt[start:_block(txt, start)]
    dev = re.search(r"std::random_device\s+(\w+)\s*;", body)
    if not dev:
        return None, "no std::random_device in Shamir::split"
    name = dev.group(1)
    calls = [c.start() for c in re.finditer(r"\b%s\s*\(\s*\)" % re.escape(name), body)]
    other = [c.start() for c in re.finditer(r"\b%s\b" % re.escape(name), body)
             if c.start() != dev.start(1) and c.start() not in calls]
    lp = re.search(r"for\s*\(\s*std::size_t\s+byte\s*=[^;]*;[^;]*;[^)]*\)\s*\{", body)
    if not lp:
        return None, "per-byte loop not found"
    lo, hi = lp.end() - 1, _block(body, lp.end() - 1)
    if not calls:
        return None, "no direct call of the random device (passed to something else?)"
    inside = all(lo <= c < hi for c in calls) and all(lo <= c < hi for c in other)
    return inside, f"{len(calls)} call(s), {'all inside' if inside else 'some outside'} the per-byte loop"



def extract():
    vals, gaps = extract_consts([
        Const("kFieldPolynomial", SRC, r"kFieldPolynomial\s*=\s*([^;]+);", default=0x11D),
        Const("kReduceBit", SRC, r"if\s*\(\s*x\s*&\s*([0-9a-fA-FxXuU]+)\s*\)", default=0x100),
        Const("kExpTableSize", SRC, r"std::array<std::uint8_t,\s*(\d+)>\s+build_exp_table", default=512),
        Const("kLogTableSize", SRC, r"std::array<std::uint8_t,\s*(\d+)>\s+build_log_table", default=256),
        Const("kExpFill", SRC, r"build_exp_table\(\)\s*\{.*?for\s*\(std::size_t i = 0; i < (\d+); \+\+i\)\s*\{\s*exp\[i\] = static_cast", default=255),
        Const("kExpWrapStart", SRC, r"for\s*\(std::size_t i = (\d+); i < exp\.size\(\); \+\+i\)", default=255),
        Const("kExpWrap", SRC, r"exp\[i\] = exp\[i - (\d+)\];", default=255),
        Const("kLogFill", SRC, r"build_log_table\(.*?for\s*\(std::size_t i = 0; i < (\d+); \+\+i\)\s*\{\s*log\[exp\[i\]\]", default=255),
        Const("kMulMod", SRC, r"return exp\[sum % (\d+)\];", default=255),
        Const("kDivMod", SRC, r"auto index = diff % (\d+);", default=255),
        Const("kDivAdd", SRC, r"if \(index < 0\) \{\s*index \+= (\d+);", default=255),
        Const("kShareIndexStart", SRC, r"for\s*\([\w:\s]+?\bshare_index = (\d+); share_index <= share_count;", default=1),
        Const("kDegreeStart", SRC, r"for\s*\(std::uint8_t degree = (\d+); degree < threshold; \+\+degree\)", default=1),
        Const("kSecretBytes", HDR, r"struct ShamirShare\s*\{.*?std::array<std::uint8_t,\s*(\d+)>\s+value", default=32),
        Const("kInterpolateBytes", SRC, r"std::array<std::uint8_t,\s*(\d+)>\s+secret\{\};", default=32),
    ])
    # width of the share-index loop counter (the n = 255 termination argument depends on it)
    txt = (REPO / SRC).read_text(errors="replace")
    m = re.search(r"for\s*\(\s*([\w:\s]+?)\s+share_index\s*=", txt)
    bits = _INDEX_BITS.get(" ".join(m.group(1).split())) if m else None
    if bits is None:
        gaps.append("kShareIndexModulus: loop counter type of share_index not recognised")
        bits = 32
    vals["kShareIndexModulus"] = 2 ** bits
    # consumption pattern of the random draws: a fresh set per secret byte (call inside the per-byte loop) or one shared set
    inside, detail = draw_site(txt)
    if inside is None:
        gaps.append(f"kDrawPerByte: {detail}")
        inside = True
    # the two tables, as the compiled source builds them (the harness dumps build_exp_table / build_log_table)
    exp = log = None
    try:
        hb = harness()
        d = BUILD / "tmp" / f"C10-extract-{os.getpid()}"
        d.mkdir(parents=True, exist_ok=True)
        try:
            out = run_harness(hb, [Case(ops=["exptab", "logtab"], cid="t")], d, timeout=60)["t"][0]
        finally:
            shutil.rmtree(d, ignore_errors=True)
        exp = list(bytes.fromhex(out[0]))
        log = list(bytes.fromhex(out[1]))
    except Exception as ex:  # translator gap, fall back to a re-computation from the constants
        gaps.append(f"tables: could not dump the compiled tables ({type(ex).__name__}); recomputed from the extracted constants")
    if not exp or not log:
        exp, log = _py_tables(vals["kFieldPolynomial"], vals["kReduceBit"], vals["kExpFill"], vals["kExpWrap"],
                              vals["kExpTableSize"], vals["kLogFill"])

    def lst(name, xs):
        rows = [", ".join(str(v) for v in xs[i:i + 32]) for i in range(0, len(xs), 32)]
        return f"def {name} : List Nat := [\n  " + ",\n  ".join(rows) + "]"

    body = lean_consts(vals) + "\n" + \
        "/-- `true`: Shamir::split calls the random device inside its per-byte loop (fresh coefficients for every secret byte);\n" \
        "    `false`: outside (one coefficient set shared by all bytes).  " + detail.replace("-/", "") + " -/\n" + \
        f"def kDrawPerByte : Bool := {'true' if inside else 'false'}\n\n" + \
        "/-- `build_exp_table()` as computed by the compiled source. -/\n" + lst("expTableLit", exp) + "\n\n" + \
        "/-- `build_log_table(build_exp_table())` as computed by the compiled source. -/\n" + lst("logTableLit", log)
    write_generated(PID, body)
    return gaps


# --------------------------------------------------------------------------------------
# generator
# --------------------------------------------------------------------------------------

BOUNDARY_TN = [(1, 1), (1, 2), (2, 2), (2, 3), (3, 5), (5, 8), (1, 255), (2, 255), (3, 255), (128, 255), (254, 255),
               (255, 255), (254, 254), (1, 254), (127, 254), (2, 128), (128, 128), (16, 17), (32, 64)]


def _secret(rng) -> str:
    r = rng.random()
    if r < 0.08:
        return "00" * 32
    if r < 0.14:
        return "ff" * 32
    if r < 0.20:
        return "".join(rng.choice(["00", "01", "ff"]) for _ in range(32))
    return "".join(f"{rng.randrange(256):02x}" for _ in range(32))


def _rngmode(rng) -> str:
    r = rng.random()
    if r < 0.12:
        return "z"
    if r < 0.22:
        return f"k{rng.choice([1, 2, 255, rng.randrange(256)])}"
    return f"r{rng.randrange(1 << 32)}"


def _sel(xs) -> str:
    return ",".join(map(str, xs)) if xs else "-"


def split_case(rng, t: int, n: int, ncomb: int, tag: str, secret=None, mode=None) -> Case:
    """one split and combine() on selections of its shares: exact-threshold subsets in random order, reversed,
    more than t, one short, with a repeated position inside / outside the first t, a lower threshold."""
    ops = [f"split {secret or _secret(rng)} {t} {n} {mode or _rngmode(rng)}"]
    for _ in range(ncomb):
        kind = rng.choice(["exact", "exact", "exact", "more", "short", "dup", "dup", "dup-late", "all-rev", "lower"])
        if kind == "exact":
            ops.append(f"combsel {t} {_sel(rng.sample(range(n), t))}")
        elif kind == "more":
            m = rng.randint(t, n)
            ops.append(f"combsel {t} {_sel(rng.sample(range(n), m))}")
        elif kind == "short":
            ops.append(f"combsel {t} {_sel(rng.sample(range(n), t - 1))}")
        elif kind == "dup":
            if t >= 2:
                xs = rng.sample(range(n), t)
                i, j = rng.sample(range(t), 2)
                xs[j] = xs[i]
                ops.append(f"combsel {t} {_sel(xs)}")
            else:
                ops.append(f"combsel {t} -")
        elif kind == "dup-late":            # a repetition after the first t shares is not looked at
            xs = rng.sample(range(n), t)
            ops.append(f"combsel {t} {_sel(xs + [rng.choice(xs)])}")
        elif kind == "all-rev":
            ops.append(f"combsel {t} {_sel(list(range(n - 1, -1, -1)))}")
        else:                                # lower threshold than the split's: any value, but no crash
            tt = rng.randint(0, t)
            ops.append(f"combsel {tt} {_sel(rng.sample(range(n), min(n, tt)))}")
    return Case(ops=ops, tag=tag)


def zero_dup_case(rng) -> Case:
    """the witness family of the second defect: all-zero secret and zero coefficients give all-zero shares;
    a repeated index among them must be rejected although every division is skipped."""
    n = rng.choice([2, 3, 5, 8, 255])
    t = rng.randint(2, min(n, 6))
    ops = [f"split {'00' * 32} {t} {n} z"]
    xs = rng.sample(range(n), t)
    xs[rng.randrange(1, t)] = xs[0]
    ops.append(f"combsel {t} {_sel(xs)}")
    ops.append(f"combsel {t} {_sel([xs[0]] * t)}")
    z = "00" * 32
    idx = rng.randint(1, 255)
    ops.append(f"combine 2 {idx}:{z},{idx}:{z}")
    sparse = "".join(rng.choice(["00", "00", "00", f"{rng.randrange(256):02x}"]) for _ in range(32))
    ops.append(f"combine 2 {idx}:{sparse},{idx}:{z}")
    ops.append(f"combine 3 {idx}:{z},{(idx % 255) + 1}:{sparse},{idx}:{z}")
    return Case(ops=ops, tag="zero-dup")


def _val(rng) -> str:
    r = rng.random()
    if r < 0.15:
        return "00" * 32
    if r < 0.3:
        return "".join(rng.choice(["00", "00", f"{rng.randrange(256):02x}"]) for _ in range(32))
    return "".join(f"{rng.randrange(256):02x}" for _ in range(32))


def combine_case(rng, malformed: bool) -> Case:
    """explicit share sets handed to combine(): arbitrary indices and values."""
    ops = []
    for _ in range(rng.randint(3, 8)):
        t = rng.choice([1, 2, 2, 3, 3, 4, 5, 8, 16])
        if not malformed:
            m = rng.randint(t, t + 2)
            idx = rng.sample(range(1, 256), m)
            ops.append(f"combine {t} " + ",".join(f"{i}:{_val(rng)}" for i in idx))
            continue
        kind = rng.choice(["short", "dup", "dup", "zero", "empty", "t0", "dup-late", "zero-late"])
        if kind == "short":
            idx = rng.sample(range(1, 256), t - 1)
            ops.append(f"combine {t} " + (",".join(f"{i}:{_val(rng)}" for i in idx) or "-"))
        elif kind == "dup" and t >= 2:
            idx = rng.sample(range(1, 256), t)
            i, j = rng.sample(range(t), 2)
            idx[j] = idx[i]
            ops.append(f"combine {t} " + ",".join(f"{i}:{_val(rng)}" for i in idx))
        elif kind == "zero":
            idx = rng.sample(range(1, 256), t)
            idx[rng.randrange(t)] = 0
            ops.append(f"combine {t} " + ",".join(f"{i}:{_val(rng)}" for i in idx))
        elif kind == "empty":
            ops.append(f"combine {t} -")
        elif kind == "t0":
            idx = rng.sample(range(0, 256), rng.randint(0, 3))
            ops.append("combine 0 " + (",".join(f"{i}:{_val(rng)}" for i in idx) or "-"))
        elif kind == "dup-late":
            idx = rng.sample(range(1, 256), t)
            ops.append(f"combine {t} " + ",".join(f"{i}:{_val(rng)}" for i in idx + [idx[0]]))
        else:
            idx = rng.sample(range(1, 256), t)
            ops.append(f"combine {t} " + ",".join(f"{i}:{_val(rng)}" for i in idx + [0]))
    return Case(ops=ops, tag="combine-malformed" if malformed else "combine-raw")


def gf_table_case() -> Case:
    ops = ["exptab", "logtab"] + [f"mulrow {a}" for a in range(256)] + [f"divrow {a}" for a in range(256)]
    ops += ["fieldcheck", "gfdigest"] + [f"div {a} 0" for a in (0, 1, 2, 29, 128, 255)]
    return Case(ops=ops, tag="gf-table")


def gf_spot_case(rng) -> Case:
    ops = []
    for _ in range(24):
        r = rng.random()
        a = rng.choice([0, 1, 2, 3, 0x1d, 0x80, 0x8e, 0xff, rng.randrange(256)])
        b = rng.choice([0, 1, 2, 0x80, 0xff, rng.randrange(256), rng.randrange(256)])
        if r < 0.35:
            ops.append(f"mul {a} {b}")
        elif r < 0.7:
            ops.append(f"div {a} {b}")
        else:
            k = rng.choice([0, 1, 2, 3, 7, 31, 254])
            cs = "".join(f"{rng.choice([0, 0, 1, 255, rng.randrange(256)]):02x}" for _ in range(k)) or "-"
            ops.append(f"eval {a} {b} {cs}")
    return Case(ops=ops, tag="gf-spot")


def split_params_case(rng) -> Case:
    ops = []
    for _ in range(6):
        kind = rng.choice(["t0", "n0", "t>n", "both0"])
        if kind == "t0":
            t, n = 0, rng.randint(1, 255)
        elif kind == "n0":
            t, n = rng.randint(1, 255), 0
        elif kind == "both0":
            t, n = 0, 0
        else:
            n = rng.randint(1, 254)
            t = rng.randint(n + 1, 255)
        ops.append(f"split {_secret(rng)} {t} {n} {_rngmode(rng)}")
    ops.append("combsel 1 0")
    return Case(ops=ops, tag="split-params")


def generate(ctx, budget):
    rng = ctx.rng
    cases = [gf_table_case()]
    cases += [gf_spot_case(rng) for _ in range(max(4, budget // 40))]
    cases += [zero_dup_case(rng) for _ in range(max(6, budget // 40))]
    cases += [split_params_case(rng) for _ in range(max(3, budget // 100))]
    cases += [combine_case(rng, True) for _ in range(max(10, budget // 12))]
    cases += [combine_case(rng, False) for _ in range(max(10, budget // 12))]
    for (t, n) in BOUNDARY_TN:
        cases.append(split_case(rng, t, n, 4 if n > 64 else 8, "split-boundary"))
    if ctx.tier == "thorough":
        # the triangle 1 <= t <= n <= 255: every pair up to n = 64; for every larger n the thresholds 1, 2, n/2, n-1, n and
        # two random ones.  VERIF_C10_FULL_TRIANGLE=1 runs all 32 640 pairs (about 45 min of CPU with the sanitised harness).
        full = os.environ.get("VERIF_C10_FULL_TRIANGLE") == "1"
        for n in range(1, 256):
            if full or n <= 64:
                ts = range(1, n + 1)
            else:
                ts = sorted({1, 2, n // 2, n - 1, n, rng.randint(3, n - 2), rng.randint(3, n - 2)})
            for t in ts:
                cases.append(split_case(rng, t, n, 2, "split-triangle"))
    while len(cases) < budget:
        if rng.random() < 0.7:
            n = rng.randint(1, 40)
        else:
            n = rng.choice([rng.randint(1, 255), 255, 254, 128, 127, 64])
        t = rng.choice([1, n, max(1, n - 1), rng.randint(1, n), rng.randint(1, n), min(n, 2), min(n, 3)])
        cases.append(split_case(rng, t, n, 3 if n > 64 else 8, "split-random"))
    return cases


def nontrivial(r: CaseResult) -> bool:
    """a case counts when the implementation produced a value somewhere and (for share-set cases) also
    rejected something or reconstructed from a re-ordered subset."""
    tag = r.case.tag.split("/")[0]
    oks = sum(1 for o in r.impl if o.startswith("ok"))
    throws = sum(1 for o in r.impl if o.startswith("throw"))
    if tag.startswith("gf-"):
        return True
    if tag in ("combine-malformed", "split-params", "zero-dup"):
        return throws > 0
    if tag == "combine-raw":
        return oks > 0
    return oks >= 2


def spec() -> Spec:
    return Spec(
        pid=PID,
        proof_modules=["EphVerif.Proofs.C10"],
        driver="drv_c10",
        harness=harness,
        generate=generate,
        extract=extract,
        nontrivial=nontrivial,
        budget={"quick": 260, "thorough": 5000},
        search_budget={"quick": 600, "thorough": 7000},
        rule="(a) the complete 256x256 gf_mul and 255x256 gf_div tables, row by row, plus both log/exp tables and a digest; "
             "(b) split for (t, n): boundary pairs incl. n = 255 and t = n, random pairs, and in the thorough tier the triangle "
             "1 <= t <= n <= 255 (every pair for n <= 64, thresholds 1, 2, n/2, n-1, n and two random ones for every larger n; all "
             "32 640 pairs with VERIF_C10_FULL_TRIANGLE=1), each followed by combine() on random subsets/orders of its shares (exact t, more, one "
             "short, repeated position inside/outside the first t, reversed, lower threshold); (c) explicit well-formed and "
             "malformed share sets (too few, repeated index with zero / sparse / random bytes, index 0, t = 0, empty); secrets "
             "random / all-zero / all-ff, coefficient streams random / all-zero / constant. distinct = sha256 of the op list; "
             "non-trivial = the implementation returned a value and (where the shape contains one) rejected a bad set",
        trusted_base=["std::random_device is replaced in the harness by a deterministic stream (link-time interposition of its three "
                      "out-of-line members); the quality of the real entropy source is outside the model",
                      "split runs on a watched worker thread of the harness with a 2 s CPU-time limit (a hang is reported as `timeout`, the harness then re-executes itself and resumes; a valid split needs milliseconds)",
                      "the position of the random-device call relative to the per-byte loop is found by brace matching on the source text "
                      "(kDrawPerByte); a random source that is not a direct std::random_device call is reported as a translator gap and is "
                      "then only covered by the run-time clause split-draws"],
        assumptions=["share indices and bytes are uint8 values (the C++ types guarantee it); secrets are 32 bytes"],
        per_case_timeout=60.0,
        batch=1000,
    )


def run(tier, seed, replay=None):
    return standard_check(spec(), tier, seed, replay)
