"""C23 — upload concurrency limits hold and slots are always released."""
from tools.vlib import *

PID = "C23"
READY = True
MANIFEST = {
    "level_text": "Lean 4 theorems about a model of Node's upload scheduler (handle_request, process_pending_uploads with pruning / "
                  "rotation / the can-accept and can-dispatch tests, dispatch_upload, note_upload_start/end, prune_stale_uploads, "
                  "handle_acknowledge), for every configuration (limits 0 = unlimited included), every history of requests, "
                  "acknowledgements and ticks at arbitrary instants, and every answer of the environment (session key present, send "
                  "succeeds, chunk servable) at every step: the set of active uploads is exactly the specification's ledger of running "
                  "transfers (started by a chunk frame, ended by acknowledgement or by reaching the transfer timeout when the scheduler "
                  "runs); it never exceeds the global limit, no peer exceeds the per-peer limit; each peer's slot counter equals its number "
                  "of running transfers, hence is zero once all were acknowledged or timed out; a request from a peer with a session for an "
                  "unserveable chunk yields exactly one negative acknowledgement. The model is tied to the code by regenerated Config "
                  "defaults and by a differential run of the real Node (virtual clock, socketpair-planted sessions whose frames are "
                  "decrypted and decoded) against the compiled Lean model, with the Lean specification (ledger monitor) judging every "
                  "line the implementation produces.",
    "level_note": "Trusted: Lean kernel; the hand transcription of the scheduler into Lean (checked only by the differential run, which "
                  "compares frames, active set with ages, per-peer counters, queue order, completed count and rotation clock after every "
                  "op); the harness (plants Session objects, calls handle_request/handle_acknowledge/tick directly, reads private maps) and "
                  "its canonicalisation; the driver's small environment model (which chunks are servable at a given instant). Threads and "
                  "locking are out of scope (C36). Nanosecond arithmetic is unbounded Int in the model.",
    "technique": "Lean 4 invariant + refinement proof (induction over histories) and model/implementation differential correspondence with a Lean monitor",
}
SECOND = 1_000_000_000

CFG_FIELDS = [
    ("upload_max_parallel_transfers", r"std::uint16_t\s+upload_max_parallel_transfers\s*\{([^;]*)\}\s*;", 3),
    ("upload_max_transfers_per_peer", r"std::uint16_t\s+upload_max_transfers_per_peer\s*\{([^;]*)\}\s*;", 1),
    ("upload_reconsider_interval", r"std::chrono::seconds\s+upload_reconsider_interval\s*\{([^;]*)\}\s*;", 2),
    ("upload_transfer_timeout", r"std::chrono::seconds\s+upload_transfer_timeout\s*\{([^;]*)\}\s*;", 30),
    ("fetch_retry_initial_backoff", r"std::chrono::seconds\s+fetch_retry_initial_backoff\s*\{([^;]*)\}\s*;", 3),
    ("fetch_retry_max_backoff", r"std::chrono::seconds\s+fetch_retry_max_backoff\s*\{([^;]*)\}\s*;", 60),
    ("fetch_retry_success_interval", r"std::chrono::seconds\s+fetch_retry_success_interval\s*\{([^;]*)\}\s*;", 15),
    ("fetch_retry_attempt_limit", r"std::uint8_t\s+fetch_retry_attempt_limit\s*\{([^;]*)\}\s*;", 5),
    ("fetch_max_parallel_requests", r"std::uint16_t\s+fetch_max_parallel_requests\s*\{([^;]*)\}\s*;", 3),
    ("fetch_availability_refresh", r"std::chrono::seconds\s+fetch_availability_refresh\s*\{([^;]*)\}\s*;", 10),
    ("default_chunk_ttl", r"std::chrono::seconds\s+default_chunk_ttl\s*\{([^;]*)\}\s*;", 21600),
    ("min_manifest_ttl", r"std::chrono::seconds\s+min_manifest_ttl\s*\{([^;]*)\}\s*;", 30),
    ("max_manifest_ttl", r"std::chrono::seconds\s+max_manifest_ttl\s*\{([^;]*)\}\s*;", 21600),
]


def sched_harness():
    return build_harness("sched_h", "harness/sched_h.cpp", ALL_CORE_SOURCES, includes_repo_cpp=False, vclock=True,
                         libs=("-lcurl", "-lpthread"))


def config_consts(names):
    consts = [Const("cfg_" + n, "include/ephemeralnet/Config.hpp", pat, default=d) for n, pat, d in CFG_FIELDS if n in names]
    return extract_consts(consts)


def extract():
    vals, gaps = config_consts({"upload_max_parallel_transfers", "upload_max_transfers_per_peer", "upload_reconsider_interval",
                                "upload_transfer_timeout", "default_chunk_ttl", "min_manifest_ttl", "max_manifest_ttl"})
    write_generated(PID, lean_consts(vals))
    return gaps


def aimed_advance(rng, now, marks):
    """advance to a mark (deadline) -1 ns / exactly / +1 ns, or by a small random amount"""
    future = sorted(m for m in set(marks) if m - 1 > now)
    if future and rng.random() < 0.75:
        target = rng.choice(future[:5]) + rng.choice([-1, 0, 0, 1])
        return max(0, target - now)
    return rng.choice([0, 1, SECOND // 2, SECOND, 2 * SECOND, 7 * SECOND, 31 * SECOND])


def gen_case(rng, big: bool) -> Case:
    shape = rng.choice(["dup", "dup", "limits", "timeout", "nack", "rotate", "mixed", "mixed"])
    G = rng.choice([0, 1, 2, 3])
    P = rng.choice([0, 1, 2, 3]) if shape != "dup" else rng.choice([2, 3, 0, 2])
    timeout = rng.choice([30, 30, 5, 1, 0]) if shape != "timeout" else rng.choice([30, 5, 1, 2])
    recons = rng.choice([2, 2, 1, 0, 5])
    ops = [f"cfg upload_max_parallel_transfers {G}", f"cfg upload_max_transfers_per_peer {P}",
           f"cfg upload_transfer_timeout {timeout}", f"cfg upload_reconsider_interval {recons}"]
    if rng.random() < 0.1:
        ops = ops[:rng.randint(0, 3)]          # leave some fields at their defaults
    npeers = rng.choice([1, 2, 3, 4]) if shape != "dup" else rng.choice([1, 1, 2])
    peers = [f"p{i+1}" for i in range(npeers)]
    chunks = [f"c{i+1}" for i in range(rng.choice([1, 2, 3]) if shape != "dup" else 1)]
    now = 0
    marks = []
    for p in peers:
        if rng.random() < 0.93:
            ops.append(f"key {p}")
        if rng.random() < 0.9:
            ops.append(f"link {p}")
    for c in chunks:
        ttl = rng.choice([300, 300, 100, 40, 31, 30, 35, 0]) if shape in ("nack", "mixed") else rng.choice([300, 600])
        ops.append(f"have {c} {ttl}")
        eff = ttl if ttl > 0 else 21600
        eff = min(max(eff, 30), 21600)
        marks += [now + (eff - 30) * SECOND, now + eff * SECOND]
    reqs = []
    n = rng.randint(6, 30) if not big else rng.randint(30, 120)
    for _ in range(n):
        r = rng.random()
        if r < 0.38:
            p = rng.choice(peers)
            c = rng.choice(chunks) if rng.random() < (0.6 if shape == "nack" else 0.92) else "c9"
            if shape == "dup" and reqs and rng.random() < 0.6:
                p, c = rng.choice(reqs)
            ops.append(f"req {p} {c}")
            reqs.append((p, c))
            marks += [now + timeout * SECOND, now + recons * SECOND]
        elif r < 0.60:
            if reqs and rng.random() < 0.9:
                p, c = rng.choice(reqs)
            else:
                p, c = rng.choice(peers), rng.choice(chunks + ["c9"])
            ops.append(f"ack {p} {c} {rng.choice([0, 1, 1])}")
            marks += [now + recons * SECOND]
        elif r < 0.72:
            ops.append("tick")
            marks += [now + recons * SECOND]
        elif r < 0.92:
            d = aimed_advance(rng, now, marks)
            ops.append(f"adv {d}")
            now += d
        elif r < 0.96:
            p = rng.choice(peers)
            ops.append(rng.choice([f"unlink {p}", f"link {p}", f"link {p}", f"key {p}"]))
        else:
            c = rng.choice(chunks)
            ttl = rng.choice([300, 40, 31, 30])
            ops.append(f"have {c} {ttl}")
            marks += [now + (ttl - 30) * SECOND, now + ttl * SECOND]
    # drain: acknowledge everything in a random order, then tick past the timeout
    rng.shuffle(reqs)
    for p, c in reqs[: rng.randint(0, len(reqs))]:
        ops.append(f"ack {p} {c} 1")
    ops.append("tick")
    if timeout > 0:
        ops += [f"adv {timeout * SECOND + rng.choice([-1, 0, 1])}", "tick"]
    return Case(ops=ops, tag=shape)


def generate(ctx, budget):
    return [gen_case(ctx.rng, ctx.tier == "thorough" and i % 5 == 0) for i in range(budget)]


def nontrivial(r: CaseResult) -> bool:
    """some upload started, and a slot was released (completed counter moved) or a request was refused"""
    started = any(">chunk:" in o for o in r.impl)
    refused = any(">nack:" in o for o in r.impl)
    released = any(" done=" in o and not o.split(" done=")[1].startswith("0 ") for o in r.impl)
    return started and (refused or released)


def spec() -> Spec:
    return Spec(
        pid=PID,
        proof_modules=["EphVerif.Proofs.C23"],
        driver="drv_c23",
        harness=sched_harness,
        harness_args=["c23"],
        generate=generate,
        extract=extract,
        nontrivial=nontrivial,
        budget={"quick": 900, "thorough": 8000},
        search_budget={"quick": 2000, "thorough": 12000},
        rule="random histories of req/ack/tick/adv/link/unlink/have over 1-4 peers and 1-3 chunks (+1 never stored), global and "
             "per-peer limits 0..3, timeouts 0/1/2/5/30 s, rotation 0/1/2/5 s; repeated requests for the same (peer, chunk); "
             "advances aimed at start+timeout, rotation and servability deadlines (-1 ns, 0, +1 ns); distinct = sha256 of the op "
             "list; non-trivial = an upload started and (a slot was released or a request was refused)",
        trusted_base=["virtual clock by link-time interposition of steady_clock/system_clock::now",
                      "Session objects planted into SessionManager::sessions_ over socketpair(2); frames decrypted with the "
                      "peer's session key and decoded with protocol::decode_signed",
                      "driver-side environment model: a stored chunk is servable while at least min_manifest_ttl (30 s) remain"],
        assumptions=["single-threaded use of Node (no transport threads are started)",
                     "time arithmetic does not overflow int64 nanoseconds in generated cases"],
    )


def run(tier, seed, replay=None):
    return standard_check(spec(), tier, seed, replay)
