"""C02 — every lifetime the node creates lies inside the sanitised TTL window."""
import concurrent.futures as cf
import os

from tools.vlib import *
from tools import vlib as _v
from tools.extract_c02 import write_generated_c02

PID = "C02"
READY = True
MANIFEST = {
    "level_text": "Lean 4 theorems, for every configuration (all integer field values: negative, zero, inverted bounds, out of range) and every "
                  "requested TTL: the node's effective limits satisfy 1 s <= min <= max <= 24 h, min <= default <= max, 5 s <= rotation <= 1 h, "
                  "PoW difficulties <= 24; each of the four lifetimes a store records (chunk record, manifest expiry, shard record, self-announce) "
                  "lies in [min, max] and they are equal; ChunkStore::put's own floor is the identity on such a TTL; and for all 2^64 values of the "
                  "control-plane TTL header an accepted STORE has min <= TTL <= max (the u64->int64 conversion is modelled). The theorems are stated "
                  "about Lean definitions that are re-translated from the clang AST of the working tree on every run (sanitize_*, sanitize_config, "
                  "clamp_chunk_ttl and the TTL slices of Node::store_chunk/announce_chunk, ChunkStore::put, KademliaTable::publish_shards/add_contact "
                  "and the control STORE handler), so an edited comparison, constant or argument changes the Lean term and the proof is re-checked; "
                  "in addition the real Node / ChunkStore / ControlServer run in-process under a virtual clock against the compiled Lean model with "
                  "the Lean specification judging every limit, recorded lifetime and STORE answer the implementation produces.",
    "level_note": "Trusted: Lean kernel; the translator tools/extract_c02.py (clang-14 JSON AST -> Lean; every translated definition is also "
                  "exercised against the real function by the differential run, a function outside the translatable subset falls back to a "
                  "hand-written definition and is reported as a gap); the hand-written plumbing of Model/Ttl.lean (which callee receives which "
                  "argument), checked only by the differential run; the harness and its canonicalisation. Durations are unbounded Int seconds in "
                  "the model (the C++ only compares/assigns int64 seconds before the clamp; deadlines are shown to stay within 24 h of now).",
    "technique": "Lean 4 proof over definitions translated from the clang AST (T) + model/implementation differential correspondence with Lean monitor (H)",
}

I64_MAX = 9223372036854775807
I64_MIN = -9223372036854775808
DAY = 86400

TTL_SOURCES = ["src/core/Node.cpp", "src/core/ChunkStore.cpp", "src/dht/KademliaTable.cpp", "src/daemon/ControlServer.cpp"]


def harness():
    """harness/ttl_h.cpp (#includes src/core/Node.cpp) + harness/ttl_ctl_h.cpp (#includes src/daemon/ControlServer.cpp)
    + the remaining library sources. Own copy of vlib.build_harness so that each of the two big translation units is
    keyed on the one repository .cpp it includes (plus the include tree) instead of the whole src/ tree."""
    flags = list(BASE_FLAGS) + [f"-I{REPO}/include", f"-I{REPO}/src", f"-I{REPO}", f"-I{VERIF}/harness"]
    inc = tree_hash("include")
    common = VERIF / "harness" / "common"
    common_hash = sha(*[p.read_bytes() for p in sorted(common.glob("*")) if p.is_file()])
    jobs = []
    for s in ALL_CORE_SOURCES:
        if s != "src/core/Node.cpp":
            jobs.append((REPO / s, inc))
    for s in ("src/daemon/StructuredLogger.cpp", "src/daemon/ControlPlane.cpp"):
        jobs.append((REPO / s, inc))
    jobs.append((VERIF / "harness/ttl_h.cpp", inc + common_hash + sha((REPO / "src/core/Node.cpp").read_bytes())))
    jobs.append((VERIF / "harness/ttl_ctl_h.cpp", inc + common_hash + sha((REPO / "src/daemon/ControlServer.cpp").read_bytes())))
    jobs.append((common / "vclock.cpp", ""))
    with cf.ThreadPoolExecutor(max_workers=NPROC) as ex:
        objs = list(ex.map(lambda j: _v._compile_obj(j[0], flags, j[1]), jobs))
    libs = ["-lcurl", "-lpthread"]
    key = sha(*[o.name for o in objs], " ".join(flags), " ".join(libs))[:24]
    exe = BUILD / "bin" / f"ttl_h-{key}"
    if exe.exists():
        return exe
    exe.parent.mkdir(parents=True, exist_ok=True)
    tmp = exe.with_suffix(f".{os.getpid()}.tmp")
    sanit = [f for f in flags if f.startswith("-fsanitize") or f.startswith("-fno-sanitize")]
    r = subprocess.run([CXX, *sanit, "-o", str(tmp), *map(str, objs), *libs], capture_output=True, text=True)
    if r.returncode != 0:
        raise BuildError("link ttl_h", r.stdout + r.stderr)
    os.replace(tmp, exe)
    return exe


def extract():
    return write_generated_c02()


# ---- generator ----------------------------------------------------------------------------------

def clampi(v, lo, hi):
    return max(lo, min(hi, v))


def py_window(d, mn, mx):
    """the generator's own idea of the sanitised window, used only to aim values at boundaries"""
    mn = clampi(mn, 1, DAY)
    mx = clampi(max(mx, mn), 1, DAY)
    d = clampi(d, mn, mx)
    return d, mn, mx


def boundary(rng, lo, hi):
    """one of the 11 boundary values around a [lo, hi] window"""
    return rng.choice([0, 1, -1, lo - 1, lo, hi, hi + 1, DAY, DAY + 1, I64_MAX, I64_MIN])


def gen_cfg(rng, shape):
    if shape == "default":
        d, mn, mx = 21600, 30, 21600
    elif shape == "inverted":
        mx = rng.choice([1, 5, 30, 100, 3600, DAY - 1])
        mn = mx + rng.choice([1, 2, 60, DAY, 10 * DAY])
        d = rng.choice([0, mn - 1, mn, mx, mx + 1, (mn + mx) // 2, I64_MAX, -1])
    elif shape == "extreme":
        d, mn, mx = (rng.choice([I64_MAX, I64_MIN, 0, -1, DAY + 1, 2 * DAY]) for _ in range(3))
    else:
        lo = rng.choice([1, 2, 30, 60, 3600, DAY - 1, DAY])
        hi = rng.choice([lo, lo + 1, 2 * lo, 21600, DAY - 1, DAY])
        mn, mx, d = boundary(rng, lo, hi), boundary(rng, lo, hi), boundary(rng, lo, hi)
        if rng.random() < 0.5:
            mn = rng.choice([lo, lo, lo - 1, lo + 1])
        if rng.random() < 0.5:
            mx = rng.choice([hi, hi, hi - 1, hi + 1])
    rot = rng.choice([0, 1, -1, 4, 5, 6, 300, 3599, 3600, 3601, DAY, I64_MAX, I64_MIN])
    amin = rng.choice([0, 1, -1, 2, 15, 3600, 3601, I64_MAX, I64_MIN])
    burst = rng.choice([0, 1, 2, 4, 2**32, 2**64 - 1])
    awin = rng.choice([0, 1, -1, 14, 15, 16, 120, 3600, 3601, I64_MAX, I64_MIN])
    pows = [rng.choice([0, 1, 6, 23, 24, 25, 26, 128, 255]) for _ in range(3)]
    return [d, mn, mx, rot, amin, burst, awin, *pows]


def gen_case(rng, shape) -> Case:
    f = gen_cfg(rng, shape)
    ops = ["cfg " + " ".join(str(x) for x in f)]
    d, mn, mx = py_window(f[0], f[1], f[2])
    ttls = [0, -1, 1, mn - 1, mn, mn + 1, d, mx - 1, mx, mx + 1, DAY + 1, I64_MAX, I64_MIN, rng.randint(mn, mx)]
    rng.shuffle(ttls)
    for i, t in enumerate(ttls[:12]):
        ops.append(f"store c{i % 3 + 1} {t}")
        if rng.random() < 0.1:
            ops.append(f"adv {rng.choice([1, 999999999, 1000000000, 5000000000])}")
    hdrs = ["-", "e", "0", "1", str(mn - 1), str(mn), str(mn + 1), str(mx - 1), str(mx), str(mx + 1), str(DAY), str(DAY + 1),
            str(2**63 - 1), str(2**63), str(2**63 + mn), str(2**64 - 1), str(2**64), str(2**64 + mn), "007", "+5", "-1", "5s", "0x10",
            str(2**64 - DAY), str(2**64 - 1 - mx + mn)]
    rng.shuffle(hdrs)
    for h in hdrs[:rng.choice([5, 7, 9])]:
        ops.append(f"ctl {h}")
    # the pure functions on boundary values (generated definitions vs the real functions)
    for _ in range(rng.choice([4, 8])):
        k = rng.random()
        v = boundary(rng, mn, mx)
        if k < 0.15:
            ops.append(f"rot {rng.choice([0, -1, 4, 5, 6, 3600, 3601, v])}")
        elif k < 0.3:
            ops.append(f"smin {v}")
        elif k < 0.45:
            ops.append(f"smax {v} {boundary(rng, mn, mx)}")
        elif k < 0.55:
            ops.append(f"aint {rng.choice([0, -1, 1, 2, v])}")
        elif k < 0.65:
            ops.append(f"awin {rng.choice([0, -1, 1, 3600, 3601, v])}")
        elif k < 0.8:
            ops.append(f"clamp {boundary(rng, mn, mx)} {rng.choice([mn, mn, boundary(rng, mn, mx)])} {rng.choice([mx, mx, boundary(rng, mn, mx)])}")
        elif k < 0.9:
            ops.append(f"enforce {boundary(rng, mn, mx)} {rng.choice([mn, mn, boundary(rng, mn, mx)])} {rng.choice([mx, mx, boundary(rng, mn, mx)])}")
        else:
            ops.append(f"put {rng.choice([0, -1, 1, 2, d, mx, v if abs(v) < 10**9 else 7])}")
    return Case(ops=ops, tag=shape)


def generate(ctx, budget):
    shapes = ["grid", "grid", "grid", "inverted", "extreme", "default"]
    return [gen_case(ctx.rng, shapes[i % len(shapes)]) for i in range(budget)]


def nontrivial(r: CaseResult) -> bool:
    """a case counts when the sanitiser or the clamp visibly did something and the control plane both accepted and refused a STORE"""
    if not r.impl:
        return False
    changed = r.impl[0].split() != r.case.ops[0].split()[1:11]
    stores = [(op.split()[2], o) for op, o in zip(r.case.ops, r.impl) if op.startswith("store ")]
    clamped = any(f"ck={int(t) * 10**9} " not in o + " " for t, o in stores)
    ctl = [o for op, o in zip(r.case.ops, r.impl) if op.startswith("ctl ")]
    return (changed or clamped) and any(o.startswith("ok") for o in ctl) and any(o.startswith("rej") for o in ctl)


def spec() -> Spec:
    return Spec(
        pid=PID,
        proof_modules=["EphVerif.Proofs.C02"],
        driver="drv_c02",
        harness=harness,
        generate=generate,
        extract=extract,
        nontrivial=nontrivial,
        budget={"quick": 600, "thorough": 15000},
        search_budget={"quick": 1200, "thorough": 15000},
        rule="one Node per case constructed from a boundary-grid configuration (11 boundary values per TTL field around the window: 0, +-1, "
             "min-1, min, max, max+1, 86400, 86401, INT64_MAX, INT64_MIN; inverted and extreme shapes; rotation/announce/PoW fields on their own "
             "boundaries), 12 requested TTLs per node (0, -1, 1, min+-1, default, max+-1, 86401, INT64 extremes), 5-9 control STOREs with TTL "
             "headers (absent, empty, window +-1, 2^63-1, 2^63, 2^64-1, 2^64, malformed) and 4-8 direct calls of the sanitising functions; "
             "distinct = sha256 of the op list; non-trivial = the sanitiser or the clamp changed a value and the control plane both accepted and "
             "refused a STORE",
        trusted_base=["tools/extract_c02.py: clang-14 JSON AST -> Lean translation of the loop-free integer functions and TTL slices (each translated definition is also compared with the real function by the harness)",
                      "virtual clock by link-time interposition of steady_clock::now / system_clock::now",
                      "ControlServer::Impl::handle_client driven in-process over a socketpair (no listener thread); store PoW difficulty forced to 0 for the STORE ops (the TTL check precedes PoW)"],
        assumptions=["int64 seconds are only compared/assigned before clamping (no overflow possible); nanosecond deadlines are within 24 h of the clock value"],
    )


def run(tier, seed, replay=None):
    return standard_check(spec(), tier, seed, replay)
