"""C22 — swarm plans hand every shard to exactly one eligible provider, evenly."""
import re
from tools.vlib import *

PID = "C22"
READY = True
MANIFEST = {
    "level_text": "Lean 4 theorems over a model of SwarmCoordinator::compute_plan, for every ranking of the candidates (the floating-point "
                  "score, jitter and sort are abstracted to an arbitrary permutation), every shard list and every configuration value: the "
                  "providers are the first N ranked candidates with N = min(c, s, max(target, min(max(minprov, thr), c, s))) (the formula is "
                  "regenerated from the source and proved equal to the property's), they are distinct, never the node itself and among the "
                  "live peers offered by the routing table, shard position j goes to exactly provider j mod N, every provider gets at least one "
                  "shard and counts differ by at most one. Tie: regenerated formula + differential run of the real SwarmCoordinator/KademliaTable "
                  "against the compiled model, with an independent Lean specification checker judging every plan the implementation produces.",
    "level_note": "Trusted: Lean kernel; the hand transcription of the round-robin loop and candidate filtering (checked by the differential run); "
                  "the regex translator for the four min/max lines; liveness/distinctness of closest_peers results is C07's theorem and is "
                  "re-checked at run time by the monitor. The ranking (double arithmetic, mt19937) is not modelled: theorems hold for every ranking.",
    "technique": "Lean 4 proof (arithmetic invariant of round-robin, for all rankings) + translated formula + differential correspondence with Lean spec monitor",
}

SRC = "src/core/SwarmCoordinator.cpp"

LEAVES = {
    "min_config": (r"const auto min_config = static_cast<std::size_t>\(config_\.swarm_min_providers\);", "minCfg"),
    "target_config": (r"const auto target_config = static_cast<std::size_t>\(config_\.swarm_target_replicas\);", "targetCfg"),
    "threshold_required": (r"const auto threshold_required = static_cast<std::size_t>\(manifest\.threshold\);", "thr"),
    "total_shards": (r"const auto total_shards = static_cast<std::size_t>\(manifest\.shards\.size\(\)\);", "shards"),
}
DEFAULT_BODY = """def providerCount (cands shards thr minCfg targetCfg : Nat) : Nat :=
  let min_providers := max minCfg thr
  let clamped_min := min (min min_providers cands) shards
  let desired_target := max targetCfg clamped_min
  let provider_count := min (min cands desired_target) shards
  provider_count"""


def translate_formula() -> tuple[str, list[str]]:
    """(T) transcribe the provider-count lines `const auto x = std::min/max(...)` into Lean."""
    text = (REPO / SRC).read_text()
    gaps = []
    env = {"evaluated.size()": "cands"}
    for name, (pat, lean) in LEAVES.items():
        if re.search(pat, text):
            env[name] = lean
        else:
            gaps.append(f"leaf definition of {name} not recognised")
    lets = []
    start = text.find("const auto min_providers")
    end = text.find("if (provider_count == 0)")
    if start < 0 or end < 0 or gaps:
        return DEFAULT_BODY, gaps + (["provider-count block not found"] if start < 0 or end < 0 else [])
    for stmt in text[start:end].split(";"):
        stmt = " ".join(stmt.split())
        if not stmt:
            continue
        m = re.fullmatch(r"const auto (\w+) = std::(min|max)(?:<std::size_t>)?\((\{?)(.*?)(\}?)\)", stmt)
        if not m:
            return DEFAULT_BODY, [f"statement outside the translatable subset: {stmt!r}"]
        var, fn, args = m.group(1), m.group(2), [a.strip() for a in m.group(4).split(",")]
        try:
            largs = [env[a] for a in args]
        except KeyError as ex:
            return DEFAULT_BODY, [f"unknown operand {ex} in {stmt!r}"]
        expr = largs[0]
        for a in largs[1:]:
            expr = f"{fn} ({expr}) {a}" if " " in expr else f"{fn} {expr} {a}"
        lets.append(f"  let {var} := {expr}")
        env[var] = var
    if "provider_count" not in env:
        return DEFAULT_BODY, ["provider_count not defined by the block"]
    body = "def providerCount (cands shards thr minCfg targetCfg : Nat) : Nat :=\n" + "\n".join(lets) + "\n  provider_count"
    return body, []


def extract():
    body, gaps = translate_formula()
    write_generated(PID, body)
    return gaps


def harness():
    return build_harness("swarm_h", "harness/swarm_h.cpp",
                         ["src/core/SwarmCoordinator.cpp", "src/dht/KademliaTable.cpp", "src/core/Types.cpp"],
                         includes_repo_cpp=False, vclock=True)


def gen_case(rng) -> Case:
    shape = rng.choice(["small", "small", "many-peers", "many-shards", "expiry", "degenerate", "foreign-table"])
    target = rng.choice([0, 1, 2, 3, 3, 5, 8, 40])
    mn = rng.choice([0, 1, 2, 2, 4, 9])
    sample = rng.choice([0, 1, 2, 4, 8, 8, 16, 50])
    ops = [f"cfg {target} {mn} {sample}"]
    if shape == "foreign-table":
        # the table is kept under another local id, so it can hold the node's own id (s0): the plan
        # must still never name s0, also when s0 is the only (or the closest sampled) candidate
        ops = [f"cfg {target} {mn} {rng.choice([1, 1, 2, sample])}", f"tself t{rng.randint(1, 9)}", "peer s0 600"]
        for p in [f"p{i+1}" for i in range(rng.choice([0, 0, 1, 2, 5]))]:
            ops.append(f"peer {p} {rng.choice([60, 600])}")
        for _ in range(rng.randint(1, 3)):
            ns = rng.randint(1, 6)
            ops.append(f"plan c{rng.randint(1, 40)} {rng.choice([1, 2, 3])} " + ".".join(str(i + 1) for i in range(ns)))
        return Case(ops=ops, tag=shape)
    npeers = {"small": rng.randint(0, 5), "many-peers": rng.randint(6, 30), "many-shards": rng.randint(1, 6),
              "expiry": rng.randint(2, 8), "degenerate": rng.choice([0, 1])}[shape]
    peers = [f"p{i+1}" for i in range(npeers)]
    for p in peers:
        ttl = rng.choice([60, 300, 900, 2000]) if shape != "expiry" else rng.choice([1, 2, 5, 60])
        ops.append(f"peer {p} {ttl}")
        if rng.random() < 0.4:
            ops.append(f"load {p} {rng.randint(0,3)} {rng.randint(0,3)} {rng.randint(0,2)} {rng.choice(['-', '5', '-20', '60'])} {rng.choice([0,0,1])}")
    if rng.random() < 0.15:
        ops.append("peer s0 600")
    if shape == "expiry":
        ops.append(f"adv {rng.choice([1, 2, 5]) * 1_000_000_000 + rng.choice([-1, 0, 1])}")
    for _ in range(rng.randint(1, 3)):
        ns = {"many-shards": rng.choice([16, 31, 64, 200, 255]), "degenerate": rng.choice([0, 1])}.get(shape, rng.randint(0, 9))
        labels = [rng.choice([i + 1, i + 1, rng.randint(0, 255)]) for i in range(ns)]
        thr = rng.choice([0, 1, 2, 3, 3, 5, max(1, ns)])
        ops.append(f"plan c{rng.randint(1, 3)} {thr} " + (".".join(map(str, labels)) if labels else "-"))
        if rng.random() < 0.3 and peers:
            ops.append(f"peer {rng.choice(peers)} {rng.choice([1, 60])}")
    return Case(ops=ops, tag=shape)


def generate(ctx, budget):
    return [gen_case(ctx.rng) for _ in range(budget)]


def nontrivial(r: CaseResult) -> bool:
    """at least one plan with two or more providers and more shards than providers"""
    for op, out in zip(r.case.ops, r.impl):
        if op.startswith("plan") and "|a=" in out:
            a = out.split("|a=", 1)[1]
            if a != "-" and a.count(";") >= 1 and any("." in it for it in a.split(";")):
                return True
    return False


def spec() -> Spec:
    return Spec(
        pid=PID, proof_modules=["EphVerif.Proofs.C22"], driver="drv_c22", harness=harness, generate=generate,
        extract=extract, nontrivial=nontrivial, budget={"quick": 1500, "thorough": 40000},
        rule="random swarm configurations (target/min/sample incl. 0 and oversize), 0-30 registered peers with loads and expiries, "
             "manifests with 0-255 shards (labels may repeat) and thresholds; distinct = sha256 of the op list; non-trivial = a plan with "
             ">= 2 providers and more shards than providers",
        trusted_base=["ranking (double arithmetic, mt19937 jitter, std::sort) is taken from the implementation as a hint and only required to be a permutation prefix of the candidates"],
        assumptions=["candidate liveness/distinctness comes from closest_peers (C07); re-checked per plan by the monitor"],
    )


def run(tier, seed, replay=None):
    return standard_check(spec(), tier, seed, replay)
