"""C20 — inbound handshakes are accepted only with a valid key and valid PoW."""
from tools.vlib import *

PID = "C20"
READY = True
MANIFEST = {
    "level_text": "Lean 4 theorems about a model of Node::perform_handshake (cooldown record, reputation, key registration), "
                  "Node::handle_transport_handshake and the acknowledging/registering part of SessionManager::handle_pending_handshake, "
                  "for every history of handshakes (valid, invalid key, invalid nonce, other key for the same claimed peer) at any "
                  "spacing incl. repeats inside the cooldown, and for every proof-of-work predicate: a handshake is accepted "
                  "(acknowledged, session key registered) only if the offered public key is valid and the nonce is valid for (claimed "
                  "peer, this node, offered key); a rejected handshake leaves every key and session unchanged and lowers the claimed "
                  "peer's reputation by the failure penalty down to the floor of -100. The model is tied to the code by regenerated "
                  "constants (group prime, reputation steps) and a differential run of the real Node under a virtual clock - direct "
                  "calls, the transport handler, and the session layer's inbound path on a socket pair - against the compiled model, "
                  "with an observer written from the property text judging every handshake; validity facts are measured with the "
                  "real validators.",
    "level_note": "Trusted: Lean kernel; hand transcription of the three functions into Lean (checked only by the differential run); "
                  "the proof-of-work validator is a parameter of the model (its relation to SHA-256 is C19's subject); a session key is "
                  "identified by the public key it derives from; SessionManager's replacement of a live session by a second inbound one "
                  "and frame decoding are not modelled (the harness closes each socket session before the next handshake). "
                  "handshake_cooldown is not sanitised by the code; generated values stay within +-1 h.",
    "technique": "Lean 4 invariant proofs over histories + model/implementation differential correspondence with Lean monitor",
}
S = 1_000_000_000
NODE = "src/core/Node.cpp"
KPRIME = 2147483647


HARNESS_NOTES: list = []


def harness():
    """admission_h reaches three anonymous-namespace validators of Node.cpp by name when they exist
    (-DVERIF_INTERNALS=1, Node.cpp #included); if they are renamed or gone it is rebuilt without them
    (-DVERIF_INTERNALS=0, Node.cpp linked normally) and measures the same facts through an oracle Node /
    the property's own statement. No op is internal-only, so no case is dropped."""
    def build(defines):
        internals = "-DVERIF_INTERNALS=1" in defines
        sources = [s for s in ALL_CORE_SOURCES if s != NODE] if internals else list(ALL_CORE_SOURCES)
        return build_harness("admission_h", "harness/admission_h.cpp", sources, includes_repo_cpp=True, vclock=True,
                             libs=("-lcurl", "-lpthread"), defines=defines)
    del HARNESS_NOTES[:]
    exe, _internals = build_harness_with_fallback(build, HARNESS_NOTES)
    return exe


def post(ctx, results):
    for n in HARNESS_NOTES:
        if n not in ctx.notes:
            ctx.notes.append(n + " -- validity facts (handshake PoW, threshold, expiry) measured without the private validators")


def extract():
    hpp = "include/ephemeralnet/network/ReputationManager.hpp"
    vals, gaps = extract_consts([
        Const("kPrime", "include/ephemeralnet/network/KeyExchange.hpp", r"kPrime\s*=\s*([0-9a-fA-Fxu']+)\s*;", default=KPRIME),
        Const("repSuccessReward", hpp, r"int\s+success_reward\s*=\s*(\d+)", default=1),
        Const("repFailurePenalty", hpp, r"int\s+failure_penalty\s*=\s*(\d+)", default=2),
        Const("repMaxScore", hpp, r"kMaxScore\s*=\s*(-?\d+)", default=100),
        Const("repMinScoreNeg", hpp, r"kMinScore\s*=\s*-\s*(\d+)", default=100),
        Const("kMaxHandshakePowDifficulty", NODE, r"kMaxHandshakePowDifficulty\s*\{\s*([^}]+)\}", default=24),
    ])
    body = (f"def kPrime : Nat := {vals['kPrime']}\n"
            f"def repSuccessReward : Nat := {vals['repSuccessReward']}\n"
            f"def repFailurePenalty : Nat := {vals['repFailurePenalty']}\n"
            f"def repMaxScore : Nat := {vals['repMaxScore']}\n"
            f"def repMinScore : Int := -{vals['repMinScoreNeg']}\n"
            f"def kMaxHandshakePowDifficulty : Nat := {vals['kMaxHandshakePowDifficulty']}")
    write_generated(PID, body)
    return gaps


VALID_PUBS = [12345, 777, 4242, 2, KPRIME - 1, 1000003]
INVALID_PUBS = [0, 1, KPRIME, KPRIME + 5, 4294967295]
GOOD = ["g", "g", "g", "g2"]
BAD = ["b", "b2", "o"]


def gen_case(rng, big=False) -> Case:
    shape = rng.choice(["cooldown", "cooldown", "mixed", "mixed", "transport", "socket", "floor"])
    cd = rng.choice([5, 5, 2, 1, 60, 0, -1, 3600])
    hdiff = rng.choice([0, 1, 2, 3, 3, 6, 10])
    peers = [f"p{i+1}" for i in range(rng.choice([1, 2, 3]))]
    # Config::bootstrap_nodes: some of the claimed peer ids are configured bootstrap peers, with a pinned public
    # identity (valid, rarely invalid) or without one
    pinned = {}
    bs = []
    if rng.random() < 0.45:
        for p in rng.sample(peers, rng.randint(1, len(peers))):
            r = rng.random()
            if r < 0.7:
                pinned[p] = rng.choice(VALID_PUBS)
                bs.append(f"{p}:{pinned[p]}")
            elif r < 0.8:
                bs.append(f"{p}:{rng.choice(INVALID_PUBS)}")
            else:
                bs.append(f"{p}:-")
    ops = [f"cfg cd={cd} hdiff={hdiff}" + (f" bs={','.join(bs)}" if bs else "")]
    now = 0
    last_ok = {}

    def kind():
        if shape == "transport":
            return rng.choice(["th", "th", "hs"])
        if shape == "socket":
            return rng.choice(["sock", "sock", "th", "hs"])
        return rng.choice(["hs", "hs", "hs", "th", "th", "sock"]) if rng.random() < 0.9 else "sock"

    def emit(p, pub, tok):
        if p in pinned and pub in VALID_PUBS and rng.random() < 0.5:
            pub = pinned[p]                       # claim the bootstrap peer's id with its (public) pinned key
        k = kind()
        if k == "th":
            ops.append(f"th {p} {pub} {tok} {rng.choice([4, 4, 3, 1, 0, 9])}")
        else:
            ops.append(f"{k} {p} {pub} {tok}")

    def adv(d):
        nonlocal now
        d = max(0, int(d))
        ops.append(f"adv {d}")
        now += d

    n = rng.randint(6, 24) if not big else rng.randint(30, 80)
    if shape == "floor":
        # drive a peer's reputation to the floor with rejected handshakes, then keep rejecting
        p = peers[0]
        for _ in range(rng.randint(24, 60)):
            emit(p, rng.choice(VALID_PUBS + INVALID_PUBS), rng.choice(BAD))
            if rng.random() < 0.1:
                adv(rng.choice([1, S]))
        emit(p, rng.choice(VALID_PUBS), "g")
        return Case(ops=ops, tag=shape)
    for _ in range(n):
        p = rng.choice(peers)
        r = rng.random()
        if shape == "cooldown" and p in last_ok and r < 0.7:
            pub, tok, t = last_ok[p]
            # inside / at the edge of the cooldown: exact repeat, other nonce, bad nonce, bad key, other key
            if rng.random() < 0.5:
                target = t + max(cd, 0) * S + rng.choice([-1, 0, 1, -S, -2 * S])
                if target >= now:
                    adv(target - now)
            v = rng.random()
            if v < 0.2:
                emit(p, pub, tok)
            elif v < 0.35:
                emit(p, pub, "g2" if tok == "g" else "g")
            elif v < 0.55:
                emit(p, pub, rng.choice(BAD))
            elif v < 0.75:
                emit(p, rng.choice(INVALID_PUBS), rng.choice(GOOD + BAD))
            elif v < 0.9:
                other = rng.choice([x for x in VALID_PUBS if x != pub])
                tk = rng.choice(GOOD + BAD)
                emit(p, other, tk)
                if tk in ("g", "g2"):
                    last_ok[p] = (other, tk, now)
            else:
                emit(p, pub, tok)
                emit(p, pub, tok)
            continue
        if r < 0.45:
            pub, tok = rng.choice(VALID_PUBS), rng.choice(GOOD)
            emit(p, pub, tok)
            last_ok[p] = (pub, tok, now)
        elif r < 0.6:
            emit(p, rng.choice(VALID_PUBS), rng.choice(BAD))
        elif r < 0.75:
            emit(p, rng.choice(INVALID_PUBS), rng.choice(GOOD + BAD))
        else:
            adv(rng.choice([0, 1, S, max(cd, 0) * S - 1, max(cd, 0) * S, max(cd, 0) * S + 1, 2 * S, 100 * S]))
    return Case(ops=ops, tag=shape)


def generate(ctx, budget):
    return [gen_case(ctx.rng, ctx.tier == "thorough" and i % 5 == 0) for i in range(budget)]


def nontrivial(r: CaseResult) -> bool:
    """at least one handshake accepted and one rejected"""
    hs = [o for op, o in zip(r.case.ops, r.impl) if op.split(" ")[0] in ("hs", "th", "sock")]
    return any(o.startswith("r=1") for o in hs) and any(o.startswith("r=0") for o in hs)


def spec() -> Spec:
    return Spec(
        pid=PID,
        proof_modules=["EphVerif.Proofs.C20"],
        driver="drv_c20",
        harness=harness,
        generate=generate,
        extract=extract,
        nontrivial=nontrivial,
        post=post,
        budget={"quick": 350, "thorough": 3500},
        search_budget={"quick": 1500, "thorough": 12000},
        rule="handshake histories from 1-3 claimed peers against a real Node under the virtual clock through perform_handshake, "
             "handle_transport_handshake and the session layer's inbound socket path; valid / invalid key (0, 1, p, p+5, 2^32-1) / invalid "
             "nonce / nonce valid for another peer / other valid key for the same peer; spacing inside the cooldown, at its edge "
             "(-1 ns, 0, +1 ns) and outside; cooldowns 0, negative, 1 s .. 1 h; PoW difficulty 0..10; reputation driven to "
             "the floor; distinct = sha256 of the op list; non-trivial = at least one accept and one reject",
        trusted_base=["virtual clock by link-time interposition of steady_clock::now",
                      "validity facts measured with Node.cpp's private validators when they exist (VERIF_INTERNALS=1), otherwise through an oracle Node / the property's own statement (noted in the evidence)",
                      "harness nonce tokens: g/g2 from the real solver, b/b2/o found with the real validator; validity facts re-measured and compared with the model's",
                      "session key identified with the public key it was derived from (harness re-derives keys with the real KeyExchange/HMAC code)"],
        assumptions=["one live inbound session per peer at a time (the harness closes the socket after each `sock` op)",
                     "handshake_cooldown within +-1 h (the field is not sanitised; larger values overflow the nanosecond conversion)"],
        per_case_timeout=60.0,
    )


def run(tier, seed, replay=None):
    return standard_check(spec(), tier, seed, replay)
