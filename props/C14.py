"""C14 — transport sessions deliver exactly what was sent, within the size limit (claimed PARTIAL)."""
import re

from tools.vlib import *

PID = "C14"
READY = True
MANIFEST = {
    "level_text": "PARTIAL (what is left: kernel TCP, nonce freshness). Lean 4 theorems about a model of SessionManager's framing (send: "
                  "size guard, nonce, 32-bit big-endian length, ChaCha20 call, frame written in pieces under the per-session send lock; "
                  "receive_loop: the three recv_all calls, the length check before the body buffer is allocated, decrypt, dispatch), for "
                  "every 32-byte key, every 12-byte nonce per frame, every list of payloads and every way the TCP byte stream is cut into "
                  "pieces on its way to the reader thread: (stream) the handler receives exactly the payloads of at most 1048576 bytes, "
                  "once each, in send order, and the reader is back at a frame boundary; payloads above 1 MiB are refused by send before "
                  "anything is written and leave no trace (stream_with_refusals); (limit) a header announcing more than 1 MiB ends the "
                  "session after exactly its 16 bytes with no body buffer allocated, nothing further delivered or read, and on every byte "
                  "string whatsoever the reader never allocates more than 1 MiB; (wire) the bytes written are nonce, big-endian size, and "
                  "the RFC 8439 ChaCha20 encryption (counter 0) of the payload under that nonce, which decrypts back to the payload; "
                  "(concurrent_locked) for every number of sender threads, every list of send() calls per thread, every way the kernel "
                  "takes each frame in pieces and every schedule of the threads, with the send lock the wire is an interleaving of whole "
                  "frames, so the receiver delivers every payload of every thread exactly once, byte for byte, and each thread's payloads "
                  "in that thread's order; (stream_rekeyed) the session key may be replaced on the live session any number of times: if "
                  "both ends switch at the same frame boundary every payload is still delivered once, in order, byte for byte (the code "
                  "copies the key after a frame has been read — regenerated flag); an established session carries no receive timeout "
                  "(regenerated flag + getsockopt observation on every open, clause idle-timeout); (concurrent_unlocked_counterexample) without the lock two 2-piece sends interleave into a "
                  "stream whose length field announces 16 MiB: session ended, nothing delivered (kernel-evaluated). The reader is modelled "
                  "both as a resumable machine fed arbitrary pieces and as receive_loop over the whole received string; the two are proved "
                  "equal on every byte string and both meet an independent specification (Spec/Frames.lean). Tied to the code by "
                  "regenerated constants, guard operators, shift amounts, cipher counter, the position of the length check and the flag "
                  "'send() holds session->send_mutex around send_all' (Generated/C14.lean; removing the lock breaks the obligation), and by "
                  "a differential run of two real SessionManagers over loopback TCP (real accept/connect/handshake and reader threads, "
                  "several sender threads per session) plus a raw TCP peer that injects valid, truncated, oversized and garbage frames in "
                  "chosen pieces and captures A's wire bytes; the Lean specification judges every delivery log, refusal, session end, "
                  "captured frame and concurrent-send outcome (multiset equality + per-thread order).",
    "level_note": "Defect C14-1 found and repaired (fixes/C14-session-send-lock.patch): send() wrote frames with a loop of ::send calls "
                  "and no per-session lock although reader, tick and control threads send to the same peer; concurrent frames interleaved "
                  "and the peer dropped the session (reproduced on loopback, default buffers, 4 threads x 1 MiB: 6/6). The model follows the "
                  "repaired code. Still partial, exercised by the differential run but not proved: the kernel delivers the TCP byte stream "
                  "unaltered and in order and takes the bytes of one ::send call contiguously; there is exactly one reader thread per "
                  "session; std::mutex gives mutual exclusion; nonce freshness comes from std::random_device (theorems hold for every "
                  "nonce; the harness only tests pairwise distinctness of all nonces captured in a run). Trusted: Lean kernel; hand "
                  "transcription of send / receive_loop / the lock into Lean (checked by the differential run; 8 hand-made mutants "
                  "caught, among them the removed lock); ChaCha20::apply is taken at its RFC 8439 specification (proved equal by C09; "
                  "here compared on every captured frame); the harness, its marker-based quiescence (a marker frame sent down the same "
                  "session) and canonicalisation (payloads above 32 bytes as length + sha256 prefix). Session replacement, teardown, "
                  "send() on a missing/stopped session and the unlocked read of Session::key (C36) are outside the property.",
    "technique": "Lean 4 proof (resumable-parser machine = whole-stream parser = independent spec; lock invariant and linearisation of "
                 "multi-threaded piecewise writers; induction over frames, bytes and schedules) + regenerated constants/guards/lock flag + "
                 "differential run over real loopback sessions, concurrent senders and a raw TCP peer with a Lean monitor",
}

SM_CPP = "src/network/SessionManager.cpp"
SM_HPP = "include/ephemeralnet/network/SessionManager.hpp"
CHACHA_HPP = "include/ephemeralnet/crypto/ChaCha20.hpp"
MIB = 1 << 20
KEYS = ["000102030405060708090a0b0c0d0e0f101112131415161718191a1b1c1d1e1f",
        "ff" * 32, "00" * 31 + "01", "a5" * 32]


def harness():
    return build_harness("transport_h", "harness/transport_h.cpp",
                         ["src/network/SessionManager.cpp", "src/crypto/ChaCha20.cpp", "src/protocol/Message.cpp",
                          "src/crypto/HmacSha256.cpp", "src/crypto/Sha256.cpp", "src/core/Types.cpp"],
                         includes_repo_cpp=False)


# --------------------------------------------------------------------------------------
# (T) extraction
# --------------------------------------------------------------------------------------

def _strip(text: str) -> str:
    text = re.sub(r"/\*.*?\*/", " ", text, flags=re.S)
    return re.sub(r"//[^\n]*", " ", text)


def _function_body(src: str, signature_re: str) -> str:
    """text of a member function from its signature to the closing brace at column 0"""
    m = re.search(signature_re, src)
    if not m:
        return ""
    end = src.find("\n}\n", m.end())
    return src[m.start(): end if end > 0 else len(src)]


OPS = {">": ">", ">=": "≥", "<": "<", "<=": "≤", "==": "=", "!=": "≠"}


def _guard(body: str, lhs_re: str, what: str, gaps: list) -> str:
    m = re.search(r"if\s*\(\s*" + lhs_re + r"\s*(>=|<=|==|!=|>|<)\s*kMaxPayloadSize\s*\)", body)
    if not m:
        gaps.append(f"{what}: size guard not found")
        return ">"
    return OPS[m.group(1)]


def extract():
    gaps: list[str] = []
    try:
        src = _strip((REPO / SM_CPP).read_text(errors="replace"))
    except Exception as ex:
        src = ""
        gaps.append(f"{SM_CPP}: {ex}")
    vals, g = extract_consts([
        Const("kMaxPayloadSize", SM_CPP, r"constexpr\s+std::size_t\s+kMaxPayloadSize\s*=\s*([^;]+);", default=MIB),
    ])
    gaps += g
    # kNonceSize = sizeof(Nonce::bytes) -> the array bound in ChaCha20.hpp; kLengthFieldSize = sizeof(uint32_t)
    nonce = 12
    m = re.search(r"constexpr\s+std::size_t\s+kNonceSize\s*=\s*([^;]+);", src)
    if m and re.fullmatch(r"\s*sizeof\s*\(\s*(?:ephemeralnet::)?crypto::Nonce::bytes\s*\)\s*", m.group(1)):
        try:
            hpp = _strip((REPO / CHACHA_HPP).read_text(errors="replace"))
            mm = re.search(r"struct\s+Nonce\s*\{\s*std::array<\s*std::uint8_t\s*,\s*(\d+)\s*>\s*bytes", hpp)
            if mm:
                nonce = int(mm.group(1))
            else:
                gaps.append("Nonce::bytes array bound not found")
        except Exception as ex:
            gaps.append(f"{CHACHA_HPP}: {ex}")
    elif m:
        try:
            nonce = eval_cxx_int(m.group(1))
        except Exception:
            gaps.append("kNonceSize: unrecognised definition")
    else:
        gaps.append("kNonceSize not found")
    lenf = 4
    m = re.search(r"constexpr\s+std::size_t\s+kLengthFieldSize\s*=\s*([^;]+);", src)
    if m:
        sizes = {"std::uint32_t": 4, "std::uint16_t": 2, "std::uint64_t": 8, "std::uint8_t": 1}
        mm = re.fullmatch(r"\s*sizeof\s*\(\s*([\w:]+)\s*\)\s*", m.group(1))
        if mm and mm.group(1) in sizes:
            lenf = sizes[mm.group(1)]
        else:
            try:
                lenf = eval_cxx_int(m.group(1))
            except Exception:
                gaps.append("kLengthFieldSize: unrecognised definition")
    else:
        gaps.append("kLengthFieldSize not found")

    send = _function_body(src, r"bool\s+SessionManager::send\s*\(")
    send_enc = _function_body(src, r"bool\s+SessionManager::send_encrypted\s*\(")
    recv = _function_body(src, r"void\s+SessionManager::receive_loop\s*\(")
    if not send:
        gaps.append("SessionManager::send not found")
    if not recv:
        gaps.append("SessionManager::receive_loop not found")
    send_op = _guard(send, r"payload\.size\(\)", "send", gaps)
    send_enc_op = _guard(send_enc, r"payload\.size\(\)", "send_encrypted", gaps)
    recv_op = _guard(recv, r"length", "receive_loop", gaps)

    # length bytes written by send: buffer[kNonceSize + i] = (length >> s) & 0xFF
    send_shifts = {}
    for mm in re.finditer(r"buffer\s*\[\s*kNonceSize\s*\+\s*(\d)\s*\]\s*=\s*static_cast<std::uint8_t>\s*\(\s*(?:\(\s*length\s*>>\s*(\d+)\s*\)|length)\s*&\s*0xFFu?\s*\)", send):
        send_shifts[int(mm.group(1))] = int(mm.group(2) or 0)
    if sorted(send_shifts) != list(range(lenf)):
        gaps.append("send: length byte stores not recognised")
        send_shifts = {0: 24, 1: 16, 2: 8, 3: 0}
    recv_shifts = {}
    mlen = re.search(r"const\s+auto\s+length\s*=(.*?);", recv, flags=re.S)
    if mlen:
        for mm in re.finditer(r"static_cast<std::uint32_t>\s*\(\s*length_buffer\s*\[\s*(\d)\s*\]\s*\)\s*\)?\s*(?:<<\s*(\d+))?", mlen.group(1)):
            recv_shifts[int(mm.group(1))] = int(mm.group(2) or 0)
    if sorted(recv_shifts) != list(range(lenf)):
        gaps.append("receive_loop: length assembly not recognised")
        recv_shifts = {0: 24, 1: 16, 2: 8, 3: 0}

    def counter(body: str, args: str, what: str) -> int:
        mm = re.search(r"ChaCha20::apply\s*\(\s*" + args + r"\s*,\s*([0-9a-fA-FxXuU]+)\s*\)", body)
        if not mm:
            mm2 = re.search(r"ChaCha20::apply\s*\(\s*" + args + r"\s*\)", body)
            if mm2:
                return 0            # default argument `counter = 0`
            gaps.append(f"{what}: ChaCha20::apply call not recognised")
            return 0
        return eval_cxx_int(mm.group(1))

    send_counter = counter(send, r"key\s*,\s*nonce\s*,\s*payload\s*,\s*ciphertext", "send")
    recv_counter = counter(recv, r"key\s*,\s*nonce\s*,\s*ciphertext\s*,\s*plaintext", "receive_loop")

    # position of the length check relative to the body buffer / body recv_all
    i_check = recv.find("kMaxPayloadSize")
    i_alloc = recv.find("ciphertext(length)")
    i_body = recv.find("recv_all(session->socket, ciphertext.data()")
    if i_check < 0 or i_alloc < 0 or i_body < 0:
        gaps.append("receive_loop: length check / body read not located")
        before = True
    else:
        before = i_check < i_alloc and i_check < i_body

    # does send() hold the session's send lock around the frame write?
    holds_lock = False
    try:
        hpp = _strip((REPO / SM_HPP).read_text(errors="replace"))
    except Exception as ex:
        hpp = ""
        gaps.append(f"{SM_HPP}: {ex}")
    msess = re.search(r"struct\s+Session\s*\{(.*?)\n\s*\};", hpp, flags=re.S)
    has_member = bool(msess and re.search(r"std::(?:recursive_)?mutex\s+send_mutex\s*;", msess.group(1)))
    mlock = re.search(r"std::(?:lock_guard|scoped_lock|unique_lock)\s*(?:<[^>;]*>)?\s+\w+\s*[({]\s*session->send_mutex\s*[)}]\s*;", send)
    mwrite = re.search(r"send_all\s*\(\s*session->socket", send)
    if not mwrite:
        gaps.append("send: send_all(session->socket, …) not found")
    elif has_member and mlock and mlock.start() < mwrite.start():
        # the guard must still be in scope at the write: no closing brace of its block in between
        between = send[mlock.end():mwrite.start()]
        holds_lock = between.count("}") <= between.count("{")

    # where are the session-key snapshots taken?
    i_snap = recv.find("key.bytes = session->key")
    i_nonce = recv.find("recv_all(session->socket, nonce_buffer.data()")
    if i_snap < 0 or i_body < 0 or i_nonce < 0:
        gaps.append("receive_loop: key snapshot / frame reads not located")
        recv_key_after = True
    else:
        recv_key_after = i_snap > i_body and i_snap > i_nonce
    s_snap = send.find("key.bytes = session->key")
    s_apply = send.find("ChaCha20::apply")
    if s_snap < 0 or s_apply < 0:
        gaps.append("send: key snapshot not located")
        send_key_in_call = True
    else:
        send_key_in_call = s_snap < s_apply

    # does an accepted session keep the handshake's receive timeout?
    rhp = _function_body(src, r"bool\s+SessionManager::read_handshake_payload\s*\(")
    hs_ms = 2000
    mto = re.search(r"kHandshakeTimeout\s*\{\s*(\d+)\s*\}", src)
    if mto:
        hs_ms = int(mto.group(1))
    else:
        gaps.append("kHandshakeTimeout not found")
    no_timeout = True
    if not rhp:
        gaps.append("read_handshake_payload not found")
    else:
        reset = r"set_recv_timeout\s*\(\s*socket\s*,\s*std::chrono::milliseconds::zero\(\)\s*\)\s*;\s*$"
        rets = list(re.finditer(r"return\s+(?:true|false)\s*;", rhp))
        if not rets:
            gaps.append("read_handshake_payload: no return statements recognised")
        for r_ in rets:
            before = rhp[:r_.start()]
            if re.search(r"if\s*\(\s*!\s*set_recv_timeout\s*\(\s*socket\s*,\s*timeout\s*\)\s*\)\s*\{\s*$", before):
                continue            # arming the timeout failed: nothing to restore
            if not re.search(reset, before):
                no_timeout = False

    body = f"""/-- `kMaxPayloadSize` -/
def kMaxPayloadSize : Nat := {vals.get('kMaxPayloadSize', MIB)}
/-- `kNonceSize = sizeof(crypto::Nonce::bytes)` -/
def kNonceSize : Nat := {nonce}
/-- `kLengthFieldSize = sizeof(std::uint32_t)` -/
def kLengthFieldSize : Nat := {lenf}
/-- `SessionManager::send`: `if (payload.size() … kMaxPayloadSize) return false;` -/
def sendRefuses (n : Nat) : Bool := decide (n {send_op} kMaxPayloadSize)
/-- `SessionManager::send_encrypted` (handshake ack path): same guard -/
def sendEncryptedRefuses (n : Nat) : Bool := decide (n {send_enc_op} kMaxPayloadSize)
/-- `SessionManager::receive_loop`: `if (length … kMaxPayloadSize) break;` -/
def recvRefuses (n : Nat) : Bool := decide (n {recv_op} kMaxPayloadSize)
/-- in `receive_loop` the length check precedes `std::vector<std::uint8_t> ciphertext(length)` and the body `recv_all` -/
def recvCheckBeforeBody : Bool := {'true' if before else 'false'}
/-- `send`: `buffer[kNonceSize + i] = (length >> sendShifts[i]) & 0xFF` -/
def sendShifts : List Nat := [{', '.join(str(send_shifts[i]) for i in sorted(send_shifts))}]
/-- `receive_loop`: `length = OR of length_buffer[i] << recvShifts[i]` -/
def recvShifts : List Nat := [{', '.join(str(recv_shifts[i]) for i in sorted(recv_shifts))}]
/-- initial block counter passed to `ChaCha20::apply` in `send` -/
def sendCounter : Nat := {send_counter}
/-- initial block counter passed to `ChaCha20::apply` in `receive_loop` -/
def recvCounter : Nat := {recv_counter}
/-- `SessionManager::send` holds `session->send_mutex` (a member of `Session`) around `send_all(session->socket, …)` -/
def sendHoldsSessionLock : Bool := {'true' if holds_lock else 'false'}
/-- in `receive_loop` the snapshot `key.bytes = session->key` is taken after the frame (header and body) has been read -/
def recvKeySnapshotAfterFrame : Bool := {'true' if recv_key_after else 'false'}
/-- in `send` the snapshot `key.bytes = session->key` is taken in the call, before the frame is encrypted -/
def sendKeySnapshotInCall : Bool := {'true' if send_key_in_call else 'false'}
/-- `kHandshakeTimeout` (ms), armed as SO_RCVTIMEO while an inbound handshake is read -/
def kHandshakeTimeoutMs : Nat := {hs_ms}
/-- every exit of `read_handshake_payload` after the timeout has been armed restores a zero SO_RCVTIMEO, so an accepted session is published without a receive timeout -/
def acceptedSessionHasNoRecvTimeout : Bool := {'true' if no_timeout else 'false'}"""
    write_generated(PID, body)
    return gaps


# --------------------------------------------------------------------------------------
# generator
# --------------------------------------------------------------------------------------

SMALL = [0, 1, 2, 15, 16, 17, 31, 32, 33, 63, 64, 65, 127, 128, 129, 191, 192, 193, 255, 256, 257, 1000, 1448, 1449, 4095, 4096, 4097]
MEDIUM = [16383, 16384, 65535, 65536, 65537, 131072]
CHUNKS = [0, 1, 2, 3, 5, 7, 11, 12, 13, 15, 16, 17, 29, 64]
OVERSIZED = [MIB + 1, MIB + 2, MIB + 255, MIB + 256, 2 * MIB, (1 << 24), (1 << 24) + 5, (1 << 31), (1 << 32) - 1, 0x01000000, 0x00100001]


def be32(n: int) -> bytes:
    return (n & 0xFFFFFFFF).to_bytes(4, "big")


def rnonce(rng) -> str:
    return bytes(rng.getrandbits(8) for _ in range(12)).hex()


def case_sizes(rng) -> Case:
    ops = [f"open {rng.choice(KEYS)}"]
    for _ in range(rng.randint(3, 10)):
        d = rng.choice(["ab", "ab", "ba"])
        n = rng.choice(SMALL + SMALL + MEDIUM + [rng.randint(0, 3000)])
        ops.append(f"send {d} {n} {rng.getrandbits(31)}")
        if rng.random() < 0.25:
            ops.append(f"drain {d}")
    ops += ["drain ab", "drain ba"]
    return Case(ops=ops, tag="sizes")


def case_limit(rng, big: int | None) -> Case:
    """around the 1 MiB limit; at most one payload that really is ~1 MiB (the Lean side needs seconds for it)"""
    ops = [f"open {rng.choice(KEYS)}"]
    d = rng.choice(["ab", "ba"])
    seq = [rng.choice([MIB + 1, MIB + 2, MIB + 1000, 2 * MIB]), rng.choice(SMALL)]
    if big is not None:
        seq.append(big)
    seq.append(rng.choice([MIB + 1, MIB + 64]))
    seq.append(rng.choice(SMALL))
    rng.shuffle(seq)
    for n in seq:
        ops.append(f"send {d} {n} {rng.getrandbits(31)}")
    ops.append(f"drain {d}")
    return Case(ops=ops, tag="limit" if big is None else f"limit-{big - MIB:+d}")


def case_burst(rng, count: int) -> Case:
    ops = [f"open {rng.choice(KEYS)}"]
    d = rng.choice(["ab", "ba"])
    ops.append(f"burst {d} {count} {rng.getrandbits(24)} {rng.choice([0, 1, 64, 300, 1500])}")
    if rng.random() < 0.5:
        other = "ba" if d == "ab" else "ab"
        ops.append(f"burst {other} {rng.randint(1, 50)} {rng.getrandbits(24)} {rng.choice([16, 100])}")
        ops.append(f"drain {other}")
    if rng.random() < 0.5:
        ops.append(f"send {d} {rng.choice(SMALL)} {rng.getrandbits(31)}")
    ops.append(f"drain {d}")
    return Case(ops=ops, tag=f"burst-{count}")


def case_raw_valid(rng) -> Case:
    ops = [f"open {rng.choice(KEYS)}", "rawopen"]
    for _ in range(rng.randint(1, 6)):
        n = rng.choice(SMALL[:16] + [rng.randint(0, 400)])
        ops.append(f"rawframe {rnonce(rng)} auto {n} {rng.getrandbits(31)} {rng.choice(CHUNKS)}")
    if rng.random() < 0.4:
        ops.append("rawended 60")
    ops.append("rawclose")
    return Case(ops=ops, tag="raw-valid")


def case_raw_oversize(rng) -> Case:
    ops = [f"open {rng.choice(KEYS)}", "rawopen"]
    for _ in range(rng.randint(0, 3)):
        ops.append(f"rawframe {rnonce(rng)} auto {rng.choice(SMALL[:14])} {rng.getrandbits(31)} {rng.choice(CHUNKS)}")
    declared = rng.choice(OVERSIZED)
    ops.append(f"rawframe {rnonce(rng)} {declared} {rng.choice([0, 0, 1, 20, 300])} {rng.getrandbits(31)} {rng.choice(CHUNKS)}")
    ops.append("rawended 10000")
    for _ in range(rng.randint(0, 2)):      # whatever follows is never read
        ops.append(f"rawframe {rnonce(rng)} auto {rng.choice(SMALL[:10])} {rng.getrandbits(31)} 0")
    ops.append("rawclose")
    return Case(ops=ops, tag="raw-oversize")


def case_raw_boundary(rng) -> Case:
    """a header announcing exactly 1 MiB (or just below) with a short body: the session must stay up, nothing is delivered"""
    ops = [f"open {rng.choice(KEYS)}", "rawopen"]
    declared = rng.choice([MIB, MIB, MIB - 1, 65536])
    ops.append(f"rawframe {rnonce(rng)} {declared} {rng.choice([0, 5, 100])} {rng.getrandbits(31)} {rng.choice([0, 3, 16])}")
    ops.append("rawended 120")
    ops.append("rawclose")
    return Case(ops=ops, tag="raw-boundary")


def case_raw_short(rng) -> Case:
    ops = [f"open {rng.choice(KEYS)}", "rawopen"]
    if rng.random() < 0.5:
        ops.append(f"rawframe {rnonce(rng)} auto {rng.choice(SMALL[:10])} {rng.getrandbits(31)} {rng.choice(CHUNKS)}")
    kind = rng.choice(["header", "body"])
    if kind == "header":
        k = rng.choice([1, 5, 11, 12, 13, 15])
        ops.append(f"rawbytes {bytes(rng.getrandbits(8) for _ in range(k)).hex()} {rng.choice([0, 1, 4])}")
    else:
        n = rng.choice([1, 10, 64, 300])
        ops.append(f"rawframe {rnonce(rng)} {n + rng.choice([1, 7, 1000])} {n} {rng.getrandbits(31)} {rng.choice(CHUNKS)}")
    ops.append("rawended 80")
    ops.append("rawclose")
    return Case(ops=ops, tag="raw-short-" + kind)


def py_ends(stream: bytes) -> bool:
    """does this byte stream contain (at a frame boundary) a header announcing more than 1 MiB?  Only used to choose how long
    `rawended` may wait (long when the session is expected to end, short when it is expected to stay up); verdicts never
    depend on it."""
    off = 0
    while len(stream) - off >= 16:
        n = int.from_bytes(stream[off + 12:off + 16], "big")
        if n > MIB:
            return True
        if len(stream) - off - 16 < n:
            return False
        off += 16 + n
    return False


def case_raw_garbage(rng) -> Case:
    ops = [f"open {rng.choice(KEYS)}", "rawopen"]
    n = rng.choice([16, 17, 20, 40, 100])
    blob = bytearray(rng.getrandbits(8) for _ in range(n))
    if rng.random() < 0.5:
        blob[12:16] = be32(rng.choice([0, 1, 3, n - 16, n - 15, MIB, MIB + 1, 70000]))
    ops.append(f"rawbytes {bytes(blob).hex()} {rng.choice(CHUNKS)}")
    ops.append(f"rawended {10000 if py_ends(bytes(blob)) else 80}")
    ops.append("rawclose")
    return Case(ops=ops, tag="raw-garbage")


def case_wire(rng, sizes) -> Case:
    ops = [f"open {rng.choice(KEYS)}", "rawopen"]
    for _ in range(rng.randint(2, 8)):
        ops.append(f"rawrecv {rng.choice(sizes)} {rng.getrandbits(31)}")
    if rng.random() < 0.3:
        ops.append(f"rawrecv {rng.choice([MIB + 1, 2 * MIB])} {rng.getrandbits(31)}")
    ops.append("rawclose")
    return Case(ops=ops, tag="wire")


def case_concurrent(rng, weight: str) -> Case:
    """several threads call send() for the same peer at once.  light: small payloads (cheap, checks the op end to end);
    medium: 64-128 KiB payloads with a 4 KiB socket send buffer, where the kernel takes a frame in several pieces and an
    unserialised writer interleaves (reproduces the missing send lock every time, < 1 MiB in total); heavy (thorough tier):
    256 KiB-1 MiB payloads from up to 4 threads with the default buffers."""
    ops = [f"open {rng.choice(KEYS)}"]
    d = rng.choice(["ab", "ba"])
    if rng.random() < 0.5:
        ops += [f"send {d} {rng.choice(SMALL)} {rng.getrandbits(31)}", f"drain {d}"]
    if weight == "light":
        threads, count, n, buf = rng.choice([2, 3, 5]), rng.randint(1, 6), rng.choice([8, 64, 1000, 5000, 20000]), rng.choice([0, 2048, 4096])
    elif weight == "medium":
        threads, n = rng.choice([(2, 65536), (2, 131072), (3, 65536), (4, 65536), (2, 100000)])
        count = max(2, min(4, 786432 // (threads * n)))
        buf = 4096
    else:
        threads, count, n, buf = rng.choice([(4, 4, 262144, 0), (2, 2, MIB, 0), (4, 2, 524288, 0), (3, 4, 262144, 4096), (2, 3, MIB - 1, 4096)])
    ops.append(f"csend {d} {threads} {count} {n} {rng.getrandbits(24)} {buf}")
    ops.append(f"cdrain {d} 8000")
    if rng.random() < 0.5:      # the session must still be usable afterwards
        ops += [f"send {d} {rng.choice(SMALL)} {rng.getrandbits(31)}", f"drain {d}"]
    return Case(ops=ops, tag="concurrent-" + weight)


def rkey(rng) -> str:
    return bytes(rng.getrandbits(8) for _ in range(32)).hex()


def case_rekey(rng) -> Case:
    """the key of the live A<->B session is replaced at both ends (register_peer_key, as key rotation does) while the readers
    are idle or right after a send; the first frame after each replacement, in each direction, is the interesting one"""
    ops = [f"open {rng.choice(KEYS)}"]
    for _ in range(rng.randint(1, 4)):
        shape = rng.choice(["idle", "after-send", "both-directions", "burst"])
        if shape == "idle":
            ops += [f"send ab {rng.choice(SMALL)} {rng.getrandbits(31)}", "drain ab", f"rekey {rkey(rng)}"]
        elif shape == "after-send":
            ops += [f"send {rng.choice(['ab', 'ba'])} {rng.choice(SMALL)} {rng.getrandbits(31)}", f"rekey {rkey(rng)}"]
        elif shape == "both-directions":
            ops += [f"rekey {rkey(rng)}"]
        else:
            ops += [f"burst ab {rng.randint(2, 20)} {rng.getrandbits(24)} 300", f"rekey {rkey(rng)}"]
        for _ in range(rng.randint(1, 4)):
            ops.append(f"send {rng.choice(['ab', 'ba'])} {rng.choice(SMALL + [rng.randint(1, 3000)])} {rng.getrandbits(31)}")
        if rng.random() < 0.5:
            ops += ["drain ab", "drain ba"]
    ops += ["drain ab", "drain ba"]
    return Case(ops=ops, tag="rekey")


def case_mixed(rng) -> Case:
    ops = [f"open {rng.choice(KEYS)}", "rawopen"]
    for _ in range(rng.randint(4, 12)):
        r = rng.random()
        if r < 0.4:
            ops.append(f"send {rng.choice(['ab', 'ba'])} {rng.choice(SMALL)} {rng.getrandbits(31)}")
        elif r < 0.6:
            ops.append(f"rawframe {rnonce(rng)} auto {rng.choice(SMALL[:12])} {rng.getrandbits(31)} {rng.choice(CHUNKS)}")
        elif r < 0.8:
            ops.append(f"rawrecv {rng.choice(SMALL[:20])} {rng.getrandbits(31)}")
        else:
            ops.append(f"drain {rng.choice(['ab', 'ba'])}")
    ops += ["drain ab", "drain ba", "rawclose"]
    return Case(ops=ops, tag="mixed")


def generate(ctx, budget):
    rng = ctx.rng
    thorough = ctx.tier == "thorough"
    cases = []
    # the limit itself: payloads of exactly 1 MiB and one byte less (expensive on the Lean side: a handful)
    bigs = [MIB, MIB - 1] if not thorough else [MIB, MIB - 1, MIB, MIB - 63, MIB - 64, MIB - 65]
    for b in bigs:
        cases.append(case_limit(rng, b))
    cases.append(case_burst(rng, 200))
    cases.append(case_wire(rng, [0, 1, 63, 64, 65, 1000]))
    cases.append(case_rekey(rng))
    for _ in range(3 if not thorough else 30):
        cases.append(case_concurrent(rng, "medium"))
    if thorough:
        for _ in range(5):
            cases.append(case_concurrent(rng, "heavy"))
        # send timings: a peer silent for longer than the 2 s handshake timeout, in each direction (real time)
        for d in ("ba", "ab"):
            cases.append(Case(ops=[f"open {KEYS[0]}", f"send {d} 10 1", f"drain {d}", "idle 2300", f"send {d} 64 2", f"send {d} 0 3",
                                   f"drain {d}", "idle 2300", f"send {d} 1000 4", f"drain {d}"], tag="idle-gap"))
    if thorough:
        cases.append(case_wire(rng, [MIB, 65536]))
        cases.append(Case(ops=[f"open {KEYS[0]}", "rawopen", f"rawframe {rnonce(rng)} auto {MIB} 77 0",
                               f"rawframe {rnonce(rng)} {MIB + 1} 3 78 0", "rawended 8000", "rawclose"], tag="raw-big"))
    makers = [(case_sizes, 20), (lambda r: case_limit(r, None), 10), (lambda r: case_burst(r, r.choice([2, 17, 64, 200])), 8),
              (case_raw_valid, 14), (case_raw_oversize, 14), (case_raw_boundary, 4), (case_raw_short, 8), (case_raw_garbage, 8),
              (lambda r: case_wire(r, SMALL[:22] + [rng.randint(0, 5000)]), 10), (case_mixed, 8),
              (lambda r: case_concurrent(r, "light"), 10), (case_rekey, 12)]
    total = sum(w for _, w in makers)
    while len(cases) < budget:
        x = rng.random() * total
        for mk, w in makers:
            x -= w
            if x <= 0:
                cases.append(mk(rng))
                break
    return cases


def nontrivial(r: CaseResult) -> bool:
    """a case counts when the implementation delivered at least one payload that the specification compared, or refused a
    send, or ended a session"""
    for op, o in zip(r.case.ops, r.impl):
        if (op.startswith(("drain", "cdrain")) or op == "rawclose") and re.match(r"n=[1-9]", o):
            return True
        if o in ("refused", "ended") or o.startswith("nonce="):
            return True
    return False


def post(ctx, results):
    """histogram of what was exercised; nonce distinctness over the whole run (a test, not a theorem)"""
    seen: dict[str, str] = {}
    for r in results:
        for op, o in zip(r.case.ops, r.impl):
            t = op.split(" ")
            if t[0] == "send":
                n = int(t[2])
                ctx.hist("send:" + ("=1MiB" if n == MIB else ">1MiB" if n > MIB else "<1MiB") + ":" + o)
            elif t[0] == "rawended":
                ctx.hist("rawended:" + o)
            elif t[0] == "csend":
                ctx.hist(f"csend:{t[2]}threads:" + ("<64KiB" if int(t[4]) < 65536 else "<256KiB" if int(t[4]) < 262144 else ">=256KiB"))
            elif t[0] == "cdrain":
                ctx.hist("cdrain:" + ("complete" if re.match(r"n=\d+( t\d+=[\d,-]+)+ unknown=0$", o) else "incomplete"))
            elif t[0] in ("drain", "rawclose"):
                m = re.match(r"n=(\d+)", o)
                ctx.hist(f"{t[0]}:" + ("timeout" if not m else "n=0" if m.group(1) == "0" else "n>0"))
            elif t[0] == "rawrecv":
                m = re.match(r"nonce=([0-9a-f]+)", o)
                ctx.hist("rawrecv:" + ("frame" if m else o.split(" ")[0]))
                if m:
                    if m.group(1) in seen and seen[m.group(1)] != r.case.cid:
                        ctx.report("nonce-reuse", "failing-input",
                                   {"ops": r.case.ops, "impl_out": r.impl, "model_out": r.model,
                                    "monitor": f"nonce {m.group(1)} was already used by case {seen[m.group(1)]} in this run"},
                                   found_input=True)
                    seen[m.group(1)] = r.case.cid
    ctx.coverage["nonces_captured"] = len(seen)


def spec() -> Spec:
    return Spec(
        pid=PID,
        proof_modules=["EphVerif.Proofs.C14"],
        driver="drv_c14",
        harness=harness,
        generate=generate,
        extract=extract,
        nontrivial=nontrivial,
        post=post,
        budget={"quick": 140, "thorough": 2000},
        search_budget={"quick": 400, "thorough": 5000},
        per_case_timeout=120.0,
        batch=400,
        rule="cases over two real SessionManagers on loopback (A<->B sessions, raw peer R): payload sizes 0,1,15..17,31..33,63..65,"
             "127..129,255..257,4095..4097,16 KiB,64 KiB±1, 2^20-65..2^20 (accepted) and 2^20+1.. (refused) in both directions; bursts "
             "of 2..200 sends; raw peer injecting valid frames in pieces of 1..64 bytes, headers announcing 2^20+1..2^32-1 (session must "
             "end), exactly 2^20 with a short body (must stay up), truncated headers/bodies, random bytes; wire capture of A's frames "
             "(nonce, length field, ciphertext) with the nonce passed to the Lean side as a hint; 2-5 threads sending 1-6 payloads "
             "each to one peer at the same time (8 B..20 KB cheap; 64-128 KiB with a 4 KiB SO_SNDBUF, where unserialised writers "
             "interleave; thorough: 256 KiB-1 MiB from up to 4 threads with default buffers), judged by multiset equality and "
             "per-thread order; key replacement on the live session (register_peer_key at both ends) while the readers are idle or "
             "right after a send / a burst, 1-4 times per case, followed by sends in both directions; every open/rawopen reports the "
             "SO_RCVTIMEO of the established sessions' sockets (must be 0); thorough: two cases with 2.3 s of real idle time between "
             "sends. distinct = sha256 of the op list; "
             "non-trivial = at least one payload delivered and compared, or a send refused, or a session ended, or a frame captured",
        trusted_base=["kernel TCP (loopback), std::thread scheduling, std::random_device (nonces taken from the implementation as hints)",
                      "marker-frame quiescence: a drain sends one more frame through the code under test and waits (bounded 30 s) for it",
                      "ChaCha20::apply = RFC 8439 (C09); here re-checked on every captured frame against Spec.chacha20"],
        assumptions=[
"real-time bounds in the harness (5 s for a session to come up or end, 30 s for a marker) are generous enough on the "
                     "machine the check runs on; a timeout shows up as a `timeout`/`open` line and is judged by the monitor"],
    )


def run(tier, seed, replay=None):
    return standard_check(spec(), tier, seed, replay)
