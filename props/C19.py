"""C19 — proof-of-work checks accept exactly the nonces that meet the target."""
import hashlib
import struct

from tools.vlib import *

PID = "C19"
READY = True
MANIFEST = {
    "level_text": "Lean 4 theorems, for every hash function, all field values, nonces, difficulties and digests of every length, about a "
                  "model of the four PoW surfaces (announce, handshake incl. the CLI's transport variant, store, bootstrap token): each "
                  "validator accepts a nonce exactly when the number of leading zero bits of the digest of that surface's byte encoding "
                  "(lz, defined arithmetically and characterised as 'digest < 2^(bits-k)') reaches the difficulty, capped at 24 where the "
                  "code caps (store validator; node configuration for announce/handshake); the four differently coded leading-zero counters "
                  "all equal lz; every solver returns only accepted nonces (and the first valid candidate of its stream); every encoding is "
                  "injective in every field and the nonce (fixed widths / length prefixes), so work cannot be replayed for other fields; the "
                  "CLI and the daemon derive the same filename hint for every path. The model is tied to the code by regenerated constants "
                  "(caps, attempt limits, name length) and by a differential run of the real encoders (preimage bytes captured by a link-time "
                  "tap on Sha256::update/finalize/digest), counters, validators, solvers (exact nonces, mt19937_64 reproduced) and the real "
                  "CLI `store` command against a real in-process daemon, with the Lean specification (FIPS SHA-256 + lz) judging every line.",
    "level_note": "Trusted: Lean kernel; hand transcription of the C++ into Lean (validated only by the differential run); the SHA-256 tap "
                  "(ld --wrap); libstdc++ std::filesystem::path::filename and std::mt19937_64 semantics as re-implemented in the model/driver; "
                  "the harness. SHA-256 itself is a parameter of the theorems (its correctness is C08). Difficulties at the 24-bit cap are "
                  "exercised only through precomputed corpus nonces. The control-channel model covers the PATH header of STORE only.",
    "technique": "Lean 4 proof (bit-length arithmetic, structural induction, kernel-checked byte tables) + model/implementation differential correspondence with Lean monitor",
}

WRAP = ["_ZN12ephemeralnet6crypto6Sha2566updateESt4spanIKhLm18446744073709551615EE",
        "_ZN12ephemeralnet6crypto6Sha2568finalizeEv",
        "_ZN12ephemeralnet6crypto6Sha2566digestESt4spanIKhLm18446744073709551615EE"]


_H = {"internals": True, "notes": []}
# ops that exist only when the harness may call the repository's anonymous-namespace helpers by name
INTERNAL_OPS = {"ann", "annsolve", "hs", "hscli", "hsclisolve"}


def harness():
    """pow_h.cpp (includes Node.cpp, StoreProof.cpp) + pow_cli_h.cpp (includes main.cpp) + the other repo sources.
    The CLI translation unit is compiled here (keyed on the whole src/ tree, because it #includes a repo .cpp) and handed to
    the link step as an object, so that a change in one source file does not invalidate every cached object.
    Built through build_harness_with_fallback: if a private helper the harness names was renamed/inlined, the public-API
    build (-DVERIF_INTERNALS=0) is used and the gap is reported in the evidence notes."""
    import tools.vlib as V
    srcs = [s for s in ALL_CORE_SOURCES if s not in ("src/core/Node.cpp", "src/security/StoreProof.cpp")]
    srcs += ["src/daemon/ControlPlane.cpp", "src/daemon/ControlClient.cpp", "src/daemon/ControlServer.cpp",
             "src/daemon/StructuredLogger.cpp"]

    def build(defines):
        flags = list(BASE_FLAGS) + [f"-I{REPO}/include", f"-I{REPO}/src", f"-I{REPO}", f"-I{VERIF}/harness"] + list(defines)
        try:
            cli_obj = V._compile_obj(VERIF / "harness" / "pow_cli_h.cpp", flags,
                                     tree_hash("include") + tree_hash("src") + (VERIF / "harness" / "pow_cli_h.hpp").read_text())
        except BuildError as ex:
            # g++ words a missing qualified name differently from the phrases build_harness_with_fallback looks for
            if "has not been declared" in ex.output:
                ex.output += "\n(normalised by props/C19.py: was not declared in this scope)"
            raise
        return build_harness("pow_h", "harness/pow_h.cpp", srcs, defines=defines,
                             libs=[str(cli_obj)] + [f"-Wl,--wrap={w}" for w in WRAP] + ["-lcurl", "-lpthread"])

    _H["notes"] = []
    exe, _H["internals"] = build_harness_with_fallback(build, _H["notes"])
    if not _H["internals"]:
        _H["notes"].append("C19 without harness internals: the raw announce/handshake validators, digest functions and solvers, the CLI's "
                           "transport_* helpers and three of the four leading-zero counters are unobserved (ops ann, annsolve, hs, hscli, "
                           "hsclisolve dropped; counters printed as '?'); acceptance is still judged by lz(SHA-256) through "
                           "Node::verify_announce_pow / perform_handshake / generate_handshake_work, security::store_pow_valid (its preimage "
                           "stays visible through the SHA-256 tap), compute_store_pow, digest_meets_difficulty, solve_token_challenge and the CLI store command")
    return exe


def extract():
    node = "src/core/Node.cpp"
    vals, gaps = extract_consts([
        Const("kMaxAnnouncePowDifficulty", node, r"constexpr\s+std::uint8_t\s+kMaxAnnouncePowDifficulty\s*\{([^}]+)\}", default=24),
        Const("kMaxHandshakePowDifficulty", node, r"constexpr\s+std::uint8_t\s+kMaxHandshakePowDifficulty\s*\{([^}]+)\}", default=24),
        Const("kNodeMaxStorePowDifficulty", node, r"constexpr\s+std::uint8_t\s+kMaxStorePowDifficulty\s*\{([^}]+)\}", default=24),
        Const("kMaxStorePowDifficulty", "include/ephemeralnet/security/StoreProof.hpp",
              r"constexpr\s+std::uint8_t\s+kMaxStorePowDifficulty\s*=\s*([^;]+);", default=24),
        Const("kMaxAnnouncePowAttempts", node, r"constexpr\s+std::uint64_t\s+kMaxAnnouncePowAttempts\s*\{([^}]+)\}", default=500000),
        Const("kMaxHandshakePowAttempts", node, r"constexpr\s+std::uint64_t\s+kMaxHandshakePowAttempts\s*\{([^}]+)\}", default=500000),
        Const("kDefaultStorePowMaxAttempts", "include/ephemeralnet/security/StoreProof.hpp",
              r"constexpr\s+std::uint64_t\s+kDefaultStorePowMaxAttempts\s*=\s*([^;]+);", default=500000),
        Const("kTransportPowMaxAttempts", "src/main.cpp", r"constexpr\s+std::uint64_t\s+kTransportPowMaxAttempts\s*=\s*([^;]+);", default=500000),
        Const("kTokenDefaultMaxAttempts", "include/ephemeralnet/bootstrap/TokenChallenge.hpp",
              r"std::uint64_t\s+max_attempts\s*=\s*([^)]+)\)", default=500000),
        Const("kMaxFilenameLength", "src/security/StoreProof.cpp", r"constexpr\s+std::size_t\s+kMaxFilenameLength\s*=\s*([^;]+);", default=255),
        Const("kAnnounceMinPowVersion", node, r"Node::verify_announce_pow\b.*?message_version\s*<\s*(\d+)", default=3),
    ])
    write_generated(PID, lean_consts(vals))
    return gaps


# ---------------------------------------------------------------------------------------------
# generator-side encoders (only to aim nonces at the acceptance boundary; never used as an oracle)
# ---------------------------------------------------------------------------------------------
U64 = 2 ** 64


def id32(tok: str) -> bytes:
    if len(tok) == 64:
        return bytes.fromhex(tok)
    b = bytearray(32)
    b[0] = ord(tok[0])
    b[28:32] = struct.pack(">I", int(tok[1:]) if len(tok) > 1 else 0)
    return bytes(b)


def be8(v): return struct.pack(">Q", v % U64)
def lp8(b): return be8(len(b)) + b
def hx(b: bytes) -> str: return b.hex() or "-"


def enc_announce(c, p, ep, uri, sh, ttl, n): return lp8(id32(c)) + lp8(id32(p)) + lp8(ep) + lp8(uri) + lp8(sh) + be8(ttl) + be8(n)
def enc_handshake(a, b, pub, n): return lp8(id32(a)) + lp8(id32(b)) + be8(pub) + be8(n)
def enc_store(c, size, hint, n): return id32(c) + be8(size) + struct.pack(">I", min(len(hint), 2 ** 32 - 1)) + hint + be8(n)
def enc_token(c, h, ep, n): return id32(c) + id32(h) + ep + be8(n)


def lz(d: bytes) -> int:
    v = int.from_bytes(d, "big")
    return 8 * len(d) - v.bit_length()


def aim(rng, enc, want: int, start=None, limit=60000):
    """a nonce whose digest has exactly `want` leading zero bits (None if not found quickly)"""
    n = rng.randrange(0, U64) if start is None else start
    for _ in range(limit):
        if lz(hashlib.sha256(enc(n)).digest()) == want:
            return n
        n = (n + 1) % U64
    return None


LENS = [0, 1, 2, 7, 8, 9, 31, 32, 33, 55, 56, 63, 64, 65, 119, 120, 255, 256, 300]
NONCES = [0, 1, 255, 256, 2 ** 32 - 1, 2 ** 32, 2 ** 63, U64 - 1]
TTLS = [0, 1, -1, 30, 3600, 21600, 2 ** 31, 2 ** 63 - 1, -2 ** 63, -3600]
DIFFS = [0, 1, 2, 3, 4, 5, 6, 7, 8, 9, 10, 11, 12, 16, 23, 24, 25, 31, 32, 64, 128, 254, 255]


def rbytes(rng, n=None):
    if n is None:
        n = rng.choice(LENS) if rng.random() < 0.5 else rng.randrange(0, 40)
    return bytes(rng.randrange(256) for _ in range(n))


def rid(rng, letters="abcdefgh"):
    if rng.random() < 0.15:
        return rbytes(rng, 32).hex()
    return f"{rng.choice(letters)}{rng.randrange(0, 2 ** 32) if rng.random() < 0.3 else rng.randrange(1, 60)}"


def rnonce(rng):
    return rng.choice(NONCES) if rng.random() < 0.4 else rng.randrange(0, U64)


def rdiff_small(rng):
    return rng.choice([0, 1, 1, 2, 3, 4, 5, 6, 7, 8, 9, 10, 11, 12])


def crafted_digest(rng, k: int, n: int = 32) -> bytes:
    """n-byte digest with exactly k leading zero bits (k = 8n: all zero); the rest random or patterned"""
    bits = 8 * n
    if k >= bits:
        return bytes(n)
    tail = bits - k - 1
    style = rng.random()
    if style < 0.3:
        rest = 0
    elif style < 0.6:
        rest = (1 << tail) - 1
    else:
        rest = rng.getrandbits(tail) if tail > 0 else 0
    v = (1 << tail) | rest
    return v.to_bytes(n, "big")


def gen_counters(rng, i) -> Case:
    ops = []
    d = i % 256
    for k in {max(0, d - 1), d, min(256, d + 1), rng.randrange(0, 257), 0, 256}:
        dg = crafted_digest(rng, k)
        for dd in {d, k % 256, (k + 1) % 256, max(0, k - 1), rng.randrange(0, 256)}:
            ops.append(f"lz {dg.hex()} {dd}")
    for n in (0, 1, 2, 31, 33, 40):
        k = rng.randrange(0, 8 * n + 1)
        ops.append(f"lz {hx(crafted_digest(rng, k, n))} {rng.choice([0, k % 256, (k + 1) % 256, d])}")
    return Case(ops=ops, tag="counters")


def announce_fields(rng):
    ep = rng.choice([b"10.0.0.1:45000", b"", b"[::1]:1", rbytes(rng)])
    uri = rng.choice([b"eph://" + rbytes(rng, 20).hex().encode(), b"", rbytes(rng)])
    sh = rng.choice([b"", bytes([1, 2, 3]), bytes(range(255)), rbytes(rng, rng.randrange(0, 6))])
    ttl = rng.choice(TTLS) if rng.random() < 0.6 else rng.randrange(1, 100000)
    return rid(rng, "cd"), rid(rng, "pq"), ep, uri, sh, ttl


def gen_announce(rng) -> Case:
    ops = []
    c, p, ep, uri, sh, ttl = announce_fields(rng)
    head = f"{c} {p} {hx(ep)} {hx(uri)} {hx(sh)} {ttl}"
    d = rdiff_small(rng)
    ops.append(f"ann {head} {rnonce(rng)} {rng.choice(DIFFS)}")
    for want in {d, max(0, d - 1)}:           # exactly at / one below the target
        n = aim(rng, lambda x: enc_announce(c, p, ep, uri, sh, ttl, x), want)
        if n is not None:
            ops.append(f"ann {head} {n} {d}")
            ops.append(f"annnode {rng.choice([d, d, 0, d + 1])} {rng.choice([3, 3, 4, 2, 0, 255])} {head} {n}")
    ops.append(f"annnode {rng.choice([0, 1, 6, 24, 25, 255])} {rng.choice([0, 1, 2, 3, 4])} {head} {rnonce(rng)}")
    if rng.random() < 0.6:
        ops.append(f"annsolve {head} {d}")
    if rng.random() < 0.4:
        ops.append(f"annsolvenode {rng.choice([0, 1, 4, 6, 8, 10])} {head}")
    # binding probes: move one byte across a field boundary / change one field, same nonce
    n0 = rnonce(rng)
    if ep:
        ops.append(f"ann {c} {p} {hx(ep[:-1])} {hx(ep[-1:] + uri)} {hx(sh)} {ttl} {n0} 1")
        ops.append(f"ann {head} {n0} 1")
    return Case(ops=ops, tag="announce")


def gen_handshake(rng) -> Case:
    ops = []
    a, b = rid(rng, "ab"), rid(rng, "ef")
    pub = rng.choice([2, 5, 2147483646, 2147483645, rng.randrange(2, 2147483647)])
    d = rdiff_small(rng)
    for op in ("hs", "hscli"):
        ops.append(f"{op} {a} {b} {rng.choice([0, 1, pub, 2 ** 32 - 1])} {rnonce(rng)} {rng.choice(DIFFS)}")
    for want in {d, max(0, d - 1)}:
        n = aim(rng, lambda x: enc_handshake(a, b, pub, x), want)
        if n is not None:
            ops.append(f"hs {a} {b} {pub} {n} {d}")
            ops.append(f"hscli {a} {b} {pub} {n} {d}")
            ops.append(f"hsnode {rng.choice([d, d, 0, d + 1])} {a} {b} {pub} {n}")
            if rng.random() < 0.3:      # the same work presented for swapped roles / another key must not be accepted by accident
                ops.append(f"hsnode {d} {b} {a} {pub} {n}")
                ops.append(f"hs {a} {b} {pub - 1 if pub > 2 else pub + 1} {n} {d}")
    if rng.random() < 0.6:
        ops.append(f"hssolve {a} {b} {pub} {d}")
        ops.append(f"hsclisolve {a} {b} {pub} {d}")
    return Case(ops=ops, tag="handshake")


SPECIAL_NONCES = [0, 0, 1, 2 ** 32 - 1, 2 ** 32, 2 ** 63, U64 - 1]


def vary_until(rng, enc_of, nonce, d, want_accept, tries=400):
    """a field variation k (1..) such that the digest for the FIXED special nonce meets (or misses) d bits"""
    start = rng.randrange(1, 10 ** 6)
    for k in range(start, start + tries):
        ok = lz(hashlib.sha256(enc_of(k)(nonce)).digest()) >= d
        if ok == want_accept:
            return k
    return None


def gen_special(rng) -> Case:
    """special nonce values (0, 1, 2^32-1, 2^32, 2^63, 2^64-1) on every surface: the fields are varied until the digest FOR THAT NONCE
    meets the target, and until it misses it, so both verdicts are exercised for the special nonce itself"""
    ops = []
    surface = rng.choice(["handshake", "handshake", "announce", "store", "token"])
    d = rng.choice([1, 2, 3, 4, 4, 5])
    n = rng.choice(SPECIAL_NONCES)
    for want in (True, False):
        if surface == "handshake":
            b = rid(rng, "ef")
            pub = rng.choice([2, 2147483646, rng.randrange(2, 2147483647)])
            k = vary_until(rng, lambda k: (lambda x: enc_handshake(f"a{k}", b, pub, x)), n, d, want)
            if k is not None:
                ops += [f"hsnode {d} a{k} {b} {pub} {n}", f"hs a{k} {b} {pub} {n} {d}", f"hscli a{k} {b} {pub} {n} {d}",
                        f"hsnode {rng.choice([0, d - 1, d + 1])} a{k} {b} {pub} {n}"]
        elif surface == "announce":
            p, ep, uri, sh, ttl = rid(rng, "pq"), b"10.0.0.1:45000", b"eph://x", bytes([1]), rng.choice([30, 3600])
            k = vary_until(rng, lambda k: (lambda x: enc_announce(f"c{k}", p, ep, uri, sh, ttl, x)), n, d, want)
            if k is not None:
                head = f"c{k} {p} {hx(ep)} {hx(uri)} {hx(sh)} {ttl}"
                ops += [f"ann {head} {n} {d}", f"annnode {d} 3 {head} {n}"]
        elif surface == "store":
            size, hint = rng.choice([1, 4096, 2 ** 32 + 5]), rng.choice([b"", b"a.txt"])
            k = vary_until(rng, lambda k: (lambda x: enc_store(f"c{k}", size, hint, x)), n, d, want)
            if k is not None:
                ops.append(f"store c{k} {size} {hx(hint)} {n} {d}")
        else:
            nt = n if n <= 1 else rng.choice([0, 1])      # the token op walks the solver's attempts: small nonces only
            h, ep = rid(rng, "hk"), b"127.0.0.1:47777"
            k = vary_until(rng, lambda k: (lambda x: enc_token(f"c{k}", h, ep, x)), nt, d, want)
            if k is not None:
                ops += [f"tok c{k} {h} {hx(ep)} {nt} {d}", f"toksolve c{k} {h} {hx(ep)} {d} 500000"]
    return Case(ops=ops or ["hint 61"], tag="special-nonce")


def gen_store(rng) -> Case:
    ops = []
    c = rid(rng, "cd")
    size = rng.choice([0, 1, 5, 4096, 2 ** 31, 2 ** 32 - 2, 2 ** 32 - 1, 2 ** 32, 2 ** 32 + 1, 2 ** 32 + 5, 2 ** 33, 2 ** 33 + 4096,
                       2 ** 40, 2 ** 63 - 1, 2 ** 63, 2 ** 63 + 1, U64 - 2 ** 32, U64 - 2, U64 - 1,
                       rng.randrange(0, 2 ** 40), rng.randrange(2 ** 32, U64)])
    hint = rng.choice([b"", b"a.txt", b"a\rb.txt", bytes([0xC3, 0xA9]) + b".bin", rbytes(rng, 255), rbytes(rng, 256), rbytes(rng)])
    d = rdiff_small(rng)
    ops.append(f"store {c} {size} {hx(hint)} {rnonce(rng)} {rng.choice(DIFFS)}")
    for want in {d, max(0, d - 1)}:
        n = aim(rng, lambda x: enc_store(c, size, hint, x), want)
        if n is not None:
            ops.append(f"store {c} {size} {hx(hint)} {n} {d}")
            # work solved for size S must not be taken for S + k*2^32 (every byte of the 64-bit size is bound)
            for other in {(size + 2 ** 32) % U64, (size + 2 ** 33) % U64, size ^ (1 << 63), size % 2 ** 32}:
                if other != size and d > 0:
                    ops.append(f"store {c} {other} {hx(hint)} {n} {d}")
    if rng.random() < 0.7:
        ops.append(f"storesolve {c} {size} {hx(hint)} {d} {rng.choice([0, 0, 500000, 1, 3, 50])}")
    # binding: hint bytes vs. neighbouring fields
    n0 = rnonce(rng)
    ops.append(f"store {c} {size} {hx(hint + b'x')} {n0} 1")
    ops.append(f"store {c} {size} {hx(hint)} {n0} 1")
    return Case(ops=ops, tag="store")


def gen_token(rng) -> Case:
    ops = []
    c, h = rid(rng, "cd"), rid(rng, "hk")
    ep = rng.choice([b"127.0.0.1:47777", b"x", rbytes(rng, rng.randrange(1, 70))])
    d = rng.choice([0, 1, 2, 3, 4, 5, 6, 7, 8, 9, 10])
    ops.append(f"tok {c} {h} {hx(ep)} {rng.choice([0, 1, 255, 256, 257, 1000])} {rng.choice(DIFFS)}")
    for want in {d, max(0, d - 1)}:
        n = aim(rng, lambda x: enc_token(c, h, ep, x), want, start=0, limit=3000)
        if n is not None:
            ops.append(f"tok {c} {h} {hx(ep)} {n} {d}")
    ops.append(f"toksolve {c} {h} {hx(ep)} {d} {rng.choice([500000, 500000, 0, 1, 2, 10])}")
    if rng.random() < 0.2:
        ops.append(f"toksolve {c} {h} - {d} 500000")
    return Case(ops=ops, tag="token")


NAME_PARTS = [b"a", b"report", b".hidden", b"name with space", b"\xc3\xa9t\xc3\xa9", b"x" * 40, b"\xff\xfe", b"tab\there", b"semi;colon",
              b"co:lon", b"..", b".", b"...", b"-", b"a\rb", b"a\nb", b"\r", b"\n", b"\r\n", b"end\r", b"\rstart", b"TTL:1"]


def rname(rng) -> bytes:
    r = rng.random()
    if r < 0.5:
        return rng.choice(NAME_PARTS) + rng.choice([b"", b".txt", b".tar.gz"])
    if r < 0.7:
        return bytes(rng.choice([65, 97, 46, 32, 13, 10, 200, 0x7f, 1]) for _ in range(rng.randrange(1, 12)))
    return b"n" * rng.choice([200, 254, 255, 256, 300])


def gen_hint(rng) -> Case:
    ops = []
    for _ in range(rng.randint(6, 14)):
        r = rng.random()
        if r < 0.25:
            path = rname(rng)
        elif r < 0.6:
            path = rng.choice([b"/", b"", b"./", b"../", b"/tmp/", b"dir/sub/", b"//", b"/a//"]) + rname(rng) + rng.choice([b"", b"", b"/", b"//"])
        elif r < 0.8:
            path = rng.choice([b"", b"/", b"//", b"///", b".", b"..", b"/.", b"/..", b"a/.", b"a/..", b"a/b/", b"//x", b"//x/y"])
        else:
            path = b"/".join(rname(rng) for _ in range(rng.randrange(1, 4)))
        if b"\0" in path:
            path = path.replace(b"\0", b"0")
        ops.append(f"hint {hx(path)}")
    return Case(ops=ops, tag="hint")


def valid_filename(name: bytes) -> bool:
    return 0 < len(name) <= 255 and b"/" not in name and b"\0" not in name and name not in (b".", b"..")


def gen_storecli(rng) -> Case:
    name = rname(rng)
    for _ in range(10):
        if valid_filename(name):
            break
        name = rname(rng)
    if not valid_filename(name):
        name = b"plain.txt"
    cfg = rng.choice([0, 3, 4, 6])
    content = rbytes(rng, rng.choice([1, 2, 5, 64, 300]))   # the daemon refuses empty payloads (unrelated to PoW)
    return Case(ops=[f"storecli {cfg} {name.hex()} {hx(content)}"], tag="storecli")


def _public_only(cases):
    """drop the ops that need harness internals (the rest of each case is kept)"""
    kept = []
    for c in cases:
        ops = [op for op in c.ops if op.split(" ", 1)[0] not in INTERNAL_OPS]
        if ops:
            kept.append(Case(ops=ops, tag=c.tag))
    return kept


def generate(ctx, budget):
    out = _generate(ctx, budget)
    for n in _H["notes"]:
        if n not in ctx.notes:
            ctx.notes.append(n)
    return out if _H["internals"] else _public_only(out)


def _generate(ctx, budget):
    rng = ctx.rng
    out = []
    n_cli = 10 if ctx.tier == "quick" else 80
    for i in range(budget):
        r = rng.random()
        if i >= 256 and r > 0.9:
            out.append(gen_special(rng))
        elif i < 256 or r < 0.15:
            out.append(gen_counters(rng, i))
        elif r < 0.35:
            out.append(gen_announce(rng))
        elif r < 0.55:
            out.append(gen_handshake(rng))
        elif r < 0.72:
            out.append(gen_store(rng))
        elif r < 0.82:
            out.append(gen_token(rng))
        else:
            out.append(gen_hint(rng))
    # fixed CR/LF shapes first, then random names
    for nm in (b"a\rb.txt", b"a\nb.txt", b"plain.txt"):
        out.append(Case(ops=[f"storecli 4 {nm.hex()} 68656c6c6f"], tag="storecli"))
    out += [gen_storecli(rng) for _ in range(n_cli)]
    return out


def nontrivial(r: CaseResult) -> bool:
    """counts if the case shows both an accepted (with required bits > 0) and a refused nonce, a solver result,
    a counter case, a CLI store, or a hint that changed its input"""
    tag = r.case.tag.split("/")[0]
    if tag in ("counters", "storecli"):
        return True
    if tag == "hint":
        return any(o.startswith("some:") for o in r.impl) and any(o == "none" for o in r.impl)
    acc = any(o.endswith("valid=1") and not op.endswith(" 0") for op, o in zip(r.case.ops, r.impl))
    rej = any(o.endswith("valid=0") for o in r.impl)
    solved = any(o.startswith("nonce=") for o in r.impl)
    return (acc and rej) or solved


def spec() -> Spec:
    return Spec(
        pid=PID,
        proof_modules=["EphVerif.Proofs.C19"],
        driver="drv_c19",
        harness=harness,
        generate=generate,
        extract=extract,
        nontrivial=nontrivial,
        budget={"quick": 600, "thorough": 8000},
        search_budget={"quick": 1500, "thorough": 20000},
        divergence_is_violation=True,
        per_case_timeout=60.0,
        rule="streams: counters (crafted digests with exactly k leading zero bits for every difficulty 0..255, k in {d-1,d,d+1}, patterns "
             "00..0 / 0..01 / 0..01ff.. / random tail, also 0/1/2/31/33/40-byte digests); announce / handshake (node and CLI) / store / "
             "token (random and boundary field lengths 0,1,55,56,63,64,255,256, TTL incl. negative and int64 limits, nonces 0..2^64-1, "
             "difficulties 0..255; nonces aimed so that the digest has exactly d and d-1 leading zero bits; special nonce values "
             "0, 1, 2^32-1, 2^32, 2^63, 2^64-1 on every surface with the fields varied until the digest for THAT nonce meets / misses 1-5 bits; "
             " one byte moved across a field "
             "boundary; swapped roles); real solvers at 0..12 bits incl. attempt limits 0/1/3/50; filename hints (slashes, dots, 254/255/256 "
             "bytes, CR/LF, high bytes); the real CLI store command against a real daemon with such names; distinct = sha256 of the op "
             "list; non-trivial = an accepted (bits>0) and a refused nonce in the same case, a solved nonce, a counter or CLI case",
        trusted_base=["EphVerif.Spec.sha256 (C08's FIPS 180-4 transcription) as the hash of the driver; the theorems hold for every hash",
                      "SHA-256 input tap by ld --wrap on Sha256::update/finalize/digest",
                      "std::mt19937_64 re-implementation in the driver (validated by the differential run itself)",
                      "the generator's own Python encoders are used only to aim nonces at the boundary, never as an oracle"],
        assumptions=["C++ container sizes are below 2^64 bytes (hypotheses of the binding theorems)"],
    )


def run(tier, seed, replay=None):
    return standard_check(spec(), tier, seed, replay)
