"""C06 — provider lookups return exactly the live, non-withdrawn providers."""
from tools.vlib import *

PID = "C06"
READY = True
MANIFEST = {
    "level_text": "Lean 4 theorems (EphVerif.C06.refines / refines_at / sweep_removes_only_expired / sweep_safe / sweep_safe_later / top20 / "
                  "cut_valid), proved by a simulation invariant over operation lists, for every history of add / withdraw / find / sweep / "
                  "clock advance (any number of chunks and peers, TTLs of any sign, advances >= 0) and every tie-break of the truncation sort: "
                  "the model of KademliaTable's locator table answers every lookup with exactly the live, non-withdrawn announcements of an "
                  "abstract per-provider eager-expiry directory (as a permutation, hence as a set), never more than 20; what is kept at an "
                  "announcement is a legal choice of the 20 expiring last; a sweep removes exactly the holders with now >= expiry and nothing "
                  "else, and inserting a sweep anywhere changes no later lookup (up to the tie-break the property leaves open). The model is "
                  "tied to the code by a regenerated constant (kMaxProviders, proof obligation = 20) and by a differential run of the real "
                  "KademliaTable under a virtual clock against the compiled Lean model, with the Lean specification (not the model) judging "
                  "every lookup and every truncation the implementation performs.",
    "level_note": "Trusted: Lean kernel; hand transcription of add_contact/find_providers/sweep_expired/withdraw_contact into Lean "
                  "(unordered_map as a function String -> Option Loc; checked only by the differential run, where all 5 hand-made mutants of "
                  "the anchored code were caught); std::sort/unordered_map semantics (the order std::sort leaves among equal expiries is taken "
                  "from the implementation as a hint that model and specification validate; theorems hold for every hint); the harness and its "
                  "canonicalisation (holders sorted by peer name on both sides). Nanosecond arithmetic is unbounded Int in the model (no "
                  "int64 overflow within generated ranges); chunk and peer ids are opaque strings.",
    "technique": "Lean 4 refinement proof (simulation invariant, induction over histories) + model/implementation differential correspondence with Lean monitor",
}
SECOND = 1_000_000_000


def harness():
    return build_harness("dht_h", "harness/dht_h.cpp", ["src/dht/KademliaTable.cpp", "src/core/Types.cpp"],
                         includes_repo_cpp=False, vclock=True)


def extract():
    vals, gaps = extract_consts([
        Const("kMaxProviders", "src/dht/KademliaTable.cpp", r"constexpr\s+std::size_t\s+kMaxProviders\s*=\s*([^;]+);", default=20),
    ])
    write_generated(PID, lean_consts(vals))
    return gaps


def gen_case(rng, big: bool) -> Case:
    """One history. The generator tracks virtual time so that advances land exactly on,
    one ns before and one ns after provider deadlines."""
    nchunks = rng.choice([1, 1, 2, 3])
    chunks = [f"c{i+1}" for i in range(nchunks)]
    shape = rng.choice(["mixed", "mixed", "crowd", "reannounce", "withdraw"])
    npeers = rng.choice([2, 3, 5]) if shape != "crowd" else rng.choice([19, 20, 21, 24, 40])
    peers = [f"p{i+1}" for i in range(npeers)]
    ttls = [1, 2, 3, 5, 10, 30, 100, 3600, 0, -1] if shape != "crowd" else [5, 5, 6, 7, 10, 10, 30, 60, 100, 1]
    now = 0
    deadlines = []
    ops = []
    n = rng.randint(6, 40) if not big else rng.randint(30, 160)
    if shape == "crowd":
        order = peers[:]
        rng.shuffle(order)
        for p in order:
            t = rng.choice(ttls)
            ops.append(f"add {chunks[0]} {p} {t}")
            deadlines.append(now + t * SECOND)
            if rng.random() < 0.15:
                d = rng.choice([1, SECOND, 2 * SECOND])
                ops.append(f"adv {d}")
                now += d
        ops.append(f"find {chunks[0]}")
    for _ in range(n):
        r = rng.random()
        if r < 0.30:
            c, p, t = rng.choice(chunks), rng.choice(peers), rng.choice(ttls)
            ops.append(f"add {c} {p} {t}")
            deadlines.append(now + t * SECOND)
        elif r < 0.55:
            future = sorted(d for d in deadlines if d >= now)
            if future and rng.random() < 0.8:
                target = rng.choice(future[:4]) + rng.choice([-1, 0, 0, 1])
                d = max(0, target - now)
            else:
                d = rng.choice([0, 1, SECOND // 2, SECOND, 7 * SECOND])
            ops.append(f"adv {d}")
            now += d
        elif r < 0.75:
            ops.append(f"find {rng.choice(chunks)}")
        elif r < 0.88:
            ops.append("sweep")
            for c in chunks:
                ops.append(f"find {c}")
        else:
            ops.append(f"withdraw {rng.choice(chunks)} {rng.choice(peers)}")
    for c in chunks:
        ops.append(f"find {c}")
    return Case(ops=ops, tag=shape)


def generate(ctx, budget):
    return [gen_case(ctx.rng, ctx.tier == "thorough" and i % 4 == 0) for i in range(budget)]


def nontrivial(r: CaseResult) -> bool:
    """a history counts only if some lookup returned providers and some lookup (of a chunk that
    had been announced) returned fewer than were announced, i.e. expiry/withdrawal/cut was exercised."""
    finds = [o for op, o in zip(r.case.ops, r.impl) if op.startswith("find")]
    return any(o != "-" for o in finds) and (any(o == "-" for o in finds) or len(set(finds)) > 2)


def spec() -> Spec:
    return Spec(
        pid=PID,
        proof_modules=["EphVerif.Proofs.C06"],
        driver="drv_c06",
        harness=harness,
        generate=generate,
        extract=extract,
        nontrivial=nontrivial,
        budget={"quick": 1500, "thorough": 40000},
        rule="random histories of add/withdraw/find/sweep/adv over 1-3 chunks and 2-40 peers under the virtual clock; "
             "advances are aimed at provider deadlines (-1 ns, 0, +1 ns); distinct = sha256 of the op list; non-trivial = "
             "some lookup non-empty and expiry/withdrawal/truncation visibly changed a lookup result",
        trusted_base=["std::sort / std::unordered_map behaviour (tie order among equal expiries is taken from the implementation and validated as a legal choice)",
                      "virtual clock by link-time interposition of steady_clock::now"],
        assumptions=["expiry arithmetic does not overflow int64 nanoseconds (|ttl| <= 1e6 s in generated cases)"],
    )


def run(tier, seed, replay=None):
    return standard_check(spec(), tier, seed, replay)
