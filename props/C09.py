"""C09 — ChaCha20 matches RFC 8439 and is its own inverse."""
import re

from tools.vlib import *
from tools.vlib import _strip_comments

PID = "C09"
READY = False
MANIFEST = {
    "level_text": "",
    "level_note": "",
    "technique": "",
}

CHACHA = "src/crypto/ChaCha20.cpp"
MANAGER = "src/crypto/CryptoManager.cpp"
MASK32 = 0xFFFFFFFF


def harness():
    return build_harness("chacha_h", "harness/chacha_h.cpp", [], includes_repo_cpp=True)


# ----------------------------------------------------------------------------------------------
# (T) extraction: constants, the quarter-round statement list, index tuples, state layout
# ----------------------------------------------------------------------------------------------

DEFAULTS = {
    "sigma": [0x61707865, 0x3320646E, 0x79622D32, 0x6B206574],
    "kBlockSize": 64,
    "rotlWidth": 32,
    "qrProgram": [(0, 0, 1, 0), (1, 3, 0, 0), (2, 3, 3, 16), (0, 2, 3, 0), (1, 1, 2, 0), (2, 1, 1, 12),
                  (0, 0, 1, 0), (1, 3, 0, 0), (2, 3, 3, 8), (0, 2, 3, 0), (1, 1, 2, 0), (2, 1, 1, 7)],
    "doubleRounds": 10,
    "qrIndices": [(0, 4, 8, 12), (1, 5, 9, 13), (2, 6, 10, 14), (3, 7, 11, 15),
                  (0, 5, 10, 15), (1, 6, 11, 12), (2, 7, 8, 13), (3, 4, 9, 14)],
    # (kind, arg): 0 = kSigma[arg], 1 = load32_le(&key.bytes[arg]), 2 = counter, 3 = load32_le(&nonce.bytes[arg]), 4 = 0
    "stateInit": [(0, 0), (0, 1), (0, 2), (0, 3)] + [(1, 4 * i) for i in range(8)] + [(2, 0), (3, 0), (3, 4), (3, 8)],
    "load32Terms": [(0, 0), (1, 8), (2, 16), (3, 24)],
    "store32Shifts": [0, 8, 16, 24],
    "store32Mask": 0xFF,
    "deriveCounterTerms": [(0, 0), (1, 8), (2, 16), (3, 24)],
}


def _body(text: str, header_re: str) -> str:
    """text of the brace-balanced block following the first match of header_re"""
    m = re.search(header_re, text, flags=re.S)
    if not m:
        raise ValueError("function not found")
    i = text.index("{", m.end() - 1) if text[m.end() - 1] != "{" else m.end() - 1
    depth = 0
    for j in range(i, len(text)):
        if text[j] == "{":
            depth += 1
        elif text[j] == "}":
            depth -= 1
            if depth == 0:
                return text[i + 1:j]
    raise ValueError("unbalanced braces")


def _int(s: str) -> int:
    return eval_cxx_int(s)


def _shift_terms(body: str, var: str) -> list:
    """`static_cast<std::uint32_t>(var[i]) | (static_cast<…>(var[j]) << s) | …` -> [(i, 0), (j, s), …]"""
    ret = re.search(r"return\s+(.*?);", body, flags=re.S)
    if not ret:
        raise ValueError("no return expression")
    terms = []
    for part in ret.group(1).split("|"):
        m = re.fullmatch(r"\s*\(?\s*static_cast<std::uint32_t>\(\s*" + re.escape(var) + r"\[(\d+)\]\s*\)\s*(?:<<\s*(\d+)\s*)?\)?\s*", part)
        if not m:
            raise ValueError(f"unrecognised term {part.strip()!r}")
        terms.append((int(m.group(1)), int(m.group(2) or 0)))
    return terms


def extract_tables() -> tuple[dict, list[str]]:
    vals = {k: v for k, v in DEFAULTS.items()}
    gaps: list[str] = []
    try:
        src = _strip_comments((REPO / CHACHA).read_text(errors="replace"))
    except OSError as ex:
        return vals, [f"{CHACHA}: {ex}"]

    def attempt(name, fn):
        try:
            vals[name] = fn()
        except Exception as ex:  # translator gap, never an alarm by itself
            gaps.append(f"{name} ({CHACHA}): {ex}")

    def sigma():
        m = re.search(r"kSigma\s*\{([^}]*)\}", src)
        if not m:
            raise ValueError("pattern not found")
        return [_int(x) for x in m.group(1).split(",") if x.strip()]

    def block_size():
        m = re.search(r"constexpr\s+std::size_t\s+kBlockSize\s*=\s*([^;]+);", src)
        if not m:
            raise ValueError("pattern not found")
        return _int(m.group(1))

    def rotl_width():
        body = _body(src, r"std::uint32_t\s+rotl32\s*\([^)]*\)\s*(?:noexcept\s*)?\{")
        m = re.fullmatch(r"\s*return\s+static_cast<std::uint32_t>\(\s*\(value\s*<<\s*shift\)\s*\|\s*\(value\s*>>\s*\((\d+)\s*-\s*shift\)\)\s*\)\s*;\s*", body)
        if not m:
            raise ValueError("body is not (value << shift) | (value >> (W - shift))")
        return int(m.group(1))

    def qr_program():
        m = re.search(r"void\s+quarter_round\s*\(([^)]*)\)", src)
        if not m:
            raise ValueError("pattern not found")
        params = [re.search(r"(\w+)\s*$", p).group(1) for p in m.group(1).split(",")]
        if len(params) != 4:
            raise ValueError("expected four parameters")
        reg = {p: i for i, p in enumerate(params)}
        body = _body(src, r"void\s+quarter_round\s*\([^)]*\)\s*(?:noexcept\s*)?\{")
        prog = []
        for st in body.split(";"):
            st = st.strip()
            if not st:
                continue
            if (mm := re.fullmatch(r"(\w+)\s*\+=\s*(\w+)", st)):
                prog.append((0, reg[mm.group(1)], reg[mm.group(2)], 0))
            elif (mm := re.fullmatch(r"(\w+)\s*\^=\s*(\w+)", st)):
                prog.append((1, reg[mm.group(1)], reg[mm.group(2)], 0))
            elif (mm := re.fullmatch(r"(\w+)\s*=\s*rotl32\(\s*(\w+)\s*,\s*(\d+)\s*\)", st)):
                prog.append((2, reg[mm.group(1)], reg[mm.group(2)], int(mm.group(3))))
            else:
                raise ValueError(f"unrecognised statement {st!r}")
        return prog

    blk: dict = {}

    def block_body():
        blk["body"] = _body(src, r"void\s+chacha20_block\s*\([^)]*\)\s*(?:noexcept\s*)?\{")
        return None

    attempt("_block", block_body)
    vals.pop("_block", None)
    body = blk.get("body", "")

    def double_rounds():
        m = re.search(r"for\s*\(\s*int\s+i\s*=\s*0\s*;\s*i\s*<\s*(\d+)\s*;\s*\+\+i\s*\)\s*\{\s*quarter_round", body)
        if not m:
            raise ValueError("round loop not found")
        return int(m.group(1))

    def qr_indices():
        calls = re.findall(r"quarter_round\(\s*working_state\[(\d+)\]\s*,\s*working_state\[(\d+)\]\s*,\s*working_state\[(\d+)\]\s*,\s*working_state\[(\d+)\]\s*\)", body)
        n_calls = len(re.findall(r"quarter_round\s*\(", body))
        if not calls or len(calls) != n_calls:
            raise ValueError(f"{n_calls} calls, {len(calls)} recognised")
        return [tuple(int(x) for x in c) for c in calls]

    def state_init():
        head = body.split("auto working_state")[0]
        st = [(4, 0)] * 16
        # expand `for (i = 0; i < N; ++i) { state[B + i] = load32_le(&key.bytes[i * S]); }`
        pos = 0
        events = []
        for m in re.finditer(r"for\s*\(\s*std::size_t\s+i\s*=\s*0\s*;\s*i\s*<\s*(\d+)\s*;\s*\+\+i\s*\)\s*\{\s*state\[\s*(\d+)\s*\+\s*i\s*\]\s*=\s*load32_le\(\s*&(key|nonce)\.bytes\[\s*i\s*\*\s*(\d+)\s*\]\s*\)\s*;\s*\}", head):
            events.append((m.start(), [(int(m.group(2)) + i, (1 if m.group(3) == "key" else 3, i * int(m.group(4)))) for i in range(int(m.group(1)))]))
        stripped = re.sub(r"for\s*\([^)]*\)\s*\{[^}]*\}", lambda m: " " * len(m.group(0)), head)
        for m in re.finditer(r"state\[(\d+)\]\s*=\s*([^;]+);", stripped):
            rhs = m.group(2).strip()
            if (mm := re.fullmatch(r"kSigma\[(\d+)\]", rhs)):
                v = (0, int(mm.group(1)))
            elif rhs == "counter":
                v = (2, 0)
            elif (mm := re.fullmatch(r"load32_le\(\s*&(key|nonce)\.bytes\[(\d+)\]\s*\)", rhs)):
                v = (1 if mm.group(1) == "key" else 3, int(mm.group(2)))
            else:
                raise ValueError(f"unrecognised initialiser {rhs!r}")
            events.append((m.start(), [(int(m.group(1)), v)]))
        if len(re.findall(r"state\[", head)) != sum(1 for _ in events):
            raise ValueError("some state[...] assignment was not recognised")
        for _, assigns in sorted(events):
            for idx, v in assigns:
                if idx >= 16:
                    raise ValueError("index out of range")
                st[idx] = v
        return st

    def load_terms():
        return _shift_terms(_body(src, r"std::uint32_t\s+load32_le\s*\([^)]*\)\s*(?:noexcept\s*)?\{"), "data")

    def store_shifts():
        b = _body(src, r"void\s+store32_le\s*\([^)]*\)\s*(?:noexcept\s*)?\{")
        out = {}
        mask = set()
        for st_ in b.split(";"):
            st_ = st_.strip()
            if not st_:
                continue
            m = re.fullmatch(r"dst\[(\d+)\]\s*=\s*static_cast<std::uint8_t>\(\s*(?:value|\(value\s*>>\s*(\d+)\))\s*&\s*(\w+)\s*\)", st_)
            if not m:
                raise ValueError(f"unrecognised statement {st_!r}")
            out[int(m.group(1))] = int(m.group(2) or 0)
            mask.add(_int(m.group(3)))
        if sorted(out) != list(range(len(out))) or len(mask) != 1:
            raise ValueError("unexpected destination indices / masks")
        vals["store32Mask"] = mask.pop()
        return [out[i] for i in range(len(out))]

    attempt("sigma", sigma)
    attempt("kBlockSize", block_size)
    attempt("rotlWidth", rotl_width)
    attempt("qrProgram", qr_program)
    if body:
        attempt("doubleRounds", double_rounds)
        attempt("qrIndices", qr_indices)
        attempt("stateInit", state_init)
    attempt("load32Terms", load_terms)
    attempt("store32Shifts", store_shifts)
    try:
        msrc = _strip_comments((REPO / MANAGER).read_text(errors="replace"))
        vals["deriveCounterTerms"] = _shift_terms(_body(msrc, r"std::uint32_t\s+derive_counter\s*\([^)]*\)\s*(?:noexcept\s*)?\{"), "chunk_id")
    except Exception as ex:
        gaps.append(f"deriveCounterTerms ({MANAGER}): {ex}")
    return vals, gaps


def _lean_list(xs, fmt=str) -> str:
    return "[" + ", ".join(fmt(x) for x in xs) + "]"


def _tuple(t) -> str:
    return "(" + ", ".join(str(x) for x in t) + ")"


def extract():
    v, gaps = extract_tables()
    rot = [p[3] for p in v["qrProgram"] if p[0] == 2]
    body = "\n".join([
        "/-- `kSigma` -/",
        f"def sigma : List UInt32 := {_lean_list(v['sigma'], lambda x: hex(x & MASK32))}",
        "/-- `kBlockSize` -/",
        f"def kBlockSize : Nat := {v['kBlockSize']}",
        "/-- `W` in `rotl32`: `(value << shift) | (value >> (W - shift))` -/",
        f"def rotlWidth : Nat := {v['rotlWidth']}",
        "/-- body of `quarter_round(a, b, c, d)`, one entry per statement, registers a=0 b=1 c=2 d=3:",
        "    `(0, x, y, _)` is `x += y`, `(1, x, y, _)` is `x ^= y`, `(2, x, y, n)` is `x = rotl32(y, n)` -/",
        f"def qrProgram : List (Nat × Nat × Nat × Nat) := {_lean_list(v['qrProgram'], _tuple)}",
        "/-- the shift arguments of the `rotl32` calls of `quarter_round`, in order -/",
        f"def rotations : List Nat := {_lean_list(rot)}",
        "/-- bound of the round loop of `chacha20_block` -/",
        f"def doubleRounds : Nat := {v['doubleRounds']}",
        "/-- the `working_state` indices of the `quarter_round` calls in the loop body, in order -/",
        f"def qrIndices : List (Nat × Nat × Nat × Nat) := {_lean_list(v['qrIndices'], _tuple)}",
        "/-- how `state[0..15]` is initialised: `(0, j)` = `kSigma[j]`, `(1, o)` = `load32_le(&key.bytes[o])`,",
        "    `(2, _)` = `counter`, `(3, o)` = `load32_le(&nonce.bytes[o])`, `(4, _)` = left zero -/",
        f"def stateInit : List (Nat × Nat) := {_lean_list(v['stateInit'], _tuple)}",
        "/-- `load32_le`: OR of `data[i] << s` for these `(i, s)` -/",
        f"def load32Terms : List (Nat × Nat) := {_lean_list(v['load32Terms'], _tuple)}",
        "/-- `store32_le`: `dst[k] = (value >> shifts[k]) & mask` -/",
        f"def store32Shifts : List Nat := {_lean_list(v['store32Shifts'])}",
        f"def store32Mask : UInt32 := {hex(v['store32Mask'] & MASK32)}",
        "/-- `CryptoManager.cpp: derive_counter`: OR of `chunk_id[i] << s` for these `(i, s)` -/",
        f"def deriveCounterTerms : List (Nat × Nat) := {_lean_list(v['deriveCounterTerms'], _tuple)}",
    ])
    write_generated(PID, body)
    return gaps


if __name__ == "__main__":
    print(extract())
