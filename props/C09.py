"""C09 — ChaCha20 matches RFC 8439 and is its own inverse."""
import re

from tools.vlib import *
from tools.vlib import _strip_comments

PID = "C09"
READY = True
MANIFEST = {
    "level_text": "Lean 4 theorems, for every 32-byte key, 12-byte nonce, 32-bit initial counter and input of any length: the model "
                  "of ChaCha20::apply (block loop with wrapping ++counter, partial last block, writes into a resized output vector) "
                  "— also when the input span is the output vector itself (in-place use) — equals RFC 8439 ChaCha20 written from the RFC (quarter round, 20-round block function, constants|key|counter|nonce "
                  "layout, little-endian serialisation, block j XORed with the block of counter (counter+j) mod 2^32) and checked "
                  "against the RFC's test vectors 2.1.1, 2.2.1, 2.3.2, 2.4.2 by kernel evaluation; applying it twice returns the input "
                  "(no hypothesis at all); output length = input length; CryptoManager::decrypt_with_key inverts encrypt_with_key for "
                  "every key that is not all-zero, every chunk id, plaintext and drawn nonce, with the counter = LE32 of the first four "
                  "id bytes; the excluded all-zero key is characterised by its own theorems (random key swapped in per temporary "
                  "manager, concrete failing round trip). Tied to the code by (T) tables regenerated from ChaCha20.cpp/CryptoManager.cpp "
                  "on every run (sigma, rotation distances, the statement list of quarter_round, round count, the eight index 4-tuples, "
                  "state layout, load/store/derive_counter shift terms) that the model interprets and the proofs unfold, and by (H) a "
                  "differential run of the real code (quarter_round, chacha20_block, ChaCha20::apply, CryptoManager) against the compiled "
                  "Lean model with the Lean RFC specification judging every implementation answer.",
    "level_note": "Trusted: Lean kernel; the RFC transcription (pinned by the RFC's vectors); the regex extractor and the hand-written "
                  "loop/manager part of the model (validated only by the differential run: lengths 0..200, 63/64/65..513, 64 KiB, "
                  "counters around 2^32, all-zero/all-FF keys); uint32_t/uint8_t as UInt32/UInt8; reference parameters modelled "
                  "copy-in/copy-out (index distinctness is a checked theorem); std::array sizes as length hypotheses; "
                  "random_device/mt19937_64 outputs as universally quantified parameters (passed from the implementation as hints in the "
                  "run). Outputs above 256 bytes are compared by length + FNV-1a-64 + head/tail. Not claimed: cryptographic strength, "
                  "timing, the key-stream buffer wipe.",
    "technique": "Lean 4 functional-equivalence proof (model of the C++ = RFC 8439 specification, loop invariant by functional induction) "
                 "+ regenerated-constant obligations + model/implementation differential correspondence with Lean specification monitor",
}

CHACHA = "src/crypto/ChaCha20.cpp"
MANAGER = "src/crypto/CryptoManager.cpp"
MASK32 = 0xFFFFFFFF


HARNESS_NOTES: list[str] = []        # copied into the evidence by post()
INTERNALS = {"available": True}      # False when the harness had to be built with -DVERIF_INTERNALS=0
INTERNAL_OPS = ("qr", "block", "ctr")   # ops that call anonymous-namespace helpers by name


def harness():
    """The harness reaches quarter_round / chacha20_block / derive_counter by name (they have no public
    route). If a rename makes that impossible it is rebuilt with the public-API ops only."""
    notes: list[str] = []
    exe, ok = build_harness_with_fallback(
        lambda defs: build_harness("chacha_h", "harness/chacha_h.cpp", [], includes_repo_cpp=True, defines=defs), notes)
    INTERNALS["available"] = ok
    for n in notes:
        if n not in HARNESS_NOTES:
            HARNESS_NOTES.append(n)
    return exe


# ----------------------------------------------------------------------------------------------
# (T) extraction: constants, the quarter-round statement list, index tuples, state layout.
# Everything is located by *shape*, not by name: the 4-word constant array, the rotate helper by
# its body, the little-endian load/store helpers by their bodies, the quarter round by its
# parameter list + add/xor/rotate statement structure, the block function as the one that calls it.
# An item that cannot be re-read is a translator gap: its default (= the expected value) is emitted.
# ----------------------------------------------------------------------------------------------

DEFAULTS = {
    "sigma": [0x61707865, 0x3320646E, 0x79622D32, 0x6B206574],
    "kBlockSize": 64,
    "rotlWidth": 32,
    "qrProgram": [(0, 0, 1, 0), (1, 3, 0, 0), (2, 3, 3, 16), (0, 2, 3, 0), (1, 1, 2, 0), (2, 1, 1, 12),
                  (0, 0, 1, 0), (1, 3, 0, 0), (2, 3, 3, 8), (0, 2, 3, 0), (1, 1, 2, 0), (2, 1, 1, 7)],
    "doubleRounds": 10,
    "qrIndices": [(0, 4, 8, 12), (1, 5, 9, 13), (2, 6, 10, 14), (3, 7, 11, 15),
                  (0, 5, 10, 15), (1, 6, 11, 12), (2, 7, 8, 13), (3, 4, 9, 14)],
    # (kind, arg): 0 = kSigma[arg], 1 = load32_le(&key.bytes[arg]), 2 = counter, 3 = load32_le(&nonce.bytes[arg]), 4 = 0
    "stateInit": [(0, 0), (0, 1), (0, 2), (0, 3)] + [(1, 4 * i) for i in range(8)] + [(2, 0), (3, 0), (3, 4), (3, 8)],
    "load32Terms": [(0, 0), (1, 8), (2, 16), (3, 24)],
    "store32Shifts": [0, 8, 16, 24],
    "store32Mask": 0xFF,
    "deriveCounterTerms": [(0, 0), (1, 8), (2, 16), (3, 24)],
    # how ChaCha20::apply prepares the output vector: 0 = `output.resize(n)` (old contents survive, which is what makes
    # in-place use work), 1 = re-initialised (`assign(n, v)` / `clear(); resize(n)`) with fill byte outputFill
    "outputPrep": 0,
    "outputFill": 0,
    # how the block counter advances in the loop of ChaCha20::apply: mode 0 = the block function is called with the
    # std::uint32_t counter parameter itself and that parameter is incremented by one afterwards; mode 1 = called with
    # `counter + idx` for a separate per-call index variable. counterWidth = bit width of the variable that is incremented.
    "counterMode": 0,
    "counterWidth": 32,
}

_INT_WIDTH = {"std::uint8_t": 8, "std::uint16_t": 16, "std::uint32_t": 32, "std::uint64_t": 64, "std::size_t": 64,
              "unsigned": 32, "unsigned int": 32, "unsigned short": 16, "unsigned char": 8, "unsigned long": 64,
              "unsigned long long": 64, "uint8_t": 8, "uint16_t": 16, "uint32_t": 32, "uint64_t": 64, "size_t": 64}

_KEYWORDS = {"for", "while", "if", "switch", "catch", "return", "sizeof", "static_cast", "decltype"}
_ID = r"[A-Za-z_]\w*"


def _int(s: str) -> int:
    return eval_cxx_int(s)


def _functions(text: str) -> list[dict]:
    """every `name(params) [const] [noexcept] { body }` in the text: name, raw parameter text, body"""
    out = []
    for m in re.finditer(r"\b(" + _ID + r")\s*\(([^()]*)\)\s*(?:const\s*)?(?:noexcept\s*)?\{", text):
        if m.group(1) in _KEYWORDS:
            continue
        i = m.end() - 1
        depth = 0
        for j in range(i, len(text)):
            if text[j] == "{":
                depth += 1
            elif text[j] == "}":
                depth -= 1
                if depth == 0:
                    out.append({"name": m.group(1), "params": m.group(2), "body": text[i + 1:j], "start": m.start()})
                    break
    return out


def _param_names(params: str) -> list[str]:
    names = []
    for p_ in params.split(","):
        mm = re.search(r"(" + _ID + r")\s*$", p_.strip())
        names.append(mm.group(1) if mm else "")
    return names


def _shift_or_terms(body: str) -> Optional[tuple[str, list]]:
    """`return static_cast<std::uint32_t>(v[i]) | (static_cast<…>(v[j]) << s) | …;` -> (v, [(i, 0), (j, s), …])"""
    ret = re.fullmatch(r"\s*return\s+(.*?);\s*", body, flags=re.S)
    if not ret:
        return None
    terms, var = [], None
    for part in ret.group(1).split("|"):
        m = re.fullmatch(r"\s*\(?\s*static_cast<std::uint32_t>\(\s*(" + _ID + r")\[(\d+)\]\s*\)\s*(?:<<\s*(\d+)\s*)?\)?\s*", part)
        if not m or (var is not None and m.group(1) != var):
            return None
        var = m.group(1)
        terms.append((int(m.group(2)), int(m.group(3) or 0)))
    return (var, terms) if terms else None


def extract_tables() -> tuple[dict, list[str]]:
    vals = {k: v for k, v in DEFAULTS.items()}
    gaps: list[str] = []
    try:
        src = _strip_comments((REPO / CHACHA).read_text(errors="replace"))
    except OSError as ex:
        return vals, [f"{CHACHA}: {ex}"]
    fns = _functions(src)
    names: dict[str, str] = {}      # role -> identifier found in this tree

    def attempt(name, fn, file=CHACHA):
        try:
            v = fn()
            if isinstance(v, dict):
                vals.update(v)
            elif v is not None:
                vals[name] = v
        except Exception as ex:  # translator gap, never an alarm by itself: the default stays
            gaps.append(f"{name} ({file}): {ex}")

    def sigma():
        # the only constexpr array of four 32-bit words
        ms = re.findall(r"constexpr\s+std::array<\s*std::uint32_t\s*,\s*4\s*>\s+(" + _ID + r")\s*\{([^}]*)\}", src)
        if len(ms) != 1:
            raise ValueError(f"{len(ms)} candidate 4-word constant arrays")
        names["sigma"] = ms[0][0]
        ws = [_int(x) for x in ms[0][1].split(",") if x.strip()]
        if len(ws) != 4:
            raise ValueError("not four words")
        return ws

    def block_size():
        # the std::size_t constant used as the size of a byte array (key-stream buffer)
        consts = dict(re.findall(r"constexpr\s+std::size_t\s+(" + _ID + r")\s*=\s*([^;]+);", src))
        used = [n for n in consts if re.search(r"std::array<\s*std::uint8_t\s*,\s*" + re.escape(n) + r"\s*>", src)]
        if len(used) != 1:
            raise ValueError(f"{len(used)} candidate block-size constants")
        names["blockSize"] = used[0]
        return _int(consts[used[0]])

    def rotl_width():
        # helper whose body is `(v << s) | (v >> (W - s))`
        hits = []
        for f in fns:
            pn = _param_names(f["params"])
            if len(pn) != 2:
                continue
            v, sh = map(re.escape, pn)
            m = re.fullmatch(r"\s*return\s+(?:static_cast<std::uint32_t>\()?\s*\(" + v + r"\s*<<\s*" + sh + r"\)\s*\|\s*\(" + v +
                             r"\s*>>\s*\((\d+)\s*-\s*" + sh + r"\)\)\s*\)?\s*;\s*", f["body"])
            if m:
                hits.append((f["name"], int(m.group(1))))
        if len(hits) != 1:
            raise ValueError(f"{len(hits)} functions of the shape (v << s) | (v >> (W - s))")
        names["rotl"] = hits[0][0]
        return hits[0][1]

    def load_terms():
        hits = [(f["name"], t[1]) for f in fns if len(_param_names(f["params"])) == 1 and (t := _shift_or_terms(f["body"]))
                and t[0] == _param_names(f["params"])[0]]
        if len(hits) != 1:
            raise ValueError(f"{len(hits)} functions of the shape OR of (p[i] << s)")
        names["load"] = hits[0][0]
        return hits[0][1]

    def store_shifts():
        hits = []
        for f in fns:
            pn = _param_names(f["params"])
            if len(pn) != 2:
                continue
            dst, val = map(re.escape, pn)
            out, mask, okay = {}, set(), True
            stmts = [x.strip() for x in f["body"].split(";") if x.strip()]
            for st_ in stmts:
                m = re.fullmatch(dst + r"\[(\d+)\]\s*=\s*static_cast<std::uint8_t>\(\s*(?:" + val + r"|\(" + val +
                                 r"\s*>>\s*(\d+)\))\s*&\s*(\w+)\s*\)", st_)
                if not m:
                    okay = False
                    break
                out[int(m.group(1))] = int(m.group(2) or 0)
                mask.add(_int(m.group(3)))
            if okay and stmts and sorted(out) == list(range(len(out))) and len(mask) == 1:
                hits.append((f["name"], [out[i] for i in range(len(out))], mask.pop()))
        if len(hits) != 1:
            raise ValueError(f"{len(hits)} functions of the shape p[k] = (v >> s) & mask")
        names["store"] = hits[0][0]
        return {"store32Shifts": hits[0][1], "store32Mask": hits[0][2]}

    def qr_program():
        # four std::uint32_t& parameters; every statement is `x += y`, `x ^= y` or `x = ROT(y, n)`
        rot = names.get("rotl")
        hits = []
        for f in fns:
            if len(re.findall(r"std::uint32_t\s*&", f["params"])) != 4:
                continue
            pn = _param_names(f["params"])
            if len(pn) != 4:
                continue
            reg = {p_: i for i, p_ in enumerate(pn)}
            prog, okay = [], True
            for st_ in [x.strip() for x in f["body"].split(";") if x.strip()]:
                if (mm := re.fullmatch(r"(" + _ID + r")\s*\+=\s*(" + _ID + r")", st_)) and mm.group(1) in reg and mm.group(2) in reg:
                    prog.append((0, reg[mm.group(1)], reg[mm.group(2)], 0))
                elif (mm := re.fullmatch(r"(" + _ID + r")\s*\^=\s*(" + _ID + r")", st_)) and mm.group(1) in reg and mm.group(2) in reg:
                    prog.append((1, reg[mm.group(1)], reg[mm.group(2)], 0))
                elif (mm := re.fullmatch(r"(" + _ID + r")\s*=\s*(" + _ID + r")\(\s*(" + _ID + r")\s*,\s*(\d+)\s*\)", st_)) \
                        and mm.group(1) in reg and mm.group(3) in reg and (rot is None or mm.group(2) == rot):
                    prog.append((2, reg[mm.group(1)], reg[mm.group(3)], int(mm.group(4))))
                else:
                    okay = False
                    break
            if okay and prog:
                hits.append((f["name"], prog))
        if len(hits) != 1:
            raise ValueError(f"{len(hits)} functions with four uint32& parameters and an add/xor/rotate body")
        names["qr"] = hits[0][0]
        return hits[0][1]

    blk: dict = {}

    def block_fn():
        qr = names.get("qr")
        if not qr:
            raise ValueError("quarter round not located")
        cands = [f for f in fns if re.search(r"\b" + re.escape(qr) + r"\s*\(", f["body"])]
        if len(cands) != 1:
            raise ValueError(f"{len(cands)} functions call the quarter round")
        f = cands[0]
        ps = [x.strip() for x in f["params"].split(",")]
        role = {}
        for p_ in ps:
            nm = re.search(r"(" + _ID + r")\s*$", p_).group(1)
            if re.search(r"\bKey\b", p_):
                role["key"] = nm
            elif re.search(r"\bNonce\b", p_):
                role["nonce"] = nm
            elif re.fullmatch(r"(?:const\s+)?std::uint32_t\s+" + _ID, p_):
                role["counter"] = nm
        if set(role) != {"key", "nonce", "counter"}:
            raise ValueError("parameters (Key, Nonce, uint32 counter) not recognised")
        mw = re.search(r"auto\s+(" + _ID + r")\s*=\s*(" + _ID + r")\s*;", f["body"])
        if not mw:
            raise ValueError("`auto working = state;` not found")
        blk.update(body=f["body"], role=role, working=mw.group(1), state=mw.group(2), split=mw.start())
        return None

    def double_rounds():
        qr = re.escape(names["qr"])
        m = re.search(r"for\s*\(\s*(?:int|std::size_t|unsigned)\s+(" + _ID + r")\s*=\s*0\s*;\s*\1\s*<\s*(\d+)\s*;\s*(?:\+\+\1|\1\+\+)\s*\)\s*\{\s*" + qr + r"\s*\(",
                      blk["body"])
        if not m:
            raise ValueError("round loop not found")
        return int(m.group(2))

    def qr_indices():
        qr, w = re.escape(names["qr"]), re.escape(blk["working"])
        idx = r"\s*" + w + r"\[(\d+)\]\s*"
        calls = re.findall(qr + r"\(" + idx + "," + idx + "," + idx + "," + idx + r"\)", blk["body"])
        n_calls = len(re.findall(r"\b" + qr + r"\s*\(", blk["body"]))
        if not calls or len(calls) != n_calls:
            raise ValueError(f"{n_calls} calls, {len(calls)} recognised")
        return [tuple(int(x) for x in c) for c in calls]

    def state_init():
        head = blk["body"][:blk["split"]]
        st_name, role = re.escape(blk["state"]), blk["role"]
        sig, load = names.get("sigma"), names.get("load")
        if not sig or not load:
            raise ValueError("constant array / load helper not located")
        src_re = r"\(\s*&(" + re.escape(role["key"]) + "|" + re.escape(role["nonce"]) + r")\.bytes\["
        kind = {role["key"]: 1, role["nonce"]: 3}
        st = [None] * 16
        events = []
        loop_re = (r"for\s*\(\s*std::size_t\s+(" + _ID + r")\s*=\s*0\s*;\s*\1\s*<\s*(\d+)\s*;\s*(?:\+\+\1|\1\+\+)\s*\)\s*\{\s*" + st_name +
                   r"\[\s*(\d+)\s*\+\s*\1\s*\]\s*=\s*" + re.escape(load) + src_re + r"\s*\1\s*\*\s*(\d+)\s*\]\s*\)\s*;\s*\}")
        for m in re.finditer(loop_re, head):
            events.append((m.start(), [(int(m.group(3)) + i, (kind[m.group(4)], i * int(m.group(5)))) for i in range(int(m.group(2)))]))
        stripped = re.sub(r"for\s*\([^)]*\)\s*\{[^}]*\}", lambda m: " " * len(m.group(0)), head)
        for m in re.finditer(st_name + r"\[(\d+)\]\s*=\s*([^;]+);", stripped):
            rhs = m.group(2).strip()
            if (mm := re.fullmatch(re.escape(sig) + r"\[(\d+)\]", rhs)):
                v = (0, int(mm.group(1)))
            elif rhs == role["counter"]:
                v = (2, 0)
            elif (mm := re.fullmatch(re.escape(load) + src_re + r"(\d+)\]\s*\)", rhs)):
                v = (kind[mm.group(1)], int(mm.group(2)))
            else:
                raise ValueError(f"unrecognised initialiser {rhs!r}")
            events.append((m.start(), [(int(m.group(1)), v)]))
        if len(re.findall(r"\b" + st_name + r"\[", head)) != len(events):
            raise ValueError("some state[...] assignment was not recognised")
        for _, assigns in sorted(events):
            for i, v in assigns:
                if i >= 16:
                    raise ValueError("index out of range")
                st[i] = v
        if not re.search(r"std::array<\s*std::uint32_t\s*,\s*16\s*>\s+" + st_name + r"\s*\{\s*\}", head):
            raise ValueError("state is not a zero-initialised array of 16 words")
        if not events:
            raise ValueError("no state initialisation recognised")
        return [v if v is not None else (4, 0) for v in st]

    attempt("sigma", sigma)
    attempt("kBlockSize", block_size)
    attempt("rotlWidth", rotl_width)
    attempt("load32Terms", load_terms)
    attempt("store32Shifts", store_shifts)
    attempt("qrProgram", qr_program)
    n_gaps = len(gaps)
    attempt("chacha20_block", block_fn)
    if len(gaps) == n_gaps:
        attempt("doubleRounds", double_rounds)
        attempt("qrIndices", qr_indices)
        attempt("stateInit", state_init)

    def output_prep():
        # the public transform: a function taking a span of const bytes and a vector of bytes by reference
        cands = [f for f in fns if re.search(r"std::span<\s*const\s+std::uint8_t\s*>", f["params"])
                 and re.search(r"std::vector<\s*std::uint8_t\s*>\s*&", f["params"])]
        if len(cands) != 1:
            raise ValueError(f"{len(cands)} functions (span<const uint8_t>, vector<uint8_t>&)")
        f = cands[0]
        inp = outp = None
        for p_ in f["params"].split(","):
            nm = re.search(r"(" + _ID + r")\s*$", p_.strip())
            if nm and "std::span" in p_:
                inp = nm.group(1)
            elif nm and "std::vector" in p_:
                outp = nm.group(1)
        if not inp or not outp:
            raise ValueError("parameter names not recognised")
        head = re.split(r"\b(?:while|for)\s*\(", f["body"])[0]
        stmts = [x.strip() for x in head.split(";") if re.search(r"\b" + re.escape(outp) + r"\b", x)]
        size = re.escape(inp) + r"\.size\(\)"
        o = re.escape(outp)
        if len(stmts) == 1 and re.fullmatch(o + r"\.resize\(\s*" + size + r"\s*\)", stmts[0]):
            return {"outputPrep": 0, "outputFill": 0}
        if len(stmts) == 1 and (m := re.fullmatch(o + r"\.assign\(\s*" + size + r"\s*,\s*(.+)\)", stmts[0])):
            return {"outputPrep": 1, "outputFill": _int(m.group(1)) & 0xFF}
        if len(stmts) == 2 and re.fullmatch(o + r"\.clear\(\s*\)", stmts[0]):
            if re.fullmatch(o + r"\.resize\(\s*" + size + r"\s*\)", stmts[1]):
                return {"outputPrep": 1, "outputFill": 0}
            if (m := re.fullmatch(o + r"\.resize\(\s*" + size + r"\s*,\s*(.+)\)", stmts[1])):
                return {"outputPrep": 1, "outputFill": _int(m.group(1)) & 0xFF}
        raise ValueError(f"output preparation not recognised: {stmts!r}")

    attempt("outputPrep", output_prep)

    def counter_advance():
        cands = [f for f in fns if re.search(r"std::span<\s*const\s+std::uint8_t\s*>", f["params"])
                 and re.search(r"std::vector<\s*std::uint8_t\s*>\s*&", f["params"])]
        if len(cands) != 1:
            raise ValueError(f"{len(cands)} functions (span<const uint8_t>, vector<uint8_t>&)")
        f = cands[0]
        ctr = [re.search(r"(" + _ID + r")\s*$", p_.strip()).group(1) for p_ in f["params"].split(",")
               if re.fullmatch(r"(?:const\s+)?std::uint32_t\s+" + _ID + r"(?:\s*=\s*\w+)?", p_.strip())]
        if len(ctr) != 1:
            raise ValueError("uint32 counter parameter not recognised")
        ctr = ctr[0]
        mw = re.search(r"\bwhile\s*\([^{;]*\)\s*\{", f["body"])
        if not mw:
            raise ValueError("while loop not found")
        head, loop = f["body"][:mw.start()], f["body"][mw.end():]
        # the block-function call: the only call in the loop with four arguments the third of which mentions the counter
        calls = [m for m in re.finditer(r"\b(" + _ID + r")\s*\(\s*(" + _ID + r")\s*,\s*(" + _ID + r")\s*,\s*([^,()]+?)\s*,\s*(" + _ID + r")\s*\)\s*;", loop)
                 if re.search(r"\b" + re.escape(ctr) + r"\b", m.group(4))]
        if len(calls) != 1:
            raise ValueError(f"{len(calls)} candidate block-function calls in the loop")
        arg, after = calls[0].group(4).strip(), loop[calls[0].end():]
        if re.search(r"\b" + re.escape(ctr) + r"\b", head.replace(f["params"], "")) or \
                len(re.findall(r"\b" + re.escape(ctr) + r"\b", loop)) != (2 if arg == ctr else 1):
            raise ValueError("the counter is used in a way the translator does not understand")

        def incremented(var, text):
            v = re.escape(var)
            return len(re.findall(r"(?:\+\+\s*" + v + r"\b|\b" + v + r"\s*\+\+|\b" + v + r"\s*\+=\s*1u?\s*;)", text))

        if arg == ctr:
            if incremented(ctr, after) != 1 or incremented(ctr, loop) != 1:
                raise ValueError("counter increment after the block call not recognised")
            return {"counterMode": 0, "counterWidth": 32}
        m = re.fullmatch(re.escape(ctr) + r"\s*\+\s*(" + _ID + r")|(" + _ID + r")\s*\+\s*" + re.escape(ctr), arg)
        if not m:
            raise ValueError(f"counter argument {arg!r} not recognised")
        idx = m.group(1) or m.group(2)
        decl = re.search(r"((?:std::)?(?:u?int\d+_t|size_t)|unsigned(?:\s+(?:int|short|char|long(?:\s+long)?))?)\s+" + re.escape(idx) +
                         r"\s*(?:=\s*0u?|\{\s*0?u?\s*\})\s*;", head)
        if not decl or incremented(idx, after) != 1 or incremented(idx, loop) != 1:
            raise ValueError(f"index variable {idx!r}: declaration or increment not recognised")
        width = _INT_WIDTH.get(re.sub(r"\s+", " ", decl.group(1)))
        if width is None:
            raise ValueError(f"width of {decl.group(1)!r} unknown")
        return {"counterMode": 1, "counterWidth": width}

    attempt("counterAdvance", counter_advance)

    def derive_terms():
        msrc = _strip_comments((REPO / MANAGER).read_text(errors="replace"))
        hits = [t[1] for f in _functions(msrc) if "ChunkId" in f["params"] and len(_param_names(f["params"])) == 1
                and (t := _shift_or_terms(f["body"])) and t[0] == _param_names(f["params"])[0]]
        if len(hits) != 1:
            raise ValueError(f"{len(hits)} functions of the shape OR of (chunk_id[i] << s)")
        return hits[0]

    attempt("deriveCounterTerms", derive_terms, MANAGER)
    return vals, gaps


def _lean_list(xs, fmt=str) -> str:
    return "[" + ", ".join(fmt(x) for x in xs) + "]"


def _tuple(t) -> str:
    return "(" + ", ".join(str(x) for x in t) + ")"


def extract():
    v, gaps = extract_tables()
    rot = [p[3] for p in v["qrProgram"] if p[0] == 2]
    body = "\n".join([
        "/-- `kSigma` -/",
        f"def sigma : List UInt32 := {_lean_list(v['sigma'], lambda x: hex(x & MASK32))}",
        "/-- `kBlockSize` -/",
        f"def kBlockSize : Nat := {v['kBlockSize']}",
        "/-- `W` in `rotl32`: `(value << shift) | (value >> (W - shift))` -/",
        f"def rotlWidth : Nat := {v['rotlWidth']}",
        "/-- body of `quarter_round(a, b, c, d)`, one entry per statement, registers a=0 b=1 c=2 d=3:",
        "    `(0, x, y, _)` is `x += y`, `(1, x, y, _)` is `x ^= y`, `(2, x, y, n)` is `x = rotl32(y, n)` -/",
        f"def qrProgram : List (Nat × Nat × Nat × Nat) := {_lean_list(v['qrProgram'], _tuple)}",
        "/-- the shift arguments of the `rotl32` calls of `quarter_round`, in order -/",
        f"def rotations : List Nat := {_lean_list(rot)}",
        "/-- bound of the round loop of `chacha20_block` -/",
        f"def doubleRounds : Nat := {v['doubleRounds']}",
        "/-- the `working_state` indices of the `quarter_round` calls in the loop body, in order -/",
        f"def qrIndices : List (Nat × Nat × Nat × Nat) := {_lean_list(v['qrIndices'], _tuple)}",
        "/-- how `state[0..15]` is initialised: `(0, j)` = `kSigma[j]`, `(1, o)` = `load32_le(&key.bytes[o])`,",
        "    `(2, _)` = `counter`, `(3, o)` = `load32_le(&nonce.bytes[o])`, `(4, _)` = left zero -/",
        f"def stateInit : List (Nat × Nat) := {_lean_list(v['stateInit'], _tuple)}",
        "/-- `load32_le`: OR of `data[i] << s` for these `(i, s)` -/",
        f"def load32Terms : List (Nat × Nat) := {_lean_list(v['load32Terms'], _tuple)}",
        "/-- `store32_le`: `dst[k] = (value >> shifts[k]) & mask` -/",
        f"def store32Shifts : List Nat := {_lean_list(v['store32Shifts'])}",
        f"def store32Mask : UInt32 := {hex(v['store32Mask'] & MASK32)}",
        "/-- `CryptoManager.cpp: derive_counter`: OR of `chunk_id[i] << s` for these `(i, s)` -/",
        f"def deriveCounterTerms : List (Nat × Nat) := {_lean_list(v['deriveCounterTerms'], _tuple)}",
        "/-- how `ChaCha20::apply` prepares `output`: 0 = `output.resize(input.size())` (contents kept),",
        "    1 = re-initialised (`assign(n, v)` or `clear(); resize(n[, v])`) with fill byte `outputFill` -/",
        f"def outputPrep : Nat := {v['outputPrep']}",
        f"def outputFill : UInt8 := {v['outputFill']}",
        "/-- how the block counter advances in the loop of `ChaCha20::apply`: mode 0 = `chacha20_block(…, counter, …); ++counter;`",
        "    on the `std::uint32_t` parameter; mode 1 = `chacha20_block(…, counter + idx, …); ++idx;` with a separate index",
        "    variable. `counterWidth` = bit width of the variable that is incremented. -/",
        f"def counterMode : Nat := {v['counterMode']}",
        f"def counterWidth : Nat := {v['counterWidth']}",
    ])
    write_generated(PID, body)
    return gaps



# ----------------------------------------------------------------------------------------------
# generator
# ----------------------------------------------------------------------------------------------

COUNTERS = [0, 1, 2 ** 31, 2 ** 32 - 2, 2 ** 32 - 1]
BOUNDARY_LENGTHS = [63, 64, 65, 127, 128, 129, 191, 192, 193, 255, 256, 257, 511, 512, 513]
LONG_LENGTHS = [65536, 65535, 65537]
ZERO_KEY = "00" * 32


def _hex(rng, n: int) -> str:
    return bytes(rng.getrandbits(8) for _ in range(n)).hex() if n else "-"


def _key(rng) -> str:
    r = rng.random()
    if r < 0.08:
        return ZERO_KEY
    if r < 0.16:
        return "ff" * 32
    if r < 0.22:                      # a single non-zero byte (first / last / random position)
        b = bytearray(32)
        b[rng.choice([0, 31, rng.randrange(32)])] = rng.choice([1, 0x80, 0xFF])
        return b.hex()
    return _hex(rng, 32)


def _nonzero_key(rng) -> str:
    while True:
        k = _key(rng)
        if k != ZERO_KEY:
            return k


def _nonce(rng) -> str:
    r = rng.random()
    if r < 0.1:
        return "00" * 12
    if r < 0.2:
        return "ff" * 12
    return _hex(rng, 12)


def _counter(rng) -> int:
    r = rng.random()
    if r < 0.6:
        return rng.choice(COUNTERS)
    if r < 0.8:                        # a few blocks before the wrap
        return 2 ** 32 - rng.randint(1, 6)
    return rng.getrandbits(32)


def _payload(rng, n: int) -> str:
    """short inputs literally (random, all-zero or all-FF), longer ones by the shared filler"""
    if n == 0:
        return "-"
    if n <= 96 and rng.random() < 0.7:
        r = rng.random()
        if r < 0.1:
            return "00" * n
        if r < 0.2:
            return "ff" * n
        return _hex(rng, n)
    return f"gen:{n}:{rng.getrandbits(48)}"


def _id(rng) -> str:
    r = rng.random()
    if r < 0.1:
        return "00" * 32
    if r < 0.2:
        return "ff" * 32
    if r < 0.4:                        # counters derived from the id that sit next to the wrap
        c = rng.choice([2 ** 32 - 1, 2 ** 32 - 2, 2 ** 31, 1])
        return c.to_bytes(4, "little").hex() + _hex(rng, 28)
    return _hex(rng, 32)


def gen_case(rng, idx: int, tier: str) -> Case:
    shape = rng.choices(["short", "boundary", "twice", "into", "block", "qr", "mgr", "mgr-zero", "ctr", "inplace", "alias"],
                        weights=[30, 22, 10, 6, 8, 4, 12, 4, 4, 10, 6])[0]
    ops = []
    if shape == "short":
        key, nonce = _key(rng), _nonce(rng)
        # sweep every length 0..200 over the run (idx-driven) plus random ones
        for n in [idx % 201, rng.randint(0, 200), rng.randint(0, 200)]:
            ops.append(f"apply {key} {nonce} {_counter(rng)} {_payload(rng, n)}")
    elif shape == "boundary":
        key, nonce = _key(rng), _nonce(rng)
        for _ in range(3):
            n = rng.choice(BOUNDARY_LENGTHS)
            ctr = rng.choice([2 ** 32 - 1, 2 ** 32 - 2, 2 ** 32 - (n + 63) // 64, _counter(rng)]) % 2 ** 32
            ops.append(f"apply {key} {nonce} {ctr} {_payload(rng, n)}")
    elif shape == "twice":
        key, nonce = _key(rng), _nonce(rng)
        for _ in range(2):
            n = rng.choice(BOUNDARY_LENGTHS + [rng.randint(0, 200)])
            ops.append(f"twice {key} {nonce} {_counter(rng)} {_payload(rng, n)}")
    elif shape == "into":
        key, nonce = _key(rng), _nonce(rng)
        for _ in range(2):
            n = rng.choice([0, 1, 63, 64, 65, 130, rng.randint(0, 200)])
            old = rng.choice([0, 1, max(0, n - 1), n, n + 1, n + 70])
            ops.append(f"applyinto {key} {nonce} {_counter(rng)} {_payload(rng, n)} {_payload(rng, old)}")
    elif shape == "inplace":
        # input span and output vector are the same storage
        key, nonce = _key(rng), _nonce(rng)
        for op in ("applyinplace", "inplacetwice", "applyinplace"):
            n = rng.choice(BOUNDARY_LENGTHS + [0, 1, idx % 201, rng.randint(0, 200)])
            ops.append(f"{op} {key} {nonce} {_counter(rng)} {_payload(rng, n)}")
    elif shape == "alias":
        # input = span over the first n bytes of an output vector of a different length
        key, nonce = _key(rng), _nonce(rng)
        for _ in range(2):
            m = rng.choice([1, 2, 63, 64, 65, 128, 130, rng.randint(1, 200)])
            n = rng.choice([0, 1, m - 1, m // 2, max(0, m - 64), rng.randint(0, m)])
            ops.append(f"applyalias-longer {key} {nonce} {_counter(rng)} {_payload(rng, m)} {min(max(n, 0), m)}")
        m = rng.choice([0, 1, 63, 64, 65, rng.randint(0, 130)])
        ops.append(f"applyalias-shorter {key} {nonce} {_counter(rng)} {_payload(rng, m)} {m + rng.choice([1, 2, 63, 64, 65, 130])}")
    elif shape == "block":
        key, nonce = _key(rng), _nonce(rng)
        for _ in range(3):
            ops.append(f"block {key} {nonce} {_counter(rng)}")
    elif shape == "qr":
        for _ in range(4):
            ws = [rng.choice([0, 0xFFFFFFFF, 0x80000000, 1, rng.getrandbits(32), rng.getrandbits(32)]) for _ in range(4)]
            ops.append("qr " + " ".join(f"{w:08x}" for w in ws))
    elif shape == "mgr":
        key, cid = _nonzero_key(rng), _id(rng)
        n = rng.choice([0, 1, 63, 64, 65, 128, rng.randint(0, 200), rng.randint(0, 200)])
        ops.append(f"mgr_rt {key} {cid} {_payload(rng, n)}")
        ops.append(f"mgr_enc {key} {cid} {_payload(rng, n)}")
        ops.append(f"mgr_dec {key} {cid} {_nonce(rng)} {_payload(rng, n)}")
        ops.append(f"mgr_obj {key} {cid} {_payload(rng, n)}")
        ops.append(f"ctr {cid}")
    elif shape == "mgr-zero":
        cid = _id(rng)
        n = rng.choice([0, 1, 16, 64, 65, rng.randint(1, 96)])
        pt = _hex(rng, n)
        ops.append(f"mgr_obj {ZERO_KEY} {cid} {pt}")
        ops.append(f"mgr_rt {ZERO_KEY} {cid} {pt}")
        ops.append(f"mgr_enc {ZERO_KEY} {cid} {pt}")
        ops.append(f"mgr_dec {ZERO_KEY} {cid} {_nonce(rng)} {pt}")
    else:
        for _ in range(4):
            ops.append(f"ctr {_id(rng)}")
    return Case(ops=ops, tag=shape)


def _mass_failure(ctx, cases) -> bool:
    """Pre-flight on a few cases: when the implementation crashes (sanitizer) or hangs (alarm) on a
    large share of them, running thousands more only multiplies process restarts. The check then
    keeps a small sample — still enough for a replay per violated clause."""
    probe = [Case(ops=list(c.ops), tag=c.tag, cid=f"probe{i}") for i, c in enumerate(cases[:10])]
    try:
        res = run_harness(harness(), probe, ctx.work, timeout=40.0, per_case_timeout=15.0)
    except Exception:
        return False
    bad = sum(1 for c in probe if res.get(c.cid, ([], None))[1])
    if bad >= 3:
        ctx.notes.append(f"pre-flight: the implementation crashed or hung on {bad}/{len(probe)} probe cases; "
                         "generation reduced to a sample (each crash costs a process restart)")
        return True
    return False


def _public_only(cases):
    """drop the ops that need the harness internals (quarter_round, chacha20_block, derive_counter by name)"""
    out = []
    for c in cases:
        ops = [op for op in c.ops if op.split(" ", 1)[0] not in INTERNAL_OPS]
        if ops:
            out.append(Case(ops=ops, tag=c.tag, cid=c.cid))
    return out


def generate(ctx, budget):
    rng = ctx.rng
    cases = [gen_case(rng, i, ctx.tier) for i in range(budget)]
    if not INTERNALS["available"]:
        cases = _public_only(cases)
    if _mass_failure(ctx, cases):
        return cases[:48]
    # 64 KiB inputs (1024 blocks; with the counters below the stream crosses 2^32)
    n_long = 3 if ctx.tier == "quick" else 36
    for i in range(n_long):
        n = LONG_LENGTHS[i % len(LONG_LENGTHS)]
        ctr = [2 ** 32 - 2, 2 ** 32 - 1, 0, 2 ** 32 - 1000, 2 ** 31][i % 5] if i < 5 else _counter(rng)
        key, nonce = _key(rng), _nonce(rng)
        op = ["apply", "applyinplace", "twice", "apply", "inplacetwice", "applyinplace"][i % 6]
        cases.append(Case(ops=[f"{op} {key} {nonce} {ctr} gen:{n}:{rng.getrandbits(48)}"], tag="long"))
    if ctx.tier == "quick" and budget > BUDGET["quick"]:
        # enlarged search (an obligation or the tie is broken): spend the ~11 s on one > 4 MiB call as well
        cases.insert(0, Case(ops=[f"apply {_key(rng)} {_nonce(rng)} {2 ** 32 - 70000} gen:{4 * 1024 * 1024 + 133}:{rng.getrandbits(48)}"],
                             tag="huge"))
    if ctx.tier == "thorough":
        # one call over more than 65536 blocks (4 MiB): a block index narrower than 32 bits wraps inside the call.
        # ~11 s / 0.5 GB (4 MiB) and ~22 s / 1 GB (8 MiB) in the Lean driver, hence thorough only.
        for n in (4 * 1024 * 1024 + 133, 8 * 1024 * 1024):
            for ctr in (0, 2 ** 32 - 70000):
                cases.append(Case(ops=[f"apply {_key(rng)} {_nonce(rng)} {ctr} gen:{n}:{rng.getrandbits(48)}"], tag="huge"))
        key, cid = _nonzero_key(rng), _id(rng)
        cases.append(Case(ops=[f"mgr_rt {key} {cid} gen:65536:{rng.getrandbits(48)}",
                               f"mgr_rt {key} {cid} gen:1048576:{rng.getrandbits(48)}"], tag="long"))
    return cases


def nontrivial(r: CaseResult) -> bool:
    """a case counts if at least one of its ops pushed ≥ 1 byte through the cipher (or ran a block /
    quarter round) and the implementation produced a well-formed answer for it"""
    for op, out in zip(r.case.ops, r.impl):
        t = op.split(" ")
        if t[0] in ("qr", "block", "ctr"):
            return True
        if t[0] in ("apply", "twice", "applyinto", "applyinplace", "inplacetwice", "applyalias-longer", "applyalias-shorter") and t[4] != "-" and not t[4].startswith("gen:0:") and out not in ("-", ""):
            return True
        if t[0].startswith("mgr_") and t[-1] != "-":
            return True
    return False


def post(ctx, results):
    """evidence note on the excluded point (all-zero key): how often the static round trip
    did not return the plaintext because each temporary manager drew its own random key"""
    for n in HARNESS_NOTES:
        if n not in ctx.notes:
            ctx.notes.append(n)
    if not INTERNALS["available"]:
        ctx.coverage["internals_available"] = False
    total = failed = 0
    for r in results:
        for op, out in zip(r.case.ops, r.impl):
            t = op.split(" ")
            if t[0] == "mgr_rt" and t[1] == ZERO_KEY and t[3] != "-" and not t[3].startswith("gen:"):
                o = out.split(" ")
                if len(o) == 3:
                    total += 1
                    failed += (o[2] != t[3])
    ctx.coverage["excluded_point_zero_key"] = {"static_roundtrips_nonempty": total, "did_not_return_plaintext": failed}
    ctx.notes.append(f"excluded point key = 0 (not part of C09's observable): {failed}/{total} static "
                     "encrypt_with_key/decrypt_with_key round trips of a non-empty plaintext did not return it "
                     "(each temporary CryptoManager swaps in its own random key; theorem C09.manager_zero_key)")


BUDGET = {"quick": 1500, "thorough": 40000}
VECTOR_THEOREMS = ["EphVerif.Spec.ChaCha.Vectors." + n for n in (
    "quarterRound_2_1_1", "qrAt_2_2_1", "initState_2_3_2", "rounds_2_3_2", "blockState_2_3_2", "block_2_3_2",
    "sunscreen_bytes", "keystream1_2_4_2", "keystream2_2_4_2", "encrypt_2_4_2", "decrypt_2_4_2")]


def spec() -> Spec:
    return Spec(
        pid=PID,
        proof_modules=["EphVerif.Proofs.C09"],
        driver="drv_c09",
        harness=harness,
        generate=generate,
        extract=extract,
        nontrivial=nontrivial,
        budget=BUDGET,
        search_budget={"quick": 3000, "thorough": 40000},
        extra_theorems=VECTOR_THEOREMS,
        divergence_is_violation=True,
        post=post,
        per_case_timeout=30.0,
        rule="cases of 1-5 ops on the real ChaCha20.cpp / CryptoManager.cpp: apply at every length 0..200 (swept), at "
             "63/64/65 … 511/512/513 and at 64 KiB ± 1 (thorough: single calls of 4 MiB + 133 and 8 MiB at counters 0 and 2^32-70000), counters {0, 1, 2^31, 2^32-2, 2^32-1, 2^32-k, random}, keys/nonces "
             "random, all-zero, all-FF, single non-zero byte; apply twice; apply into a pre-filled vector; in place (input span = the output vector), in place twice, input span over a prefix of a longer / of the reserved capacity of a shorter output vector; single blocks; "
             "quarter rounds; CryptoManager static and object round trips (random nonce/key taken from the implementation "
             "as validated hints). distinct = sha256 of the op list; non-trivial = at least one op pushed >= 1 byte through "
             "the cipher (or evaluated a block / quarter round / derive_counter)",
        trusted_base=["RFC 8439 transcription in Spec/ChaCha20.lean (checked against the RFC's own test vectors 2.1.1, 2.2.1, "
                      "2.3.2, 2.4.2 by kernel evaluation)",
                      "regex extractor of props/C09.py for the generated tables (a wrong transcription shows up as a "
                      "model/implementation divergence)",
                      "FNV-1a/head/tail digest for outputs above 256 bytes (both sides)"],
        assumptions=["Key/Nonce are std::array<uint8_t,32/12>: theorems about RFC equality carry key.length = 32, nonce.length = 12",
                     "CryptoManager: std::random_device / mt19937_64 outputs are arbitrary parameters (theorems quantify over them)",
                     "CryptoManager round trip excludes the all-zero key (random key swapped in); the excluded point is "
                     "characterised by theorem manager_zero_key and replayed as a note"],
    )


def run(tier, seed, replay=None):
    return standard_check(spec(), tier, seed, replay)


if __name__ == "__main__":
    print(extract())
