"""C28 — STORE admission enforces size, TTL, PoW and an unforgeable rate limit."""
import hashlib
from tools.vlib import *
from props.C27 import harness, extract, hx, head, req, cfg, code_of, SECOND

PID = "C28"
READY = True
MANIFEST = {
    "level_text": "Lean 4 theorems about the model of parse_request / handle_store / handle_fetch / allow_store_request / "
                  "allow_stream_fetch. C28.admit_request / admit_connection: for every connection byte stream, configuration and daemon state, a STORE answered "
                  "OK_STORE had a declared PAYLOAD-LENGTH <= cap, a TTL inside [min, max] (after the uint64 -> int64 reinterpretation) "
                  "and, when store PoW is enabled, a nonce for which store_pow_valid(sha256(payload), size, sanitised PATH, nonce) holds "
                  "(sha256 arbitrary function; the validator is C19's model); C28.too_large_reads_no_body: a header block declaring more "
                  "than the cap is answered ERR_CONTROL_PAYLOAD_TOO_LARGE with every body byte still unread. C28.rate_store / "
                  "C28.rate_fetch: with no control token configured, for every finite sequence of clock advances and connections from any "
                  "addresses carrying any bytes (any TOKEN or other headers), every address gets at most 6 OK_STORE and at most 12 streamed "
                  "OK_FETCH in every closed 30 s window. Tied to the code by regenerated constants (6 / 30 s / 12 / 30 s / 3 / 120 s / "
                  "16 KiB / 32 MiB, the strictness of the five comparisons, and whether the no-token branch derives the bucket from the "
                  "TOKEN header) and by a differential run of a real ControlServer + Node under the virtual clock against the compiled "
                  "model, the Lean specification judging every accepted STORE / streamed FETCH.",
    "level_note": "Trusted: Lean kernel; hand transcription of the handlers (checked only by the differential run); C19's Lean model of "
                  "store_pow_valid / sanitize_filename_hint (imported); hashed_token_identity taken as injective; the peer address is what "
                  "accept()/inet_ntop report (all generated traffic comes from 127.0.0.0/8, several distinct source addresses). 'No body byte "
                  "consumed' is proved for the model and observed on the real server by withholding the body (a server that tried to read it would answer TRUNCATED, not TOO_LARGE). "
                  "ERR_STORE_POW_LOCKED is only a different error code in the code (no lock-out is enforced); that is modelled as is and "
                  "not part of the property. The window is read as closed ([t, t+30 s]); the code's `now - ts > 30 s` pruning satisfies it.",
    "technique": "Lean 4 proof (sliding-window invariant by induction over request histories; admission by case analysis) + "
                 "model/implementation differential correspondence with Lean monitor",
}


# ----------------------------------------------------------------------------------------
# store proof of work, as StoreProof.cpp computes it (generator side only)
# ----------------------------------------------------------------------------------------

def sanitize_hint(raw: bytes):
    if not raw:
        return None
    base = raw.rsplit(b"/", 1)[-1]
    if base in (b"", b".", b".."):
        return None
    return base[:255]


def pow_clz(payload: bytes, size: int, hint: bytes, nonce: int) -> int:
    h = hashlib.sha256()
    h.update(hashlib.sha256(payload).digest())
    h.update(size.to_bytes(8, "big"))
    h.update(min(len(hint), 0xFFFFFFFF).to_bytes(4, "big"))
    h.update(hint)
    h.update(nonce.to_bytes(8, "big"))
    d = h.digest()
    n = int.from_bytes(d, "big")
    return 256 - n.bit_length()


def find_nonce(payload: bytes, size: int, hint: bytes, want, start: int = 0) -> int:
    n = start
    while True:
        if want(pow_clz(payload, size, hint, n)):
            return n
        n += 1


# ----------------------------------------------------------------------------------------
# generator
# ----------------------------------------------------------------------------------------

def rnd_payload(rng, n):
    return bytes(rng.randrange(256) for _ in range(n))


def store_lines(rng, body_len, extra=(), token=None, shuffle=True):
    lines = [b"COMMAND:" + rng.choice([b"STORE", b"store", b"Store"]), b"PAYLOAD-LENGTH:" + str(body_len).encode()]
    if token is not None:
        lines.append(b"TOKEN:" + token)
    lines += list(extra)
    if shuffle and rng.random() < 0.5:
        rng.shuffle(lines)
    return lines


def case_size(rng, big):
    cap = rng.choice([16, 64, 255, 256, 1000])
    ops = [cfg(cap=cap)]
    addr = 1
    n = rng.randint(5, 9) if not big else rng.randint(12, 24)
    for i in range(n):
        addr = (addr % 200) + 1   # a fresh address each time: the rate limit is not the subject here
        k = rng.choice(["at", "at", "over", "under", "zero", "huge", "lie-short", "lie-long", "dup-first-big", "dup-last-big", "nolen", "far-over", "withheld-small"])
        if k == "at":
            ops.append(req(addr, store_lines(rng, cap), rnd_payload(rng, cap)))
        elif k == "under":
            ops.append(req(addr, store_lines(rng, cap - 1), rnd_payload(rng, cap - 1)))
        elif k == "over":
            ops.append(req(addr, store_lines(rng, cap + 1), rnd_payload(rng, cap + 1), mode="early"))
        elif k == "far-over":
            ops.append(req(addr, store_lines(rng, 2 * cap + rng.randrange(5)), rnd_payload(rng, 8), mode="early"))
        elif k == "zero":
            ops.append(req(addr, store_lines(rng, 0), b""))
        elif k == "huge":
            v = rng.choice([2**32, 2**63, 2**64 - 1, 2**64, 10**30])
            ops.append(req(addr, store_lines(rng, v), b"abc", mode="early"))
        elif k == "lie-short":   # declares more than is sent (within the cap): truncated
            ops.append(req(addr, store_lines(rng, cap), rnd_payload(rng, max(0, cap - 3))))
        elif k == "lie-long":    # declares less than is sent: only the declared bytes are taken
            d = max(1, cap // 2)
            ops.append(req(addr, store_lines(rng, d), rnd_payload(rng, d + rng.randint(1, 4))))
        elif k == "dup-first-big":
            ops.append(req(addr, [b"COMMAND:STORE", b"PAYLOAD-LENGTH:" + str(cap + 1).encode(), b"PAYLOAD-LENGTH:4"], b"abcd", mode="early"))
        elif k == "dup-last-big":
            ops.append(req(addr, [b"COMMAND:STORE", b"PAYLOAD-LENGTH:4", b"payload-length:" + str(cap + 7).encode()], b"abcd", mode="early"))
        elif k == "nolen":
            ops.append(req(addr, [b"COMMAND:STORE", b"TTL:60"], b""))
        elif k == "withheld-small":   # within the cap but the body never comes: truncated, nothing stored
            ops.append(req(addr, store_lines(rng, max(1, cap // 2)), b"zz", mode="early"))
    ops.append(req(250, [b"COMMAND:LIST"]))
    return Case(ops=ops, tag="size")


def case_ttl(rng, big):
    lo, hi, de = rng.choice([(30, 100, 60), (1, 86400, 3600), (60, 60, 60), (30, 21600, 21600), (100, 1000, 100)])
    ops = [cfg(min=lo, max=hi, default=de, cap=64)]
    addr = 0
    vals = [lo - 1, lo, lo + 1, hi - 1, hi, hi + 1, 0, 1, de, 2**63 - 1, 2**63, 2**63 + 1, 2**64 - 1, 2**64, 86400, 86401,
            2**32 + lo, 2**32 + hi, 2**33 + de, 2**31 + lo, 2**16 + lo, 2**32 - 1, 2**32]
    texts = [str(v).encode() for v in vals if v >= 0] + [b"", b"abc", b"-5", b"+60", b" 60", b"60 ", b"0060", b"6e1", b"0x40", b"60.0"]
    n = rng.randint(6, 10) if not big else rng.randint(15, 30)
    for i in range(n):
        addr = (addr % 200) + 1
        t = rng.choice(texts)
        extra = [b"TTL:" + t] if rng.random() < 0.9 else []
        if rng.random() < 0.15:
            extra = [b"TTL:" + rng.choice(texts), b"ttl:" + t]   # duplicates: the later one counts
        p = rnd_payload(rng, rng.choice([1, 3, 9]))
        ops.append(req(addr, store_lines(rng, len(p), extra), p))
    ops.append(req(250, [b"COMMAND:LIST"]))
    return Case(ops=ops, tag="ttl")


def case_width(rng, big):
    """integer-width probes on the numeric headers: a value that is out of range as a 64-bit number but whose low
    8 / 16 / 31 / 32 bits look fine (a narrowing conversion before the comparison would let it through)"""
    lo, hi, de = rng.choice([(30, 21600, 21600), (30, 100, 60), (1, 86400, 3600), (60, 60, 60), (100, 1000, 100)])
    cap = rng.choice([16, 64, 200])
    ops = [cfg(min=lo, max=hi, default=de, cap=cap)]
    addr = 0
    mid = (lo + hi) // 2
    ts = sorted({lo - 1, lo, lo + 1, mid, hi - 1, hi, hi + 1, de} - {-1})
    probes = []
    for t in ts:
        for base in (2**32, 2 * 2**32, 3 * 2**32, 2**31, 3 * 2**31, 2**16, 2**8, 2**40, 2**63, (2**32 - 1) * 2**32, 2**64):
            probes.append(base + t)
    probes += [2**63 - 1, 2**63, 2**63 + 1, 2**64 - 1, 2**64, 2**64 + lo, 2**32 - 1, 2**32, 2**31 - 1, 2**31]
    rng.shuffle(probes)
    n = 36 if not big else 90
    chosen = probes[:n]
    # the witness of the seeded change C28-r2 and its neighbours are always present
    for must in (2**32 + mid, 2**33 + mid, 2**32 + lo, 2**32 + hi):
        if must not in chosen:
            chosen.append(must)
    for v in chosen:
        addr = (addr % 240) + 1
        text = str(v).encode()
        deco = rng.random()
        if deco < 0.08:
            text = b"000" + text
        elif deco < 0.12:
            text = b"+" + text
        elif deco < 0.16:
            text = text + b" "
        elif deco < 0.20:
            text = b" " + text
        p = rnd_payload(rng, rng.choice([1, 3, 9]))
        ops.append(req(addr, store_lines(rng, len(p), [b"TTL:" + text]), p))
    # PAYLOAD-LENGTH: declared length far above the cap whose low bits are a small in-cap number; the body has exactly
    # that small number of bytes, so a daemon comparing a narrowed value would read it and store it
    for base in (2**32, 2**33, 2**31, 2**16, 2**8, 2**63, 2**64 - 2**32):
        if base <= cap:
            continue
        small = rng.choice([1, 2, 4, 8])
        addr = (addr % 240) + 1
        ops.append(req(addr, store_lines(rng, base + small), rnd_payload(rng, small)))
    ops.append(req(250, [b"COMMAND:LIST"]))
    return Case(ops=ops, tag="width")


PATHS = [None, b"a.txt", b"/abs/dir/file.bin", b"dir/", b".", b"..", b"x/..", b"weird\\name", b"sp ace.txt", b"n" * 300, b"d/" + b"m" * 256,
         b"/", b"a/b/c", b"\xc3\xa9.bin"]


def case_pow(rng, big):
    d = rng.choice([1, 3, 6, 8, 10])
    ops = [cfg(pow=d, cap=128)]
    addr = 0
    n = rng.randint(5, 9) if not big else rng.randint(12, 20)
    for i in range(n):
        addr = (addr % 200) + 1
        p = rnd_payload(rng, rng.choice([1, 5, 32, 100]))
        path = rng.choice(PATHS)
        hint = sanitize_hint(path) if path is not None else None
        hb = hint or b""
        k = rng.choice(["valid", "valid", "valid", "raw-path", "wrong-size", "wrong-payload", "one-bit-short", "missing", "malformed", "other-name"])
        extra = [b"PATH:" + path] if path is not None else []
        if k == "valid":
            nonce = find_nonce(p, len(p), hb, lambda z: z >= d, rng.randrange(1 << 20))
        elif k == "raw-path":
            raw = path or b""
            nonce = find_nonce(p, len(p), raw, lambda z: z >= d, rng.randrange(1 << 20))
        elif k == "wrong-size":
            nonce = find_nonce(p, len(p) + 1, hb, lambda z: z >= d, rng.randrange(1 << 20))
        elif k == "wrong-payload":
            nonce = find_nonce(p + b"!", len(p), hb, lambda z: z >= d, rng.randrange(1 << 20))
        elif k == "one-bit-short":
            nonce = find_nonce(p, len(p), hb, lambda z: z == d - 1, rng.randrange(1 << 20))
        elif k == "other-name":
            nonce = find_nonce(p, len(p), hb + b"x", lambda z: z >= d, rng.randrange(1 << 20))
        else:
            nonce = None
        if k == "malformed":
            extra.append(b"STORE-POW:" + rng.choice([b"", b"12x", b"-1", b"18446744073709551616", b" 7"]))
        elif nonce is not None:
            extra.append(rng.choice([b"STORE-POW:", b"store-pow:"]) + str(nonce).encode())
        ops.append(req(addr, store_lines(rng, len(p), extra), p))
    # three failures from one address inside 120 s: the third is reported as LOCKED
    if rng.random() < 0.5:
        for j in range(4):
            ops.append(req(240, store_lines(rng, 2, [b"STORE-POW:" + str(find_nonce(b"zz", 2, b"", lambda z: z < d, j * 1000)).encode()]), b"zz"))
            if j == 1 and rng.random() < 0.5:
                ops.append(f"adv {rng.choice([119, 120, 121]) * SECOND}")
    ops.append(req(250, [b"COMMAND:LIST"]))
    return Case(ops=ops, tag="pow")


def _advance_to_edge(rng, now, accepted_times, window=30):
    """an advance that lands on the instant the oldest relevant accepted request leaves the window, -1 ns / 0 / +1 ns"""
    live = [t for t in accepted_times if now - t <= window * SECOND]
    if live and rng.random() < 0.75:
        target = rng.choice(live[:3]) + window * SECOND + rng.choice([-1, 0, 0, 1, 1])
        return max(0, target - now)
    return rng.choice([0, 1, SECOND, 7 * SECOND, 29 * SECOND, 30 * SECOND, 31 * SECOND])


def case_rate_store(rng, big, with_token=False):
    tok = b"sekrit" if with_token else None
    ops = [cfg(tok=tok, cap=64)]
    now = 0
    addrs = rng.choice([[1], [1], [1, 2], [1, 2, 3]])
    acc = {a: [] for a in addrs}
    n = rng.randint(14, 26) if not big else rng.randint(40, 90)
    serial = 0
    for i in range(n):
        r = rng.random()
        if r < 0.28:
            a = rng.choice(addrs)
            d = _advance_to_edge(rng, now, acc[a])
            ops.append(f"adv {d}")
            now += d
            continue
        a = rng.choice(addrs)
        serial += 1
        p = b"P%d-" % serial + rnd_payload(rng, 3)
        if with_token:
            tokline = [b"TOKEN:sekrit"] if rng.random() < 0.85 else [b"TOKEN:" + rnd_payload(rng, 3).hex().encode()]
        else:
            style = rng.choice(["none", "vary", "vary", "same", "empty"])
            tokline = {"none": [], "vary": [b"TOKEN:" + (b"t%d" % serial)], "same": [b"TOKEN:fixed"], "empty": [b"TOKEN:"]}[style]
        extra = list(tokline)
        if rng.random() < 0.2:
            extra.append(b"X-Whatever:" + rnd_payload(rng, 4).hex().encode())
        ops.append(req(a, store_lines(rng, len(p), extra), p))
        # generator-side bookkeeping of the intended behaviour (only to aim the advances)
        live = [t for t in acc[a] if now - t <= 30 * SECOND]
        if len(live) < 6 and (not with_token or tokline == [b"TOKEN:sekrit"]):
            acc[a].append(now)
    ops.append(req(250, [b"COMMAND:LIST"]))
    return Case(ops=ops, tag="rate-store-token" if with_token else "rate-store")


def case_rate_fetch(rng, big):
    ops = [cfg(cap=64)]
    p = b"fetch-me-" + rnd_payload(rng, 4)
    ops.append(req(200, store_lines(rng, len(p)), p))
    ops.append("mk m1 " + hx(b"F-" + rnd_payload(rng, 5)) + " 3600")
    now = 0
    addrs = rng.choice([[1], [1, 2]])
    acc = {a: [] for a in addrs}
    n = rng.randint(22, 36) if not big else rng.randint(60, 120)
    for i in range(n):
        if rng.random() < 0.22:
            a = rng.choice(addrs)
            d = _advance_to_edge(rng, now, acc[a])
            ops.append(f"adv {d}")
            now += d
            continue
        a = rng.choice(addrs)
        lines = [b"COMMAND:FETCH", (b"MANIFEST:", "s1"), b"STREAM:" + rng.choice([b"client", b"1", b"yes", b"TRUE"])]
        style = rng.choice(["none", "vary", "vary", "same"])
        if style == "vary":
            lines.append(b"TOKEN:" + (b"f%d" % i))
        elif style == "same":
            lines.append(b"TOKEN:zz")
        if rng.random() < 0.1:
            lines = [b"COMMAND:FETCH", (b"MANIFEST:", "s1"), b"OUT:o/f.bin"]      # not streamed: not limited
        if rng.random() < 0.07:
            lines = [b"COMMAND:FETCH", (b"MANIFEST:", "m1"), b"STREAM:client"]    # chunk missing: no slot used
        rng.shuffle(lines)
        ops.append(req(a, lines))
        live = [t for t in acc[a] if now - t <= 30 * SECOND]
        if len(live) < 12:
            acc[a].append(now)
    return Case(ops=ops, tag="rate-fetch")


def case_interleave(rng, big):
    """STOREs, streamed FETCHes and failing proofs of work from the same address(es) inside one 30 s window: the three
    per-address histories (store slots, fetch slots, PoW failures) must not disturb one another"""
    d = rng.choice([0, 0, 3, 4])
    ops = [cfg(pow=d, cap=64)]
    addrs = rng.choice([[1], [1], [1, 2]])
    serial = [0]
    state = {"now": 0}
    stores = {a: [] for a in addrs}     # generator-side guesses, only to aim the advances
    fetches = {a: [] for a in addrs}

    def store(a, good=True):
        serial[0] += 1
        p = b"I%d-" % serial[0] + rnd_payload(rng, 2)
        extra = []
        if d > 0:
            if good:
                nonce = find_nonce(p, len(p), b"", lambda z: z >= d, rng.randrange(1 << 16))
            else:
                nonce = find_nonce(p, len(p), b"", lambda z: z < d, rng.randrange(1 << 16))
            extra.append(b"STORE-POW:" + str(nonce).encode())
        if rng.random() < 0.3:
            extra.append(b"TOKEN:" + (b"x%d" % serial[0]))
        ops.append(req(a, store_lines(rng, len(p), extra), p))
        stores[a].append(state["now"])

    def fetch(a):
        lines = [b"COMMAND:FETCH", (b"MANIFEST:", "s1"), b"STREAM:" + rng.choice([b"client", b"1", b"yes"])]
        if rng.random() < 0.3:
            lines.append(b"TOKEN:" + (b"y%d" % len(ops)))
        rng.shuffle(lines)
        ops.append(req(a, lines))
        fetches[a].append(state["now"])

    def adv(ns):
        ops.append(f"adv {ns}")
        state["now"] += ns

    a = addrs[0]
    store(a)                                    # s1: the chunk every FETCH asks for (uses one STORE slot of `a`)
    script = rng.choice(["F12-S-F12", "F12-S-F12", "S6-F13", "alternate", "edge", "powfail", "random", "random"])
    if script == "powfail" and d == 0:
        script = "F12-S-F12"
    if script == "F12-S-F12":
        for _ in range(12):
            fetch(a)
        if rng.random() < 0.5:
            adv(rng.choice([1, SECOND, 5 * SECOND]))
        store(a)
        for _ in range(rng.choice([1, 3, 12])):
            fetch(a)
    elif script == "S6-F13":
        for _ in range(6):
            store(a)
        for _ in range(13):
            fetch(a)
        store(a)
        fetch(a)
    elif script == "alternate":
        for i in range(rng.randint(16, 30)):
            (store if i % 3 == 0 else fetch)(rng.choice(addrs))
            if rng.random() < 0.1:
                adv(rng.choice([1, SECOND]))
    elif script == "edge":
        for _ in range(12):
            fetch(a)
        store(a)
        first = fetches[a][0]
        adv(first + 30 * SECOND + rng.choice([-1, 0, 1]) - state["now"])
        fetch(a)
        store(a)
        fetch(a)
        adv(1)
        fetch(a)
    elif script == "powfail":
        # failing proofs use up STORE slots and bump the failure counter (third failure inside 120 s: LOCKED code);
        # an accepted STORE clears the failure counter -- and nothing else
        for _ in range(8):
            fetch(a)
        store(a, good=False)
        store(a, good=False)
        for _ in range(4):
            fetch(a)
        store(a, good=True)
        for _ in range(3):
            fetch(a)
        store(a, good=False)
        store(a, good=False)
        if len(addrs) > 1:
            store(addrs[1], good=False)
            fetch(addrs[1])
        adv(rng.choice([30 * SECOND + 1, 119 * SECOND, 121 * SECOND]))
        store(a, good=False)
        store(a, good=True)
        fetch(a)
    else:
        n = rng.randint(25, 45) if not big else rng.randint(60, 110)
        for _ in range(n):
            r = rng.random()
            b = rng.choice(addrs)
            if r < 0.12:
                hist = fetches[b] if rng.random() < 0.6 else stores[b]
                adv(_advance_to_edge(rng, state["now"], hist))
            elif r < 0.40:
                store(b, good=(d == 0 or rng.random() < 0.7))
            else:
                fetch(b)
    ops.append(req(250, [b"COMMAND:LIST"]))
    return Case(ops=ops, tag="interleave")


def generate(ctx, budget):
    out = []
    rng = ctx.rng
    for i in range(budget):
        big = ctx.tier == "thorough" and i % 4 == 0
        k = i % 10
        if k == 9:
            out.append(case_interleave(rng, big))
        elif k == 8:
            out.append(case_width(rng, big))
        elif k == 0:
            out.append(case_size(rng, big))
        elif k == 1:
            out.append(case_ttl(rng, big))
        elif k == 2:
            out.append(case_pow(rng, big))
        elif k in (3, 4, 5):
            out.append(case_rate_store(rng, big))
        elif k == 6:
            out.append(case_rate_fetch(rng, big))
        else:
            out.append(case_rate_store(rng, big, with_token=True))
    return out


def nontrivial(r: CaseResult) -> bool:
    """throttle rule of DESIGN section 9: at least one accept and one refusal (of the kind the case is about)"""
    codes = [code_of(o) for o in r.impl]
    ok = any(c in ("OK_STORE", "OK_FETCH") for c in codes)
    tag = r.case.tag.split("/")[0]
    if tag.startswith("rate"):
        return ok and any(c.endswith("_RATE_LIMITED") for c in codes)
    return ok and any(c.startswith("ERR_") for c in codes)


def spec() -> Spec:
    return Spec(
        pid=PID,
        proof_modules=["EphVerif.Proofs.C28"],
        # composition module (store -> list / fetch end to end): imports the proofs of C27, C29, C19, C02, C01, C11, C30, C31;
        # counted when it builds, never an alarm for C28
        soft_proof_modules=["EphVerif.Proofs.SystemControl"],
        driver="drv_c28",
        harness=harness,
        generate=generate,
        extract=extract,
        nontrivial=nontrivial,
        budget={"quick": 144, "thorough": 1600},
        search_budget={"quick": 500, "thorough": 6000},
        per_case_timeout=90.0,
        rule="10 shapes in rotation: interleaved STOREs / streamed FETCHes / failing proofs of work from the same address(es) inside one window (F x12, S, F x12; S x6, F x13; alternating; around first-fetch + 30 s -1/0/+1 ns; PoW failures and the LOCKED counter; a second address),  integer-width probes (TTL and PAYLOAD-LENGTH values k*2^32+t, k*2^31+t, 2^16+t, 2^8+t, 2^40+t, 2^63+t with t at the window / cap edges, 2^63-1..2^64, with leading zeros / sign / blanks),  payload sizes around a lowered cap (cap-1, cap, cap+1, 0, 2^32..2^64, lying lengths, duplicate "
             "PAYLOAD-LENGTH; the body of an oversized STORE is withheld: TOO_LARGE must come without it), TTL texts at the window edges and at the int64 wrap, "
             "store PoW nonces (valid; valid for the raw path / another size / another payload / one bit short; missing; malformed; "
             "lock-out counter), STORE sequences from 1-3 source addresses with varying TOKEN headers and clock advances aimed at "
             "first-accept + 30 s -1/0/+1 ns (no token configured, and with a configured token), streamed FETCH sequences likewise. "
             "distinct = sha256 of the op list; non-trivial = at least one accepted and one refused request of the case's kind "
             "(rate shapes: one OK and one *_RATE_LIMITED)",
        trusted_base=["virtual clock by link-time interposition of steady_clock::now / system_clock::now",
                      "kernel TCP on loopback; source addresses 127.0.0.x chosen by bind()"],
        assumptions=["SHA-256 chunk ids of distinct generated payloads are distinct",
                     "chunks and manifests outlive the case (TTL >= 30 s in rate cases whose clock advances stay below the stored TTLs)"],
    )


def run(tier, seed, replay=None):
    return standard_check(spec(), tier, seed, replay)
