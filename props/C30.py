"""C30 — `eph fetch` only writes bytes that match the manifest.

Also home of the helpers shared by the three CLI properties (C30, C31, C32): the harness build
(`harness/cli_h.cpp`, one translation unit that #includes src/main.cpp) and the extraction of the two
file-name sanitising source blocks (local lambdas, used by C31)."""
import hashlib
import re

from tools.vlib import *

PID = "C30"
READY = True
MANIFEST = {
    "level_text": "Lean 4 theorems about the model of `eph fetch`'s delivery decision, for every manifest hash, discovery mode, "
                  "manifest state (decodable, expired, recoverable key, publisher identity), "
                  "list of discovery paths with priorities (transport hint, relay, control hint, control:// fallback, local daemon) and every "
                  "response on every path: a file is written only if the manifest could be decoded and its bytes hash to the manifest's content hash; an endpoint returning "
                  "other bytes is indistinguishable from a failing endpoint (the search continues with the next path); the first path in "
                  "order that delivers matching bytes is the one written. Tied to the code by a differential run of the real CLI entry "
                  "(src/main.cpp compiled into the harness) against scripted fake endpoints -- control servers, a transport peer and a "
                  "relay speaking the real wire formats -- for every path kind and response kind (correct, truncated, substituted, "
                  "extended, empty, no payload, error, truncated stream, unreachable), with the Lean specification (SHA-256 from the FIPS "
                  "spec module) judging the bytes of every file the implementation writes.",
    "level_note": "Trusted/modelled: SHA-256 is a parameter of the theorems (instantiated with the Lean FIPS 180-4 specification in the "
                  "monitor); the chunk cipher is abstracted to the plaintext a chunk decrypts to (ChaCha20 is a bijection on the "
                  "ciphertext, so every ciphertext is covered); the manifest's own state is a parameter too (decodable or not, expired, key "
                  "shares recombinable, publisher identity present: with an undecodable manifest nothing is ever written); sockets, timeouts and the fake endpoints of the "
                  "harness; hand transcription of attempt_direct_fetch / finalize_fetch into Lean (checked only by the differential run).",
    "technique": "Lean 4 proof over all response assignments + scripted-endpoint differential correspondence with Lean monitor",
}

MAIN_CPP = "src/main.cpp"
NODE_CPP = "src/core/Node.cpp"
STOREPROOF_CPP = "src/security/StoreProof.cpp"


# --------------------------------------------------------------------------------------------------
# shared: source-block extraction and harness build
# --------------------------------------------------------------------------------------------------
def _balanced(text: str, start: int) -> int:
    """index just after the brace block opening at text[start] == '{' (skips string/char literals and comments)."""
    assert text[start] == "{"
    depth = 0
    i = start
    n = len(text)
    while i < n:
        c = text[i]
        if text.startswith("//", i):
            j = text.find("\n", i)
            i = n if j < 0 else j
            continue
        if text.startswith("/*", i):
            j = text.find("*/", i)
            i = n if j < 0 else j + 2
            continue
        if c == '"' or c == "'":
            q = c
            i += 1
            while i < n and text[i] != q:
                i += 2 if text[i] == "\\" else 1
            i += 1
            continue
        if c == "{":
            depth += 1
        elif c == "}":
            depth -= 1
            if depth == 0:
                return i + 1
        i += 1
    raise ValueError("unbalanced block")


def c31_blocks() -> dict:
    """The sanitising source text of the working tree: {'cli': lambda body, 'node_lambda': lambda body,
    'node_block': the whole `if (original_name.has_value()) {...}` statement}; missing entries are None."""
    out = {"cli": None, "node_lambda": None, "node_block": None}
    try:
        main = (REPO / MAIN_CPP).read_text(errors="replace")
        m = re.search(r"auto\s+sanitize_filename\s*=\s*\[\]\s*\(\s*const\s+std::string&\s+candidate\s*\)\s*\{", main)
        if m:
            out["cli"] = main[m.end() - 1:_balanced(main, m.end() - 1)]
    except Exception:
        pass
    try:
        node = (REPO / NODE_CPP).read_text(errors="replace")
        m = re.search(r"if\s*\(\s*original_name\.has_value\(\)\s*\)\s*\{", node)
        if m:
            blk = node[m.start():_balanced(node, m.end() - 1)]
            out["node_block"] = blk
            m2 = re.search(r"auto\s+sanitize_filename\s*=\s*\[\]\s*\(\s*std::string\s+value\s*\)\s*\{", blk)
            if m2:
                out["node_lambda"] = blk[m2.end() - 1:_balanced(blk, m2.end() - 1)]
    except Exception:
        pass
    return out


def _extracted_header() -> tuple[str, str]:
    b = c31_blocks()
    lines = ["// GENERATED by props/C30.py from the working tree (src/main.cpp, src/core/Node.cpp). Do not edit.",
             "#pragma once", "#include <map>", "#include <optional>", "#include <string>", "#include <filesystem>", "#include <algorithm>",
             "#include <cctype>"]
    if b["cli"] is not None and b["node_block"] is not None:
        lines += [
            "#define C31X_AVAILABLE 1",
            "namespace c31x {",
            "inline std::string cli_sanitize(const std::string& raw) {",
            "    auto sanitize_filename = [](const std::string& candidate) " + b["cli"] + ";",
            "    return sanitize_filename(raw);",
            "}",
            "inline std::optional<std::string> node_filename(std::optional<std::string> original_name) {",
            "    struct { std::map<std::string, std::string> metadata; } manifest;",
            "    " + b["node_block"],
            "    const auto it = manifest.metadata.find(\"filename\");",
            "    if (it == manifest.metadata.end()) return std::nullopt;",
            "    return it->second;",
            "}",
            "}  // namespace c31x",
        ]
    text = "\n".join(lines) + "\n"
    return text, hashlib.sha256(text.encode()).hexdigest()[:16]


def cli_harness():
    """Build harness/cli_h.cpp (+ src/main.cpp inside it) against the working tree.  The repository's library sources are
    compiled with the framework's standard flags (objects shared with the other harnesses through the build cache); the
    one big translation unit is compiled at -O0 -g1 (same sanitizers) because -O1 on a 5 000-line function takes ~10 min."""
    import concurrent.futures as cf
    from tools.vlib import _compile_obj
    text, h = _extracted_header()
    gen = BUILD / "gen" / f"c31-{h}"
    write_if_changed(gen / "c31_extracted.hpp", text)
    daemon = sorted(str(p.relative_to(REPO)) for p in (REPO / "src" / "daemon").glob("*.cpp"))
    inc = [f"-I{REPO}/include", f"-I{REPO}/src", f"-I{REPO}", f"-I{VERIF}/harness"]
    lib_flags = list(BASE_FLAGS) + inc
    main_flags = [("-O0" if f == "-O1" else "-g1" if f == "-g" else f) for f in BASE_FLAGS] + inc + [f"-I{gen}", f"-DC31X_SHA=0x{h}"]
    inc_hash = tree_hash("include")
    common = VERIF / "harness" / "common"
    common_hash = sha(*[p.read_bytes() for p in sorted(common.glob("*")) if p.is_file()])
    jobs = [(REPO / s, lib_flags, inc_hash) for s in ALL_CORE_SOURCES + daemon]
    jobs.append((VERIF / "harness" / "cli_h.cpp", main_flags, inc_hash + common_hash + tree_hash("src") + h))
    with cf.ThreadPoolExecutor(max_workers=NPROC) as ex:
        objs = list(ex.map(lambda j: _compile_obj(j[0], j[1], j[2]), jobs))
    key = sha(*[o.name for o in objs], "cli_h-link")[:24]
    exe = BUILD / "bin" / f"cli_h-{key}"
    if exe.exists():
        return exe
    exe.parent.mkdir(parents=True, exist_ok=True)
    tmp = exe.with_suffix(f".{os.getpid()}.tmp")
    sanit = [f for f in BASE_FLAGS if f.startswith("-fsanitize") or f.startswith("-fno-sanitize")]
    r = subprocess.run([CXX, *sanit, "-o", str(tmp), *map(str, objs), "-lcurl", "-lpthread"], capture_output=True, text=True)
    if r.returncode != 0:
        raise BuildError("link cli_h", r.stdout + r.stderr)
    os.replace(tmp, exe)
    return exe


# --------------------------------------------------------------------------------------------------
# C30 proper
# --------------------------------------------------------------------------------------------------
def harness():
    return cli_harness()


def extract():
    """Constants the model's shape depends on: the transport frame bound only documents the harness' payload sizes."""
    vals, gaps = extract_consts([
        Const("kTransportMaxPayloadSize", MAIN_CPP, r"constexpr\s+std::size_t\s+kTransportMaxPayloadSize\s*=\s*([^;]+);", default=1048576),
    ])
    # is the hash compared before a control payload is written?  (shape probe, reported only)
    try:
        main = (REPO / MAIN_CPP).read_text(errors="replace")
        m = re.search(r"auto\s+finalize_fetch\s*=\s*\[&\][^{]*\{", main)
        body = main[m.end() - 1:_balanced(main, m.end() - 1)] if m else ""
        vals["finalizeChecksHash"] = 1 if "chunk_hash" in body else 0
        if not m:
            gaps.append("finalize_fetch lambda not found")
    except Exception as ex:
        gaps.append(f"finalize_fetch probe: {ex}")
        vals["finalizeChecksHash"] = 0
    write_generated(PID, lean_consts(vals))
    return gaps


PAYLOADS = [b"hello world payload", b"\x00", b"A" * 64, bytes(range(256)), b"x" * 1000, b"\xff\xfe\xfd" * 21]


def variants(rng, p: bytes) -> dict:
    sub = bytearray(p)
    k = rng.randrange(len(p))
    sub[k] ^= rng.choice([1, 0x80, 0xff])
    return {
        "correct": p,
        "truncated": p[:-1] if len(p) > 1 else b"",
        "truncated-half": p[:len(p) // 2],
        "substituted": bytes(sub),
        "extended": p + b"\x00",
        "extended-many": p + b"tail" * 3,
        "empty": b"",
        "other": b"completely different bytes",
    }


def hx(b: bytes) -> str:
    return b.hex() if b else ""


CONTROL_KINDS = "cfl"
TRANSPORT_KINDS = "tr"


def script_for(kind: str, what: str, rng, p: bytes) -> str:
    """script token for endpoint kind and response description"""
    v = variants(rng, p)
    if what in v:
        return ("chunk=" if kind in TRANSPORT_KINDS else "ok=") + hx(v[what])
    if kind in TRANSPORT_KINDS:
        return {"fail": rng.choice(["nack", "close", "badhs"]), "down": "down", "nop": "nack", "trunc": "close", "nostatus": "badhs"}[what]
    return {"fail": "err", "down": "down", "nop": "nop", "trunc": "trunc=" + hx(p), "nostatus": "nostatus=" + hx(p)}[what]


def header_scripts(rng, p: bytes) -> list[tuple[str, str]]:
    """(label, script) for control endpoints whose headers disagree with the bytes they deliver: every payload kind x
    SIZE naming the stored payload's length / one less / one more / 0 / 1 / huge / missing / not a number, and
    PAYLOAD-LENGTH shorter than what is sent (prefix read) for the extended kinds."""
    out = []
    v = variants(rng, p)
    for kind in ("correct", "truncated", "substituted", "extended", "extended-many", "empty", "other"):
        body = v[kind]
        sizes = {"stored": len(p), "minus1": max(0, len(body) - 1), "plus1": len(body) + 1, "zero": 0, "one": 1,
                 "huge": 18446744073709551615, "missing": "x", "junk": "j"}
        for label, n in sizes.items():
            out.append((f"{kind}/size-{label}", f"oks{n}={hx(body)}"))
        if len(body) > len(p):
            out.append((f"{kind}/length-stored", f"okl{len(p)}={hx(body)}"))      # reads exactly the stored bytes: honest in effect
            out.append((f"{kind}/length-stored-plus1", f"okl{len(p) + 1}={hx(body)}"))
        if len(body) >= 1:
            out.append((f"{kind}/length-minus1", f"okl{len(body) - 1}={hx(body)}"))
        out.append((f"{kind}/length-plus3", f"okl{len(body) + 3}={hx(body)}"))    # stream ends early
    return out


MSTATES = ["past", "now", "far", "thr0", "thrbig", "nopub", "undec1", "undec2", "undec3", "undec4", "past+thr0", "past+nopub", "now+undec1"]

RESPONSES = ["correct", "truncated", "truncated-half", "substituted", "extended", "extended-many", "empty", "other", "fail", "down", "nop",
             "trunc", "nostatus"]


def generate(ctx, budget):
    rng = ctx.rng
    cases = []

    def add(ops, tag):
        cases.append(Case(ops=ops, tag=tag))

    # 1. every path kind x every response kind, alone and followed by an honest later path
    for kind in "trcfl":
        ops = []
        for what in RESPONSES:
            p = rng.choice(PAYLOADS[:3])
            me = f"{kind}:{rng.randint(0, 9)}:{script_for(kind, what, rng, p)}"
            ops.append(f"fetch auto {hx(p)} {me}")
            later = [k for k in "trcfl" if "trcfl".index(k) > "trcfl".index(kind)]
            if later:
                k2 = rng.choice(later)
                ops.append(f"fetch auto {hx(p)} {me} {k2}:{rng.randint(0, 9)}:{script_for(k2, 'correct', rng, p)}")
        for i in range(0, len(ops), 6):
            add(ops[i:i + 6], f"single/{kind}")
    # 1b. headers that lie about the payload, on every path that has headers (control hint, control:// fallback, local daemon);
    #     the transport paths carry no SIZE/PAYLOAD-LENGTH (the frame length is the payload)
    for kind in "cfl":
        p = rng.choice(PAYLOADS[:3])
        scripts = header_scripts(rng, p)
        ops = []
        for label, sc in scripts:
            ops.append(f"fetch auto {hx(p)} {kind}:{rng.randint(0, 9)}:{sc}")
        # a lying endpoint followed by an honest later one (the next path must still be tried)
        later = [k for k in "cfl" if "cfl".index(k) > "cfl".index(kind)]
        if later:
            for label, sc in rng.sample(scripts, 8):
                k2 = rng.choice(later)
                ops.append(f"fetch auto {hx(p)} {kind}:{rng.randint(0, 9)}:{sc} {k2}:{rng.randint(0, 9)}:ok={hx(p)}")
        for i in range(0, len(ops), 10):
            add(ops[i:i + 10], f"headers/{kind}")
    # 1c. the state of the manifest itself: expiry in the past / this instant / far future, key shares that cannot be recombined
    #     (threshold 0, threshold above the share count), no publisher identity, URIs the CLI cannot decode -- each crossed with
    #     every path kind and the payload kinds, alone, followed by an honest later path, and under the other discovery modes
    for flag in MSTATES:
        ops = []
        for kind in "trcfl":
            p = rng.choice(PAYLOADS[:3])
            for what in ("correct", "substituted", "extended", "empty", "truncated", "nop", "fail"):
                ops.append(f"fetch auto+{flag} {hx(p)} {kind}:{rng.randint(0, 9)}:{script_for(kind, what, rng, p)}")
            if kind in CONTROL_KINDS:
                ops.append(f"fetch auto+{flag} {hx(p)} {kind}:{rng.randint(0, 9)}:oks{len(p)}={hx(p + b'xx')}")
            later = [k for k in "trcfl" if "trcfl".index(k) > "trcfl".index(kind)]
            if later:
                k2 = rng.choice(later)
                what = rng.choice(["substituted", "extended", "empty", "truncated"])
                ops.append(f"fetch auto+{flag} {hx(p)} {kind}:{rng.randint(0, 9)}:{script_for(kind, what, rng, p)} "
                           f"{k2}:{rng.randint(0, 9)}:{script_for(k2, 'correct', rng, p)}")
        p = rng.choice(PAYLOADS[:3])
        for mode in ("direct", "tonly", "cfb"):
            ops.append(f"fetch {mode}+{flag} {hx(p)} t:1:{script_for('t', 'correct', rng, p)} c:2:{script_for('c', 'substituted', rng, p)} "
                       f"l:0:{script_for('l', 'other', rng, p)}")
            ops.append(f"fetch {mode}+{flag} {hx(p)} c:2:{script_for('c', 'correct', rng, p)} l:0:{script_for('l', 'correct', rng, p)}")
        for i in range(0, len(ops), 12):
            add(ops[i:i + 12], f"mstate/{flag}")
    # 2. random multi-path manifests: priorities, modes, several dishonest endpoints
    n_multi = max(0, budget - len(cases))
    for _ in range(n_multi):
        p = rng.choice(PAYLOADS)
        npaths = rng.choice([2, 3, 3, 4, 5])
        paths = []
        have_local = False
        for _ in range(npaths):
            kind = rng.choice("ttrccffl")
            if kind == "l":
                if have_local:
                    continue
                have_local = True
            what = rng.choice(RESPONSES + ["correct", "substituted", "fail", "down"])
            if kind in CONTROL_KINDS and rng.random() < 0.2:
                script = rng.choice(header_scripts(rng, p))[1]
            else:
                script = script_for(kind, what, rng, p)
            paths.append(f"{kind}:{rng.choice([0, 0, 1, 2, 5, 9, 200, 255])}:{script}")
        rng.shuffle(paths)
        mode = rng.choice(["auto", "auto", "auto", "direct", "tonly", "cfb"])
        state = ("+" + rng.choice(MSTATES)) if rng.random() < 0.3 else ""
        add([f"fetch {mode}{state} {hx(p)} " + " ".join(paths)], f"multi/{mode}{'/mstate' if state else ''}")
    return cases


def nontrivial(r: CaseResult) -> bool:
    """a case counts if some endpoint returned a payload (matching or not) that the CLI had to judge."""
    return any(("ok" in op or "chunk=" in op) and "tried=-" not in o for op, o in zip(r.case.ops, r.impl))


def spec() -> Spec:
    return Spec(
        pid=PID,
        proof_modules=["EphVerif.Proofs.C30"],
        driver="drv_c30",
        harness=harness,
        generate=generate,
        extract=extract,
        nontrivial=nontrivial,
        budget={"quick": 400, "thorough": 3000},
        rule="every path kind (transport hint, relay, control hint, control:// fallback, local daemon) x every response kind (correct, "
             "truncated by one byte / half, one byte substituted, extended, empty, unrelated bytes, error, unreachable, OK without payload, "
             "truncated stream, response without status), alone and followed by an honest later path; on the three header-carrying paths "
             "every payload kind x SIZE header naming the stored length / off by one / 0 / 1 / 2^64-1 / missing / not a number, and "
             "PAYLOAD-LENGTH shorter or longer than the bytes sent; manifest states (expired an hour ago / this instant / valid for 50 years, "
             "threshold 0 / above the share count, no publisher identity, four kinds of undecodable URI, combinations) x every path kind x "
             "payload kinds x modes; random manifests with 2-5 paths, "
             "priorities incl. ties and 255, modes auto/--direct-only/--transport-only/--control-fallback. distinct = sha256 of the op "
             "list; non-trivial = at least one endpoint returned a payload the CLI had to accept or refuse",
        trusted_base=["fake endpoints implemented in the harness with the repository's own codec/crypto functions (forked children)",
                      "loopback TCP, socket timeouts"],
        assumptions=[
                     "payloads up to 1000 bytes in generated cases (the theorems have no bound)"],
        per_case_timeout=180.0,
        batch=200,
    )


def run(tier, seed, replay=None):
    return standard_check(spec(), tier, seed, replay)
