"""C35 — no remote input can crash the node or the daemon (partial).

(T)  props/C35_extract.py: exception-flow call tree from the clang AST -> Generated/C35.lean
(H)  harness/remote_h.cpp: real Node + ControlServer::Impl; remote input delivered through the real
     thread entry functions run synchronously; lean/Driver/C35.lean predicts `ok` / `escape:<class>`
     from the generated tree and the facts of the input; the Lean specification judges every line.
"""
import base64
import hashlib
import hmac as _hmac
import random
import struct

from tools.vlib import *
from props import C35_extract as X

PID = "C35"
READY = True
MANIFEST = {
    "level_text": "Partial. Proved in Lean 4 (EphVerif.C35.no_escape / no_remote_crash): for every assignment of input facts (each throwing "
                  "primitive independently 'is executed and throws on this input in this node state' - i.e. every byte sequence, every validly "
                  "signed message with adversarial manifest / shard set / lengths, every control request, every node state) and every call depth, "
                  "the outcome at each boundary of the exception-flow call tree - session reader thread, transport accept thread, control accept "
                  "thread, relay worker thread, main-loop tick, and any noexcept function on the way - is 'survives', never 'terminate': every "
                  "throwing primitive reachable from a remote-input entry point (explicit throw, std::stoul family, throwing std::filesystem calls, "
                  ".at(), optional::value, and the summarised leaves decode_manifest / encode_manifest / Shamir::combine / split / write_file_bytes) "
                  "lies inside a catch that handles its exception class. The call tree (functions x call sites x enclosing try blocks with their "
                  "handler types, the exception classes of the leaves, the thread entry points) is regenerated from the clang AST of the working "
                  "tree on every run; the proof is a kernel-checked post-fixpoint of the may-escape analysis over that table plus a table-independent "
                  "soundness lemma, so removing a catch or adding a throwing call outside one breaks it. decoders_total re-uses C16.total and "
                  "C18.total (decoders never read out of bounds and throw nothing but invalid_argument), combineThrows_sound/complete re-use C10 "
                  "(the driver's 'combine throws' fact is exactly the model's invalid_argument answer). Tied to the code by the differential run: "
                  "adversarial inputs are delivered to a real Node / ControlServer through the real thread functions (SessionManager::receive_loop, "
                  "accept_loop, ControlServer::Impl::accept_loop, Node::tick) under ASan/UBSan; the compiled Lean model must predict 'escape' exactly "
                  "from the generated tree and the decoded input, and the Lean specification flags any escape or crash.",
    "level_note": "Partial because part of the property lives in the runtime: memory errors / UB of the real binary and 'keeps serving others' of "
                  "the real threads are observed (ASan/UBSan on every generated input; thorough tier: real transport + control threads on loopback "
                  "must still answer PING, accept a second peer and serve a held chunk after the attacks), not proved. Not modelled: std::bad_alloc "
                  "and container length_error (attacker-chosen sizes are capped at 1 MiB / 2 KiB / control_stream_max_bytes before allocation - read, "
                  "not proved), std::function emptiness (tested before both calls), mutex/random_device/iostream failures, blocking (a peer that "
                  "stalls mid-frame blocks only its own reader thread; a control client that stalls blocks the single control accept thread - not "
                  "covered). Trusted: Lean kernel; the AST extractor (lambdas passed as arguments run where written, overloads merged, std::function "
                  "targets bound by a 3-entry table, substr uses reviewed by hand); the driver's hand model of which primitive an input reaches "
                  "(state-dependent parts - cached manifest, chunk held - are taken from the harness's observation as validated hints); harness, "
                  "g++/libstdc++. Holds on the tree with the five fixes/C35-*.patch applied (reconstruction failure -> nullopt, FETCH OUT path, "
                  "catch at the control accept loop, catch at the session handler calls, receive timeout before the peer id) and "
                  "fixes/C35-control-client-io-timeout.patch (SO_RCVTIMEO/SO_SNDTIMEO on accepted control clients). 'Stops serving others' by a "
                  "stalling client is covered by accept_threads_bounded / next_client_served over three timeout flags regenerated from the source "
                  "and observed by the real-thread probe `rt stall` on every run (silent client and never-reading client ahead of a well-behaved "
                  "one); within the timeout the serial accept loops still delay the others (k x (T + B) bound), which is what the code intends.",
    "technique": "Lean 4 proof over a call tree regenerated from the clang AST (kernel-checked fixpoint + soundness lemma) + in-process "
                 "differential correspondence through the real thread functions under ASan/UBSan + real-thread loopback runs",
}

CACHE = BUILD / "c35ast"
CODECS = "EphVerif.Proofs.C35Codecs"
NS = 10 ** 9
WALL0_S = 1_700_000_000 + 1000          # system_clock of the virtual clock at case start, seconds
TAG = {"ann": 1, "req": 2, "chk": 3, "ack": 4, "hs": 5, "hsa": 6}


def harness():
    return build_harness("remote_h", "harness/remote_h.cpp",
                         ALL_CORE_SOURCES + ["src/daemon/ControlPlane.cpp", "src/daemon/StructuredLogger.cpp"],
                         includes_repo_cpp=True, vclock=True, libs=("-lcurl", "-lpthread", "-ldl"))


_last_tree = {}


def extract():
    summ, gaps = X.load_summaries(REPO, CACHE, NPROC)
    tree = X.build_tree(summ)
    tree["flags"], fgaps = X.read_flags(REPO)
    gaps = gaps + fgaps
    _last_tree.clear()
    _last_tree.update(tree)
    write_if_changed(LEAN / "EphVerif" / "Generated" / "C35.lean", X.lean_text(tree))
    return gaps + tree["notes"]


# ------------------------------------------------------------------------------------------
# generator-side encoders (they only manufacture inputs; what the code does with them is judged in Lean)
# ------------------------------------------------------------------------------------------

def id32(tok: str) -> bytes:
    n = int(tok[1:]) if len(tok) > 1 else 0
    return bytes([ord(tok[0])]) + bytes(27) + n.to_bytes(4, "big")


def be4(n: int) -> bytes:
    return (n % (1 << 32)).to_bytes(4, "big")


def sign(key: bytes, body: bytes) -> bytes:
    return body + _hmac.new(key, body, hashlib.sha256).digest()


def m_announce(chunk: bytes, peer: bytes, uri: bytes, *, ttl=600, endpoint=b"", shards=b"", nonce=0, version=4) -> bytes:
    out = bytes([version, TAG["ann"]]) + be4(ttl) + be4(len(endpoint)) + be4(len(uri)) + be4(len(shards)) + chunk + peer + endpoint + uri + shards
    if version >= 3:
        out += (nonce % (1 << 64)).to_bytes(8, "big")
    return out


def m_chunk(chunk: bytes, data: bytes, *, ttl=600, version=4) -> bytes:
    return bytes([version, TAG["chk"]]) + be4(ttl) + be4(len(data)) + chunk + data


def m_request(chunk: bytes, peer: bytes, version=4) -> bytes:
    return bytes([version, TAG["req"]]) + chunk + peer


def m_ack(chunk: bytes, peer: bytes, accepted: int, version=4) -> bytes:
    return bytes([version, TAG["ack"], accepted]) + chunk + peer


def m_handshake(pub: int, nonce: int, rv: int, version=4) -> bytes:
    return bytes([version, TAG["hs"]]) + be4(pub) + (nonce % (1 << 64)).to_bytes(8, "big") + bytes([rv & 0xFF])


def _rotl(v, c):
    return ((v << c) & 0xFFFFFFFF) | (v >> (32 - c))


def _qr(s, a, b, c, d):
    s[a] = (s[a] + s[b]) & 0xFFFFFFFF; s[d] = _rotl(s[d] ^ s[a], 16)
    s[c] = (s[c] + s[d]) & 0xFFFFFFFF; s[b] = _rotl(s[b] ^ s[c], 12)
    s[a] = (s[a] + s[b]) & 0xFFFFFFFF; s[d] = _rotl(s[d] ^ s[a], 8)
    s[c] = (s[c] + s[d]) & 0xFFFFFFFF; s[b] = _rotl(s[b] ^ s[c], 7)


def chacha20(key: bytes, nonce: bytes, counter: int, data: bytes) -> bytes:
    """RFC 8439 ChaCha20 (what crypto::ChaCha20::apply computes; C09 proves that equality)"""
    out = bytearray()
    k = struct.unpack("<8I", key)
    n = struct.unpack("<3I", nonce)
    for off in range(0, len(data), 64):
        st = [0x61707865, 0x3320646e, 0x79622d32, 0x6b206574, *k, counter & 0xFFFFFFFF, *n]
        w = st[:]
        for _ in range(10):
            _qr(w, 0, 4, 8, 12); _qr(w, 1, 5, 9, 13); _qr(w, 2, 6, 10, 14); _qr(w, 3, 7, 11, 15)
            _qr(w, 0, 5, 10, 15); _qr(w, 1, 6, 11, 12); _qr(w, 2, 7, 8, 13); _qr(w, 3, 4, 9, 14)
        ks = struct.pack("<16I", *[(w[i] + st[i]) & 0xFFFFFFFF for i in range(16)])
        blk = data[off:off + 64]
        out += bytes(a ^ b for a, b in zip(blk, ks))
        counter += 1
    return bytes(out)


class Chunk:
    """a chunk as a remote peer would publish it: key split t-of-n with the constant polynomial
    (every share value equals the key: a valid Shamir sharing for any t), ChaCha20 with the counter
    CryptoManager derives from the chunk id, SHA-256 of the plaintext"""

    def __init__(self, rng, name: str, size: int, thr: int, n: int, exp_s: int):
        self.name = name
        self.cid = id32(name)
        self.key = bytes(rng.randrange(1, 256) for _ in range(32))
        self.nonce = bytes(rng.randrange(256) for _ in range(12))
        self.plain = bytes(rng.randrange(256) for _ in range(size))
        counter = int.from_bytes(self.cid[:4], "little")
        self.cipher = chacha20(self.key, self.nonce, counter, self.plain)
        self.hash = hashlib.sha256(self.plain).digest()
        self.thr, self.tot = thr, n
        self.shards = [(i + 1, self.key) for i in range(n)]
        self.exp_s = exp_s

    def uri(self, *, shards=None, thr=None, tot=None, exp_s=None, cid=None, version=4, cut=None, extra=b"", disc=()) -> bytes:
        shards = self.shards if shards is None else shards
        p = bytearray([version]) + (cid or self.cid) + self.hash + self.nonce
        p += struct.pack(">Q", (self.exp_s if exp_s is None else exp_s) % (1 << 64))
        p += bytes([(self.thr if thr is None else thr) & 0xFF, (self.tot if tot is None else tot) & 0xFF, len(shards) & 0xFF])
        for i, v in shards:
            p += bytes([i & 0xFF]) + v
        if version >= 2:
            p += bytes([0])                       # metadata count
        if version >= 3:
            p += bytes([len(disc) & 0xFF])        # discovery hints: (scheme, transport, endpoint, priority)
            for sch, tr, ep, prio in disc:
                if version >= 4:
                    p += bytes([len(sch) & 0xFF]) + sch
                p += bytes([len(tr) & 0xFF]) + tr + struct.pack(">H", len(ep) & 0xFFFF) + ep + bytes([prio & 0xFF])
            p += bytes([0]) + b"\x00\x00" + bytes([0])   # security: token bits, advisory length, digest flag
            p += bytes([0])                       # fallback hints
        p += extra
        if cut is not None:
            p = p[:cut]
        return b"eph://" + base64.b64encode(bytes(p))


MANIFEST_VARIANTS = ["ok", "ok", "dup-first", "dup-first", "dup-12", "zero-first", "zero-late", "dup-late", "thr0", "thr-gt", "no-shards",
                     "one-shard", "expired", "exp-soon", "exp-far", "exp-overflow", "wrong-id", "truncated", "garbage", "empty", "v1", "v2",
                     "many-shards", "trailing", "idx-255", "idx-255", "idx-edge", "idx-edge", "thr255"]
IDX_EDGES = [0, 1, 127, 128, 254, 255]


def variant_uri(rng, c: Chunk, v: str) -> bytes:
    sh = list(c.shards)
    if v == "ok":
        return c.uri()
    if v == "dup-first":                           # repeated index among the first `thr` shares
        j = rng.randrange(1, max(2, c.thr))
        if j < len(sh):
            sh[j] = (sh[0][0], sh[j][1])
        return c.uri(shards=sh)
    if v == "dup-12":
        if len(sh) >= 2:
            sh[1] = (sh[0][0], sh[1][1])
        return c.uri(shards=sh)
    if v == "zero-first":
        sh[0] = (0, sh[0][1])
        return c.uri(shards=sh)
    if v == "zero-late":                           # beyond the shares combine looks at
        sh[-1] = (0, sh[-1][1])
        return c.uri(shards=sh)
    if v == "dup-late":
        sh[-1] = (sh[0][0], sh[-1][1])
        return c.uri(shards=sh)
    if v == "thr0":
        return c.uri(thr=0)
    if v == "thr-gt":
        return c.uri(thr=len(sh) + rng.choice([1, 2, 200]))
    if v == "no-shards":
        return c.uri(shards=[])
    if v == "one-shard":
        return c.uri(shards=sh[:1], thr=rng.choice([1, 1, 2]))
    if v == "expired":
        return c.uri(exp_s=WALL0_S - rng.choice([0, 1, 3600]))
    if v == "exp-soon":
        return c.uri(exp_s=WALL0_S + rng.choice([1, 29, 30, 31]))
    if v == "exp-far":
        return c.uri(exp_s=WALL0_S + rng.choice([6 * 3600, 6 * 3600 + 1, 10 ** 8, 9223372036 - WALL0_S]))
    if v == "exp-overflow":
        return c.uri(exp_s=rng.choice([9223372037, 2 ** 63 - 1, 2 ** 63, 2 ** 64 - 1, 10 ** 10]))
    if v == "wrong-id":
        return c.uri(cid=id32("c999"))
    if v == "truncated":
        full = base64.b64decode(c.uri()[6:])
        return c.uri(cut=rng.randrange(0, len(full)))
    if v == "garbage":
        return rng.choice([b"eph://!!!!", b"eph://", b"http://x", b"eph://QUJD", b"eph://" + base64.b64encode(bytes(rng.randrange(256) for _ in range(rng.choice([3, 90, 200]))))])
    if v == "empty":
        return b""
    if v == "v1":
        return c.uri(version=1)
    if v == "v2":
        return c.uri(version=2)
    if v == "many-shards":
        n = rng.choice([200, 255])
        return c.uri(shards=[((i % 255) + 1, c.key) for i in range(n)], thr=rng.choice([1, 3, 255]), tot=255)
    if v == "idx-255":                             # the largest index byte, among the shares combine looks at
        j = rng.randrange(0, max(1, c.thr))
        sh[j] = (255, sh[j][1])
        return c.uri(shards=sh)
    if v == "idx-edge":                            # index bytes at the edges of the 8-bit range (constant-polynomial shares stay valid)
        for j in rng.sample(range(len(sh)), rng.randint(1, len(sh))):
            sh[j] = (rng.choice(IDX_EDGES), sh[j][1])
        return c.uri(shards=sh)
    if v == "thr255":                              # threshold = total = 255 shards with indices 1..255 (or 255 down to 1)
        order = list(range(1, 256))
        if rng.random() < 0.5:
            order.reverse()
        return c.uri(shards=[(i, c.key) for i in order], thr=255, tot=255)
    if v == "trailing":
        return c.uri(extra=bytes(rng.randrange(256) for _ in range(rng.choice([1, 7, 40]))))
    raise ValueError(v)


def hx(b: bytes) -> str:
    return b.hex() if b else "-"


def ctl(lines, body: bytes = b"", eol: bytes = b"\n") -> str:
    raw = b"".join((l if isinstance(l, bytes) else l.encode()) + eol for l in lines) + eol + body
    return "ctl " + hx(raw)


SAFE_OUT = [b"o_file", b"sub/dir/o_file", b".", b"/proc/verif-nonexistent/x", b"/dev/null/x", b"o_" + b"a" * 300, b""]


# ------------------------------------------------------------------------------------------
# cases
# ------------------------------------------------------------------------------------------

def _peer_ops(rng, names):
    keys = {}
    ops = []
    for n in names:
        keys[n] = bytes(rng.randrange(256) for _ in range(32))
        ops.append(f"peer {n} {keys[n].hex()}")
    return ops, keys


def case_manifest(rng, big=False) -> Case:
    """signed ANNOUNCE (+ CHUNK) with an adversarial manifest, then control FETCH of the same"""
    ops, keys = _peer_ops(rng, ["p1", "p2", "p3"])
    tags = []
    for k in range(rng.randint(1, 4 if big else 2)):
        thr, n = rng.choice([(1, 1), (2, 3), (3, 5), (3, 5), (5, 5), (2, 2)])
        c = Chunk(rng, f"c{k + 1}", rng.choice([0, 1, 64, 200]), thr, n, WALL0_S + 3600)
        v = rng.choice(MANIFEST_VARIANTS)
        tags.append(v)
        p = rng.choice(["p1", "p2", "p3"])
        hold_first = rng.random() < 0.45            # the node first receives the honest chunk, then the adversarial manifest
        if hold_first:
            ops.append(f"frame {p} {hx(sign(keys[p], m_announce(c.cid, id32(p), c.uri())))}")
            ops.append(f"frame {p} {hx(sign(keys[p], m_chunk(c.cid, c.cipher)))}")
        uri = variant_uri(rng, c, v)
        q = rng.choice(["p1", "p2", "p3"])
        announce_as = id32(q) if rng.random() < 0.9 else id32("p9")
        assigned = bytes(rng.sample(range(0, 7), rng.choice([0, 0, 0, 1, 2])))
        ep = rng.choice([b"", b"", b"127.0.0.1:9", b"nonsense", b":", b"host:99999"])
        ops.append(f"frame {q} {hx(sign(keys[q], m_announce(c.cid, announce_as, uri, endpoint=ep, shards=assigned, ttl=rng.choice([0, 1, 600, 2**32 - 1]))))}")
        data = rng.choice([c.cipher, c.cipher, b"", bytes(rng.randrange(256) for _ in range(len(c.cipher) or 5)), c.cipher + b"x"])
        if rng.random() < 0.9:
            ops.append(f"frame {q} {hx(sign(keys[q], m_chunk(c.cid, data)))}")
        if rng.random() < 0.7:
            dest = rng.choice([["STREAM:client"], ["OUT:o_" + c.name], ["STREAM:yes", "OUT:o2"], []])
            ops.append(ctl(["COMMAND:FETCH", b"MANIFEST:" + uri, *dest]))
        if rng.random() < 0.4:
            ops.append(ctl(["COMMAND:FETCH", b"MANIFEST:" + c.uri(), b"OUT:" + rng.choice(SAFE_OUT)]))
        if rng.random() < 0.3:
            ops.append("tick")
    return Case(ops=ops, tag="manifest:" + "+".join(sorted(set(tags))))


def case_known(rng, which: str) -> Case:
    """the diagnosed defects, minimal"""
    ops, keys = _peer_ops(rng, ["p1"])
    c = Chunk(rng, "c1", 64, 3, 5, WALL0_S + 3600)
    dup = variant_uri(rng, c, "dup-12")
    k = keys["p1"]
    if which == "announce-chunk-dup":
        ops += [f"frame p1 {hx(sign(k, m_announce(c.cid, id32('p1'), dup)))}", f"frame p1 {hx(sign(k, m_chunk(c.cid, c.cipher)))}"]
    elif which == "fetch-dup":
        ops += [f"frame p1 {hx(sign(k, m_announce(c.cid, id32('p1'), c.uri())))}", f"frame p1 {hx(sign(k, m_chunk(c.cid, c.cipher)))}",
                ctl(["COMMAND:FETCH", b"MANIFEST:" + dup, "STREAM:client"])]
    elif which == "fetch-empty-out":
        ops += [ctl(["COMMAND:FETCH", b"MANIFEST:" + c.uri(), "OUT:"])]
    ops.append(ctl(["COMMAND:PING"]))
    return Case(ops=ops, tag="known:" + which)


def case_msgfuzz(rng, big=False) -> Case:
    """every message type x malformed variants, validly signed and not"""
    ops, keys = _peer_ops(rng, ["p1", "p2"])
    c = Chunk(rng, "c1", 32, 2, 3, WALL0_S + 3600)
    k = keys["p1"]
    base = [m_announce(c.cid, id32("p1"), c.uri()), m_chunk(c.cid, c.cipher), m_request(c.cid, id32("p1")),
            m_ack(c.cid, id32("p1"), 1), m_ack(c.cid, id32("p1"), 0), m_handshake(5, 0, 4),
            bytes([4, TAG["hsa"], 1, 4]) + be4(7)]
    ops.append(f"frame p1 {hx(sign(k, base[0]))}")
    for _ in range(rng.randint(6, 40 if big else 14)):
        b = bytearray(rng.choice(base))
        r = rng.random()
        if r < 0.2:
            b = b[:rng.randrange(0, len(b) + 1)]
        elif r < 0.4 and b:
            i = rng.randrange(len(b))
            b[i] ^= 1 << rng.randrange(8)
        elif r < 0.5:
            b[0] = rng.choice([0, 1, 2, 3, 5, 255])
        elif r < 0.6:
            b[1] = rng.choice([0, 1, 2, 3, 4, 5, 6, 7, 255])
        elif r < 0.75 and len(b) >= 18:
            off = rng.choice([2, 6, 10, 14])
            b[off:off + 4] = be4(rng.choice([0, 1, 255, 65536, 2 ** 31, 2 ** 32 - 1, 2 ** 32 - 80, 1 << 20]))
        elif r < 0.8:
            b += bytes(rng.randrange(256) for _ in range(rng.choice([1, 31, 32, 33])))
        body = bytes(b)
        s = rng.random()
        if s < 0.75:
            wire = sign(k, body)
        elif s < 0.85:
            wire = sign(keys["p2"], body)              # signed with another peer's key
        elif s < 0.92:
            wire = body                                 # no tag at all
        else:
            wire = sign(k, body)[:-rng.randrange(1, 33)]
        extra = ""
        if rng.random() < 0.15:
            extra = " raw=" + hx(bytes(12) + be4(rng.choice([0, 2 ** 20 + 1, 2 ** 32 - 1, 5])) + b"ab")
        ops.append(f"frame p1 {hx(wire)}{extra}")
    if rng.random() < 0.5:
        ops.append("tick")
    return Case(ops=ops, tag="msgfuzz")


def case_stream(rng) -> Case:
    ops, keys = _peer_ops(rng, ["p1"])
    for _ in range(rng.randint(2, 8)):
        r = rng.random()
        if r < 0.25:
            raw = bytes(rng.randrange(256) for _ in range(rng.choice([0, 1, 11, 12, 15, 16, 17, 100])))
        elif r < 0.6:
            raw = bytes(12) + be4(rng.choice([0, 1, 2 ** 20, 2 ** 20 + 1, 2 ** 31, 2 ** 32 - 1])) + bytes(rng.randrange(256) for _ in range(rng.choice([0, 1, 64])))
        else:
            raw = bytes(12) + be4(40) + bytes(rng.randrange(256) for _ in range(40)) + bytes(12) + be4(0)
        ops.append(f"stream p1 {hx(raw)}")
    return Case(ops=ops, tag="stream-garbage")


def case_handshake(rng) -> Case:
    ops = []
    for _ in range(rng.randint(3, 10)):
        pid = id32(f"q{rng.randrange(1, 5)}")
        r = rng.random()
        msg = m_handshake(rng.choice([0, 1, 2, 5, 12345, 2 ** 31 - 2, 2 ** 31 - 1, 2 ** 32 - 1]), rng.choice([0, 1, 2 ** 64 - 1]),
                          rng.choice([0, 1, 4, 5, 255]), version=rng.choice([1, 4, 4, 0, 9]))
        if r < 0.45:
            raw = pid + be4(len(msg)) + msg
        elif r < 0.55:
            raw = pid + be4(rng.choice([0, 2048, 2049, 2 ** 32 - 1])) + msg
        elif r < 0.65:
            raw = pid[:rng.randrange(0, 33)]
        elif r < 0.75:
            raw = pid + be4(len(msg) + 3) + msg
        elif r < 0.85:
            other = rng.choice([m_request(bytes(32), bytes(32)), m_ack(bytes(32), bytes(32), 1), bytes([4, TAG["hsa"], 1, 4]) + be4(7), b""])
            raw = pid + be4(len(other)) + other
        else:
            g = bytes(rng.randrange(256) for _ in range(rng.choice([5, 40, 300])))
            raw = pid + be4(len(g)) + g
        ops.append(f"hs {hx(raw)}")
    return Case(ops=ops, tag="handshake")


NUMS = [b"0", b"1", b"30", b"3600", b"-1", b"+5", b" 7", b"7 ", b"0x10", b"1e3", b"", b"abc", b"18446744073709551615", b"18446744073709551616",
        b"99999999999999999999999999", b"21600", b"21601", b"1048576", b"1048577", b"4294967296", b"\x00", b"12\x0034"]


def case_control(rng, big=False) -> Case:
    ops, keys = _peer_ops(rng, ["p1"])
    c = Chunk(rng, "c1", 48, 2, 3, WALL0_S + 3600)
    k = keys["p1"]
    if rng.random() < 0.6:       # make the node hold c1
        ops += [f"frame p1 {hx(sign(k, m_announce(c.cid, id32('p1'), c.uri())))}", f"frame p1 {hx(sign(k, m_chunk(c.cid, c.cipher)))}"]
    for _ in range(rng.randint(4, 30 if big else 10)):
        r = rng.random()
        eol = rng.choice([b"\n", b"\n", b"\r\n"])
        if r < 0.12:
            ops.append(ctl([rng.choice(["COMMAND:PING", "command:status", "COMMAND:LIST", "COMMAND:DEFAULTS", "COMMAND:METRICS",
                                        "COMMAND:DIAGNOSTICS", "COMMAND:STOP", "COMMAND:nonsense", "COMMAND:", "NOCOMMAND:x"])], eol=eol))
        elif r < 0.2:
            ops.append(ctl([rng.choice([b"no colon here", b"", b":", b"::", b"\xff\xfe:\x00", b"COMMAND"])], eol=eol))
        elif r < 0.4:            # STORE with numeric headers of every kind
            body = bytes(rng.randrange(256) for _ in range(rng.choice([0, 1, 16, 300])))
            plen = rng.choice([str(len(body)).encode()] * 3 + NUMS + [str(len(body) + 5).encode()])
            hdr = [b"COMMAND:STORE", b"PAYLOAD-LENGTH:" + plen]
            if rng.random() < 0.7:
                hdr.append(b"TTL:" + rng.choice(NUMS))
            if rng.random() < 0.3:
                hdr.append(b"STORE-POW:" + rng.choice(NUMS))
            if rng.random() < 0.5:
                hdr.append(b"PATH:" + rng.choice([b"a.txt", b"../../etc/passwd", b"", b"\x00\x01", b"x" * 600, b"/abs/name", b"C:\\x\\y"]))
            if rng.random() < 0.2:
                hdr.append(b"TOKEN:" + rng.choice([b"", b"tok", b"x" * 100]))
            rng.shuffle(hdr)
            ops.append(ctl(hdr, body, eol=eol))
        elif r < 0.75:           # FETCH
            v = rng.choice(MANIFEST_VARIANTS)
            hdr = [b"COMMAND:FETCH"]
            if rng.random() < 0.93:
                hdr.append(b"MANIFEST:" + variant_uri(rng, c, v))
            dest = rng.random()
            if dest < 0.4:
                hdr.append(b"STREAM:" + rng.choice([b"client", b"CLIENT", b"1", b"true", b"yes", b"no", b"", b"0"]))
            if dest > 0.25:
                hdr.append(b"OUT:" + rng.choice(SAFE_OUT))
            if rng.random() < 0.1:
                hdr.append(b"PAYLOAD-LENGTH:" + rng.choice(NUMS))
            rng.shuffle(hdr)
            ops.append(ctl(hdr, eol=eol))
        elif r < 0.82:           # giant / truncated requests
            which = rng.random()
            if which < 0.4:
                ops.append(ctl([b"COMMAND:PING", b"X:" + b"a" * rng.choice([16000, 16383, 16384, 16385, 20000])]))
            elif which < 0.7:
                ops.append("ctl " + hx(b"COMMAND:STORE\nPAYLOAD-LENGTH:100\n\nshort"))
            else:
                ops.append("ctl " + hx(rng.choice([b"", b"\n", b"\r\n\r\n", b"COMMAND:PING", b"COMMAND:PING\n", b"\x00\x00\x00"])))
        elif r < 0.9:
            ops.append(ctl([b"COMMAND:FETCH", b"MANIFEST:" + c.uri(), b"OUT:" + rng.choice(SAFE_OUT)]))
        else:
            ops.append("tick")
    ops.append(ctl(["COMMAND:PING"]))
    return Case(ops=ops, tag="control")


# numeric strings for every std::stoul the extractor lists as reachable from remote input (the two parse_endpoint
# functions: announce endpoints, relay hints of manifests): lengths 1/5/6/19/20/21/40, the 16/32/64-bit edges, signs,
# white space, junk.  Hosts are loopback only and the ports that parse are closed ones: the node really dials them.
PORTS = [b"9", b"1", b"0", b"65535", b"65536", b"99999", b"123456", b"4294967295", b"4294967296", b"9999999999999999999",
         b"18446744073709551615", b"18446744073709551616", b"99999999999999999999", b"123456789012345678901",
         b"1234567890123456789012345678901234567890", b"-1", b"-9", b"-18446744073709551616", b"+9", b" 9", b"9x", b"", b"abc",
         b"0x10", b"9 9", b"\x009"]


def rand_endpoint(rng, overflow_bias=0.0) -> bytes:
    if rng.random() < overflow_bias:
        port = rng.choice([b"18446744073709551616", b"123456789012345678901", b"1234567890123456789012345678901234567890",
                           b"-18446744073709551616", b"99999999999999999999"])
    else:
        port = rng.choice(PORTS)
    r = rng.random()
    if r < 0.8:
        return b"127.0.0.1:" + port
    if r < 0.85:
        return b":" + port
    if r < 0.9:
        return b"127.0.0.1" + port                 # no colon
    if r < 0.95:
        return b"::1:" + port                      # last colon counts for the node, first for the relay client
    return b"127.0.0.1:" + port + b":" + rng.choice(PORTS)


def case_endpoint(rng, big=False, forced=None) -> Case:
    """An ANNOUNCE with an assigned shard for a chunk the node does not hold makes the node remember the announced
    endpoint; once the announcer has no live session the fetch retry of a later tick dials it (and the relay hints of
    the manifest): dispatch_pending_fetch -> parse_endpoint -> std::stoul on the main loop."""
    relay = rng.random() < 0.6
    ops = ["cfg relay=1"] if relay else []
    pops, keys = _peer_ops(rng, ["p1", "p2"])
    ops += pops
    tags = []
    for k in range(rng.randint(1, 3 if big else 2)):
        thr, n = rng.choice([(1, 1), (2, 3), (3, 5)])
        c = Chunk(rng, f"c{k + 1}", rng.choice([16, 64]), thr, n, WALL0_S + 3600)
        disc = []
        for _ in range(rng.choice([0, 0, 1, 2])):
            tr = rng.choice([b"relay", b"relay", b"tcp", b""])
            ep = rand_endpoint(rng, 0.3) + rng.choice([b"", b"", b"?peer=" + id32("p1").hex().encode(), b"?x"])
            disc.append((rng.choice([b"relay", b"", b"tcp"]), tr, ep, rng.randrange(256)))
        p = rng.choice(["p1", "p2"])
        ep = forced if forced is not None else rand_endpoint(rng, 0.35)
        assigned = bytes([rng.randrange(1, n + 1)]) if rng.random() < 0.9 else b""
        ops.append(f"frame {p} {hx(sign(keys[p], m_announce(c.cid, id32(p), c.uri(disc=disc), endpoint=ep, shards=assigned)))}")
        tags.append("port" + str(len(ep.rsplit(b':', 1)[-1])) if b":" in ep else "nocolon")
    # the announcer's session is gone after its frame; first retry after fetch_retry_success_interval (15 s), then back-off
    ops.append(f"adv {rng.choice([15, 16, 20]) * NS}")
    ops.append("tick")
    for _ in range(rng.choice([0, 1, 2, 5])):
        ops.append(f"adv {rng.choice([1, 3, 7, 13, 61]) * NS}")
        ops.append("tick")
    return Case(ops=ops, tag="endpoint:" + ("relay" if relay else "direct"))


U32 = 1 << 32
# (endpoint_len, manifest_len, assignments_len) of an ANNOUNCE: every pair / triple whose 32-bit sum wraps, each single field huge
WRAP_TRIPLES = [(0x80000000, 0x80000000, 0), (0x80000000, 0, 0x80000000), (0, 0x80000000, 0x80000000), (0xFFFFFFFF, 1, 0), (1, 0xFFFFFFFF, 0),
                (0, 1, 0xFFFFFFFF), (0xFFFFFFF0, 0x20, 0), (0x20, 0, 0xFFFFFFF0), (0xFFFFFFFF, 0xFFFFFFFF, 2), (0x55555556, 0x55555555, 0x55555555),
                (0xFFFFFFFF, 0xFFFFFFFF, 0xFFFFFFFF), (0x80000000, 0x7FFFFFFF, 1), (0xC0000000, 0x40000000, 0), (0x7FFFFFFF, 0x7FFFFFFF, 2),
                (0x80000000, 0, 0), (0, 0x80000000, 0), (0, 0, 0x80000000), (0xFFFFFFFF, 0, 0), (0, 0xFFFFFFFF, 0), (0, 0, 0xFFFFFFFF),
                (0x7FFFFFFF, 0, 0), (0x80000001, 0x7FFFFFFF, 0)]


def wrap_announce(rng, version: int, triple=None, body=None) -> bytes:
    """ANNOUNCE whose three 32-bit length fields are adversarial: a listed triple, or random huge values whose sum modulo 2^32 equals
    the number of body bytes actually present (the frame then *looks* complete to a check done in 32 bits)"""
    if body is None:
        body = bytes(rng.randrange(256) for _ in range(rng.choice([0, 0, 1, 16, 32, 200])))
    if triple is None:
        e = rng.randrange(1 << 31, U32)
        m = rng.randrange(1 << 30, U32)
        a = (len(body) - e - m) % U32 if rng.random() < 0.7 else rng.randrange(U32)
        if rng.random() < 0.3:
            e, m, a = rng.sample([e, m, a], 3)
        triple = (e, m, a)
    e, m, a = triple
    out = bytes([version, TAG["ann"]]) + be4(rng.choice([0, 600])) + be4(e) + be4(m) + be4(a) + id32("c1") + id32("p1") + body
    if version >= 3 and rng.random() < 0.9:
        out += bytes(8)                    # the PoW nonce the decoder expects from version 3
    return out


def case_lenwrap(rng, big=False) -> Case:
    """wrapping sums of length fields through every decode entry point: the pre-handshake frame on the transport accept thread
    (handle_pending_handshake decodes whatever type arrives), signed and unsigned frames on an established session"""
    ops, keys = _peer_ops(rng, ["p1"])
    k = keys["p1"]
    triples = list(WRAP_TRIPLES)
    rng.shuffle(triples)
    n = len(triples) if big else 8
    for t in triples[:n] + [None] * (6 if big else 3):
        v = rng.choice([1, 2, 3, 4])
        body = None if rng.random() < 0.5 else b""       # short bodies / only the fixed header
        msg = wrap_announce(rng, v, t, body)
        where = rng.random()
        if where < 0.45:
            ops.append(f"hs {hx(id32('q7') + be4(len(msg)) + msg)}")
        elif where < 0.9:
            ops.append(f"frame p1 {hx(sign(k, msg))}")
        else:
            ops.append(f"frame p1 {hx(msg)}")
    # the other message with a length field, at its edges
    for dl in rng.sample([0x80000000, 0xFFFFFFFF, 0xFFFFFFD8, 0xFFFFFFF8, 0x7FFFFFFF], 2):
        msg = bytes([rng.choice([1, 4]), TAG["chk"]]) + be4(600) + be4(dl) + id32("c1") + bytes(rng.choice([0, 8, 40]))
        ops.append(rng.choice([f"hs {hx(id32('q8') + be4(len(msg)) + msg)}", f"frame p1 {hx(sign(k, msg))}"]))
    ops.append(ctl(["COMMAND:PING"]))
    return Case(ops=ops, tag="length-wrap")


KNOWN = ["announce-chunk-dup", "fetch-dup", "fetch-empty-out"]


def generate(ctx, budget):
    rng = ctx.rng
    big = ctx.tier == "thorough"
    cases = [case_known(rng, w) for w in KNOWN]
    # witness of the round-4 seeded change: shard index 255 among the first `threshold` shares, through ANNOUNCE + CHUNK and control FETCH
    w4 = random.Random("C35-index-255")
    ops4, keys4 = _peer_ops(w4, ["p1"])
    c4 = Chunk(w4, "c1", 64, 3, 5, WALL0_S + 3600)
    u4 = c4.uri(shards=[(255, c4.key)] + c4.shards[1:])
    ops4 += [f"frame p1 {hx(sign(keys4['p1'], m_announce(c4.cid, id32('p1'), u4)))}", f"frame p1 {hx(sign(keys4['p1'], m_chunk(c4.cid, c4.cipher)))}",
             ctl(["COMMAND:FETCH", b"MANIFEST:" + u4, "STREAM:client"]), ctl(["COMMAND:PING"])]
    cases.append(Case(ops=ops4, tag="index-255:witness"))
    # real accept threads on loopback: a silent / never-reading client ahead of a well-behaved one (~4 s of real time:
    # kHandshakeTimeout is a compile-time 2 s; the control timeout is shortened to 300 ms through the Impl member)
    cases.append(Case(ops=["rt stall"], tag="real-threads:stall"))
    # the witness of the seeded change: a 30-digit port, then the retry from tick
    cases.append(case_endpoint(random.Random("C35-endpoint-overflow"), forced=b"127.0.0.1:123456789012345678901234567890"))
    # the witness of the round-3 seeded change: endpoint_len = manifest_len = 2^31, only the fixed header, before any handshake
    w3 = random.Random("C35-length-wrap")
    cases.append(Case(ops=[f"hs {hx(id32('q7') + be4(90) + wrap_announce(w3, 4, (0x80000000, 0x80000000, 0), b'')[:90])}",
                           ctl(["COMMAND:PING"])], tag="length-wrap:witness"))
    for i in range(budget):
        r = i % 10
        if i % 10 == 7:
            cases.append(case_lenwrap(rng, big and i % 3 == 0))
            continue
        if i % 5 == 4:
            cases.append(case_endpoint(rng, big and i % 3 == 0))
            continue
        if r < 4:
            cases.append(case_manifest(rng, big and i % 3 == 0))
        elif r < 6:
            cases.append(case_control(rng, big and i % 3 == 0))
        elif r < 8:
            cases.append(case_msgfuzz(rng, big and i % 3 == 0))
        elif r < 9:
            cases.append(case_handshake(rng))
        else:
            cases.append(case_stream(rng))
    if big:
        cases.append(Case(ops=["rt all"], tag="real-threads"))
        cases.append(Case(ops=["rt control-only"], tag="real-threads"))
    return cases


def nontrivial(r: CaseResult) -> bool:
    """a case counts when some delivery went deep: a CHUNK reached a cached manifest (cm=<thr>:...), a FETCH
    met a held chunk, a handshake was accepted, or a control command other than a parse error was answered"""
    for line in r.impl:
        if " cm=" in line and " cm=na" not in line and " cm=-" not in line:
            return True
        if " held=1" in line or " acc=1" in line or "/OK_" in line:
            return True
        if line.startswith("ok link=") or " ctl-second=" in line:
            return True
        if " due=" in line and " due=-" not in line:
            return True
    return False


def signature(res: CaseResult) -> str:
    if res.viols:
        parts = res.viols[0][1].split(":")
        # viol:escape-<boundary>:<class> -> escape-<boundary>:<class>; viol:crash:... -> crash
        if len(parts) >= 3 and parts[1].startswith("escape-"):
            return parts[1] + ":" + parts[2].split(" ")[0]
        return parts[1] if len(parts) > 1 else "viol"
    if res.crashed:
        return "crash"
    return "diverge"


def post(ctx, results):
    h = {}
    for r in results:
        for op, line in zip(r.case.ops, r.impl):
            kind = op.split(" ", 1)[0]
            st = line.split(" ", 1)[0]
            key = f"op:{kind}:{st.split(':')[0]}"
            h[key] = h.get(key, 0) + 1
            if " r=" in line:
                rep = line.split(" r=", 1)[1].split(" ")[0]
                for x in rep.split(","):
                    k2 = "reply:" + x.split(":")[0] + (":" + x.split(":")[1] if x.startswith("ack:") else "")
                    h[k2] = h.get(k2, 0) + 1
            if " resp=" in line:
                k3 = "ctl:" + line.split(" resp=", 1)[1].split(" ")[0]
                h[k3] = h.get(k3, 0) + 1
            if " due=" in line:
                d = line.split(" due=", 1)[1].split(" ")[0]
                k6 = "tick:dials=" + ("0" if d == "-" else str(len(d.split(","))))
                h[k6] = h.get(k6, 0) + 1
            if " acc=" in line:
                k4 = "handshake:accepted=" + line.split(" acc=", 1)[1].split(" ")[0]
                h[k4] = h.get(k4, 0) + 1
            if " cm=" in line:
                cm = line.split(" cm=", 1)[1].split(" ")[0]
                if cm not in ("na", "-") and cm.count(":") == 2:
                    t, idx, ttl = cm.split(":")
                    t = int(t)
                    ix = [] if idx == "-" else [int(x) for x in idx.split(".")]
                    reach = t > 0 and len(ix) >= t and ttl == "1"
                    bad = len(ix) < t or 0 in ix[:t] or len(set(ix[:t])) < len(ix[:t])
                    k5 = "chunk-vs-cached-manifest:" + ("not-reaching-combine" if not reach else ("combine-throws" if bad else "combine-ok"))
                    h[k5] = h.get(k5, 0) + 1
    for k, v in sorted(h.items()):
        ctx.hist(k, v)
    t = _last_tree
    if t:
        bad = X.unprotected(t)
        if bad:
            ctx.notes.append("primitives that can reach a boundary uncaught (why C35.boundaries_closed fails): " +
                             "; ".join(f"{b}: {', '.join(ss)}" for b, ss in bad.items()))
        ctx.notes.append(f"generated call tree: {len(t['fns'])} functions, {len(t['sites'])} primitive sites, roots {[n for n, _ in t['roots']]}; "
                         f"leaf classes {t['leaves']}")


def spec() -> Spec:
    return Spec(
        pid=PID,
        proof_modules=["EphVerif.Proofs.C35", CODECS],
        driver="drv_c35",
        harness=harness,
        generate=generate,
        extract=extract,
        nontrivial=nontrivial,
        signature=signature,
        post=post,
        budget={"quick": 80, "thorough": 2500},
        search_budget={"quick": 300, "thorough": 4000},
        per_case_timeout=60.0,
        batch=400,
        # attacker-chosen sizes are capped at 1 MiB by the code: an allocation beyond 256 MiB means a cap is gone;
        # make it fail fast (ASan reports out-of-memory) instead of zero-filling gigabytes under ASan
        env_extra={"ASAN_OPTIONS": "detect_leaks=0:abort_on_error=0:allocator_may_return_null=1:"
                                   "detect_stack_use_after_return=0:max_allocation_size_mb=256"},
        rule="cases of 3-40 deliveries through the real thread functions: signed ANNOUNCE/CHUNK with adversarial manifests (24 variants: "
             "duplicate/zero indices inside and beyond the threshold, index bytes 0/1/127/128/254/255, threshold = total = 255, threshold 0 / > count, no shards, expiries, wrong id, truncated, garbage, "
             "old versions, 255 shards, trailing bytes) for chunks held / not held, then control FETCH of the same; every message type x "
             "truncation / bit flip / version / type / length-field mutation, signed with the right key, another key, or unsigned; raw garbage on "
             "an established session (length fields around 1 MiB); ANNOUNCE with an assigned shard and an endpoint / relay hints whose "
             "port text is 1..40 digits, at the 16/32/64-bit edges, signed, spaced or junk, followed by clock advances and ticks that make the "
             "node dial it; pre-handshake byte streams; control requests with non-numeric / overflowing / "
             "negative numeric headers, missing headers, 16 KiB lines, truncated payloads, unwritable and empty OUT paths; distinct = sha256 of the "
             "op list; non-trivial = some delivery reached a cached manifest, a held chunk, an accepted handshake or an executed control command",
        trusted_base=["props/C35_extract.py (clang-14 JSON AST -> call sites x enclosing try blocks; lambdas passed as arguments run where written; "
                      "std::function targets bound by table; overloads merged)",
                      "the driver's hand model of which primitive a decoded input reaches; cached-manifest / held-chunk state taken from the harness as hints",
                      "virtual clock by link-time interposition; accept(2) interposed in the harness to run the accept loops synchronously"],
        assumptions=["std::bad_alloc / container length_error are outside the model (attacker-chosen allocation sizes are capped before allocation)",
                     "memory errors, UB and liveness of the real threads are observed (ASan/UBSan, real-thread loopback runs in the thorough tier), not proved",
                     "control token unset in generated cases (token gating is C27's subject)"],
    )


def run(tier, seed, replay=None):
    sp = spec()
    # Proofs/C35Codecs.lean re-uses C16 / C18 / C10 (decoders_total, the combine throw condition). When one of
    # *those* properties' proof files does not build (their own check reports that), the termination-flow theorem
    # of C35 is still checked on its own; a failure inside C35's own files is a broken obligation as usual.
    try:
        extract()
    except Exception:
        pass
    ok, out = lake_build([CODECS])
    own = [f for f in failing_theorems(out, []) if "C35" in f]
    if ok or own or "C35" in "".join(re.findall(r"error: ([^\s:]+\.lean)", out)):
        return standard_check(sp, tier, seed, replay)
    sp.proof_modules = ["EphVerif.Proofs.C35"]
    dep_note = "Proofs/C35Codecs.lean not checked in this run: a proof file of C10/C16/C18 it imports does not build: " + \
               "; ".join(failing_theorems(out, []))[:400]
    old_post = sp.post

    def post2(ctx, results):
        ctx.notes.append(dep_note)
        if old_post:
            old_post(ctx, results)
    sp.post = post2
    return standard_check(sp, tier, seed, replay)
