"""C01 — a stored chunk is retrievable exactly while it is live."""
import re

from tools.vlib import *

PID = "C01"
READY = True
MANIFEST = {
    "level_text": "Lean 4 theorems, for every history of store / overwrite / get / get_record / fetch_chunk / peer request / LIST / "
                  "sweep / tick with arbitrary ids, payloads, TTLs and clock advances (no bound on length): the model of ChunkStore "
                  "and of the Node wrappers around it answers every read with exactly the bytes of the latest store of that id iff "
                  "now < store time + effective TTL and with nothing at or after that instant (C01.refines, reads_exact, "
                  "dead_unreachable), an overwrite replaces bytes and deadline (overwrite), a listing shows exactly the live ids "
                  "(listing), and no interleaving of lookups, sweeps and ticks changes any later read (sweeps_invisible). The model "
                  "is tied to the source by regenerated constants (1 s TTL floor, the comparison operator of each of the three expiry "
                  "tests) and by a differential run of the real ChunkStore and a real Node (no transport, peer session planted on a "
                  "socketpair) under a virtual clock against the compiled Lean model, with the Lean specification judging every "
                  "answer the implementation gives.",
    "level_note": "Trusted: Lean kernel; the hand transcription of put/get_record/sweep_expired/snapshot and of store_chunk, "
                  "fetch_chunk, export_chunk_record, handle_request+dispatch_upload, stored_chunks, tick into Lean (checked only by the "
                  "differential run); std::unordered_map, the mutexes; the harness and its canonicalisation. Modelled, not verified: "
                  "Node::store_chunk's encryption (the ciphertext the implementation produced is passed to the model as a hint; that "
                  "fetch_chunk decrypts it back is C11), the manifest cached by store_chunk expiring at the same instant as the "
                  "record (steady and system clock advance in lock-step in the harness), int64 nanosecond arithmetic (unbounded Int "
                  "in the model, TTLs <= 1e6 s generated). A peer request may be refused during the last min_manifest_ttl whole "
                  "seconds before the deadline (manifest_ttl); the specification allows exactly that window and nothing else.",
    "technique": "Lean 4 refinement proof (invariant + induction over histories) + model/implementation differential correspondence with Lean monitor",
}
SECOND = 1_000_000_000
START = 1_000_000_000_000


def harness():
    return build_harness("store_h", "harness/store_h.cpp", ALL_CORE_SOURCES, includes_repo_cpp=False, vclock=True,
                         libs=("-lcurl", "-lpthread"))


def _op_const(text: str, pattern: str, name: str, gaps: list) -> str:
    """comparison operator of an expiry test -> Lean Bool (`>=` is true)"""
    m = re.search(pattern, text, flags=re.S)
    if not m:
        gaps.append(f"{name}: pattern not found (default >=)")
        return "true"
    return "true" if m.group(1) == ">=" else "false"


def extract_store():
    """(T) for C01 and C04: both generated files are written together (the model imports both)."""
    from tools.vlib import _strip_comments
    vals, gaps = extract_consts([
        Const("kMinimumTtlSec", "src/core/ChunkStore.cpp",
              r"constexpr\s+std::chrono::seconds\s+kMinimumTtl\s*\{\s*std::chrono::seconds\s*\{\s*([^}]+)\}\s*\}", default=1),
        Const("kMinAllowedManifestTtlSec", "src/core/Node.cpp",
              r"constexpr\s+std::chrono::seconds\s+kMinAllowedManifestTtl\s*\{\s*std::chrono::seconds\s*\{\s*([^}]+)\}\s*\}", default=1),
    ])
    cs = _strip_comments((REPO / "src/core/ChunkStore.cpp").read_text(errors="replace"))
    nd = _strip_comments((REPO / "src/core/Node.cpp").read_text(errors="replace"))
    g = _op_const(cs, r"ChunkStore::get_record\(.*?steady_clock::now\(\)\s*(>=|>)\s*it->second\.expires_at", "getRecordExpiredIsGe", gaps)
    s = _op_const(cs, r"ChunkStore::sweep_expired\(\).*?if\s*\(\s*now\s*(>=|>)\s*it->second\.expires_at", "sweepExpiredIsGe", gaps)
    l = _op_const(nd, r"Node::stored_chunks\(\)\s*const\s*\{[^}]*?now\s*(>=|>)\s*entry\.expires_at", "listingExpiredIsGe", gaps)
    body = lean_consts(vals) + f"\ndef getRecordExpiredIsGe : Bool := {g}\ndef sweepExpiredIsGe : Bool := {s}\ndef listingExpiredIsGe : Bool := {l}"
    write_generated("C01", body)
    vals4, gaps4 = extract_consts([
        Const("kWipeBuffer", "src/core/ChunkStore.cpp", r"std::vector<char>\s+buffer\(\s*(\d+)\s*,\s*0\s*\)", default=4096),
    ])
    m = re.search(r'chunk_path_for_key.*?key\s*\+\s*"([^"]+)"', cs, flags=re.S)
    suffix = m.group(1) if m else ".chunk"
    if not m:
        gaps4.append("chunkSuffix: pattern not found")
    write_generated("C04", lean_consts(vals4) + f'\ndef chunkSuffix : String := "{suffix}"')
    return gaps + gaps4


def extract():
    return extract_store()


# --------------------------------------------------------------------------------------------
# generator
# --------------------------------------------------------------------------------------------

def payload(rng, node: bool, big_ok: bool = False) -> str:
    r = rng.random()
    if r < 0.05:
        return "-"
    if r < 0.55:
        n = rng.choice([1, 2, 3, 8, 16])
    elif r < 0.85 or node or not big_ok:
        n = rng.choice([31, 32, 33, 48, 64])
    else:
        n = rng.choice([100, 4095, 4096, 4097, 8192, 10000])
    if n <= 16 and rng.random() < 0.5:
        return "".join(rng.choice("0123456789abcdef") for _ in range(2 * n))
    return f"r{rng.randrange(256)}n{n}"


class Track:
    """what the generator needs to know to aim the clock: virtual time and deadlines"""

    def __init__(self, default, mn=None, mx=None, ci=None):
        self.now = START
        self.default, self.mn, self.mx, self.ci = default, mn, mx, ci
        self.deadlines = {}      # id -> latest deadline
        self.last_cleanup = START

    def eff(self, ttl):
        e = ttl if ttl > 0 else self.default
        if self.mn is not None:
            e = max(self.mn, min(e, self.mx))
        return max(e, 1)

    def store(self, cid, ttl):
        self.deadlines[cid] = self.now + self.eff(ttl) * SECOND

    def targets(self):
        out = []
        for d in self.deadlines.values():
            out += [d - 1, d, d, d + 1]
            if self.mn is not None:
                out += [d - self.mn * SECOND - 1, d - self.mn * SECOND, d - self.mn * SECOND + 1]
        if self.ci is not None:
            c = self.last_cleanup + self.ci * SECOND
            out += [c - 1, c, c + 1]
        return sorted(t for t in out if t >= self.now)

    def advance(self, rng):
        t = self.targets()
        if t and rng.random() < 0.8:
            d = rng.choice(t[:6]) - self.now
        else:
            d = rng.choice([0, 1, SECOND // 2, SECOND, 7 * SECOND])
        self.now += d
        return f"adv {d}"


def gen_store_case(rng, big: bool, persist=None, shape=None) -> Case:
    shape = shape or rng.choice(["mixed", "mixed", "overwrite", "lookup-before-sweep", "default-ttl"])
    default = rng.choice([30, 3, 1, 0, -5]) if shape != "default-ttl" else rng.choice([2, 1, 0, -1])
    persist = rng.random() < 0.25 if persist is None else persist
    ops = [f"init store {default} {1 if persist else 0} 1 {rng.choice([1, 1, 2])}"]
    tr = Track(default)
    ids = [f"c{i+1}" for i in range(rng.choice([1, 2, 2, 3, 6]))]
    ttls = [0, -1, 1, 1, 2, 2, 3, 1000000] if shape != "default-ttl" else [0, 0, -7, 1]

    def put(cid=None):
        cid = cid or rng.choice(ids)
        ttl = rng.choice(ttls)
        ops.append(f"put {cid} {payload(rng, False, persist)} {ttl}")
        tr.store(cid, ttl)
        return cid

    n = rng.randint(8, 36) if not big else rng.randint(40, 150)
    put()
    for _ in range(n):
        r = rng.random()
        if shape == "overwrite" and r < 0.25 and tr.deadlines:
            cid = rng.choice(list(tr.deadlines))
            put(cid)
            ops.append(f"get {cid}")
            ops.append(f"rec {cid}")
        elif shape == "lookup-before-sweep" and r < 0.2 and tr.deadlines:
            # land on/after a deadline, look the chunk up, then sweep and look again
            cid = rng.choice(list(tr.deadlines))
            d = tr.deadlines[cid] + rng.choice([0, 0, 1, -1])
            if d >= tr.now:
                ops.append(f"adv {d - tr.now}")
                tr.now = d
            ops += [f"get {cid}", "snap", "sweep", f"get {cid}", "snap"]
        elif r < 0.25:
            put()
        elif r < 0.50:
            ops.append(tr.advance(rng))
        elif r < 0.70:
            ops.append(f"get {rng.choice(ids)}")
        elif r < 0.82:
            ops.append(f"rec {rng.choice(ids)}")
        elif r < 0.91:
            ops.append("sweep")
        else:
            ops.append("snap")
    for cid in ids:
        ops.append(f"get {cid}")
    return Case(ops=ops, tag="store/" + shape)


def gen_node_case(rng, big: bool, persist=None) -> Case:
    shape = rng.choice(["mixed", "mixed", "grace", "list-at-deadline", "tick"])
    mn = rng.choice([1, 2, 3, 30])
    mx = rng.choice([mn, mn + 1, 60, 3600])
    default = rng.choice([mn, mx, (mn + mx) // 2])
    ci = rng.choice([1, 2, 5, 300])
    persist = rng.random() < 0.2 if persist is None else persist
    ops = [f"init node {default} {mn} {mx} {ci} {1 if persist else 0} 1 1"]
    tr = Track(default, mn, mx, ci)
    ids = [f"c{i+1}" for i in range(rng.choice([1, 2, 3, 4]))]
    ttls = [0, -3, 1, mn - 1, mn, mn + 1, mx, mx + 1, 1000000]

    def nstore(cid=None):
        cid = cid or rng.choice(ids)
        ttl = rng.choice(ttls)
        ops.append(f"nstore {cid} {payload(rng, True)} {ttl}")
        tr.store(cid, ttl)
        return cid

    reads = ["fetch", "rec", "req", "get"]
    n = rng.randint(8, 30) if not big else rng.randint(30, 100)
    nstore()
    for _ in range(n):
        r = rng.random()
        if shape == "list-at-deadline" and r < 0.25 and tr.deadlines:
            cid = rng.choice(list(tr.deadlines))
            d = tr.deadlines[cid] + rng.choice([0, 0, 1, -1])
            if d >= tr.now:
                ops.append(f"adv {d - tr.now}")
                tr.now = d
            ops += ["list", f"{rng.choice(reads)} {cid}", "list"]
        elif shape == "grace" and r < 0.25 and tr.deadlines:
            cid = rng.choice(list(tr.deadlines))
            d = tr.deadlines[cid] - mn * SECOND + rng.choice([0, 1, -1])
            if d >= tr.now:
                ops.append(f"adv {d - tr.now}")
                tr.now = d
            ops += [f"req {cid}", f"fetch {cid}"]
        elif r < 0.20:
            cid = nstore()
            if rng.random() < 0.5:
                ops.append(f"{rng.choice(reads)} {cid}")
        elif r < 0.45:
            ops.append(tr.advance(rng))
        elif r < 0.72:
            ops.append(f"{rng.choice(reads)} {rng.choice(ids)}")
        elif r < 0.84:
            ops.append("list")
        elif r < 0.94 or shape == "tick":
            ops.append("tick")
            if tr.now - tr.last_cleanup >= ci * SECOND:
                tr.last_cleanup = tr.now
        else:
            ops.append("sweep")
    ops.append("list")
    for cid in ids:
        ops.append(f"fetch {cid}")
    return Case(ops=ops, tag="node/" + shape)


def exhaustive_small(limit: int) -> list[Case]:
    """all histories of length <= 5 over a 2-id, 3-TTL alphabet (store mode), aimed advances"""
    alphabet = ["put c1 01 1", "put c1 02 2", "put c2 03 0", "get c1", "get c2", "sweep",
                "adv 999999999", "adv 1", "adv 1000000000"]
    out = []

    def rec(prefix):
        if len(out) >= limit:
            return
        if prefix:
            out.append(Case(ops=["init store 1 0 1 1"] + prefix + ["get c1", "get c2", "snap"], tag="store/exhaustive"))
        if len(prefix) < 5:
            for a in alphabet:
                rec(prefix + [a])
    rec([])
    return out


def generate(ctx, budget):
    cases = []
    n_node = budget // 3
    for i in range(budget - n_node):
        cases.append(gen_store_case(ctx.rng, ctx.tier == "thorough" and i % 5 == 0))
    for i in range(n_node):
        cases.append(gen_node_case(ctx.rng, ctx.tier == "thorough" and i % 5 == 0))
    if ctx.tier == "thorough":
        cases += exhaustive_small(66429)
    else:
        ex = exhaustive_small(66429)
        cases += ctx.rng.sample(ex, 300)
    return cases


READS = ("get ", "rec ", "fetch ", "req ")


def nontrivial(r: CaseResult) -> bool:
    """DESIGN section 9 rule for TTL properties: at least one read lands before a deadline (hit) and one
    at or after it (a miss on an id that had been stored)"""
    stored = set()
    hit = miss_after_store = False
    for op, o in zip(r.case.ops, r.impl):
        t = op.split(" ")
        if t[0] in ("put", "nstore"):
            stored.add(t[1])
        elif op.startswith(READS):
            if o.startswith(("hit", "served")):
                hit = True
            elif t[1] in stored and o.startswith(("miss", "nack", "none")):
                miss_after_store = True
    return hit and miss_after_store


def spec() -> Spec:
    return Spec(
        pid=PID,
        proof_modules=["EphVerif.Proofs.C01"],
        driver="drv_c01",
        harness=harness,
        generate=generate,
        extract=extract,
        nontrivial=nontrivial,
        budget={"quick": 1200, "thorough": 15000},
        search_budget={"quick": 2500, "thorough": 20000},
        rule="histories of put/overwrite/get/get_record/sweep/snapshot on a real ChunkStore and of store_chunk/fetch_chunk/"
             "export_chunk_record/peer request/LIST/tick/sweep on a real Node under the virtual clock; 1-6 ids, TTLs from "
             "{<=0, 1, 2, 3, default, min-1, min, min+1, max, max+1, 1e6}, advances aimed at deadline -1 ns / 0 / +1 ns, at the "
             "peer-request grace boundary and at the cleanup-interval boundary; plus all store-mode histories of length <= 5 over a "
             "9-symbol alphabet (sampled in the quick tier); distinct = sha256 of the op list; non-trivial = some read hits and "
             "some read of a previously stored id misses",
        trusted_base=["std::unordered_map and mutex behaviour", "virtual clock by link-time interposition of steady_clock::now / system_clock::now",
                      "crypto round trip of Node::store_chunk / fetch_chunk (property C11); ciphertext passed to the model as a validated hint"],
        assumptions=["expiry arithmetic does not overflow int64 nanoseconds (TTL <= 1e6 s in generated cases; Node clamps to <= 24 h)",
                     "steady and system clock advance in lock-step (manifest and record of a locally stored chunk expire at the same instant)",
                     "sanitised configuration: 1 <= min_manifest_ttl <= max_manifest_ttl (property C02)"],
        batch=3000,
    )


def run(tier, seed, replay=None):
    return standard_check(spec(), tier, seed, replay)
