"""C26 — the relay never crashes and releases everything once clients leave (partial)."""
from tools.vlib import *
from props import C25 as relay

PID = "C26"
READY = True
MANIFEST = {
    "level_text": "PARTIAL. Proved in Lean 4 about the relay model, for every event sequence over any number of clients and arbitrary "
                  "bytes in arbitrary chunks: the protocol loop always terminates — the one branch in which the C++ would spin forever "
                  "(handle_identity_ready closing the session inside process_protocol) is unreachable (total); once every accepted "
                  "client has seen EOF or an error there is no session, no registration, and the closed descriptors are exactly the "
                  "accepted clients, none closed twice (release, release_spec); at every moment no descriptor is closed twice, a closed "
                  "client has no session, no registration outlives its session, and EOF/error removes the session in the same step "
                  "(accounting, eof_removes). Not proved: absence of memory errors in the compiled binary — that part is an observation: "
                  "the real RelayServer runs under ASan+UBSan in the correspondence harness on malformed streams (partial lines, CRLF, "
                  "NUL/binary, wrong-length ids, 64 KiB and 1 MiB lines, identity fragments) with every disconnect order of four clients, "
                  "and after every op sessions_, registered_ and /proc/self/fd are compared with the clients still connected by the Lean "
                  "monitor (specification predicate Released).",
    "level_note": "Partial because 'keeps running without memory errors' is a statement about the compiled C++ object code: the model has "
                  "no memory to corrupt, so only termination and resource release are theorems; memory errors are looked for with "
                  "sanitizers on generated inputs. Also outside: EventLoop::run (a watcher's std::function is erased while its callback "
                  "executes; a stale event of an epoll batch can be dispatched to a new client that reuses the descriptor number), "
                  "unbounded buffering of a newline-free line or of a slow partner, send() errors. Trusted: Lean kernel, hand transcription "
                  "(checked by the differential run), ASan/UBSan, /proc/self/fd. Holds for the repaired code (C25 patch); the model is the "
                  "one of C25.",
    "technique": "Lean 4 invariant proof (termination + resource accounting over all event sequences) + sanitizer-instrumented "
                 "model/implementation differential run on real sockets with a Lean monitor",
}


def generate(ctx, budget):
    cases = []
    thorough = ctx.tier == "thorough"
    huge_left = 2 if not thorough else 6
    for i in range(budget):
        r = ctx.rng.random()
        if r < 0.6:
            huge = huge_left > 0 and i % 40 == 7
            c = relay.gen_malformed(ctx.rng, thorough and i % 4 == 0, huge=huge)
            if c.tag.endswith("/huge"):
                huge_left -= 1
            cases.append(c)
        elif r < 0.92:
            cases.append(relay.gen_pairing(ctx.rng, ctx.rng.choice(relay.PAIRING_SHAPES), False))
        elif r < 0.97:
            cases.append(relay.gen_burst(ctx.rng, False))
        elif r < 0.985:
            cases.append(relay.gen_stall(ctx.rng, False))
        else:
            cases.append(relay.gen_stall_close(ctx.rng))
    # a bridge side leaves while the relay holds a backlog for the other, stalled, side: every continuation, several times
    for rep in range(4 if not thorough else 40):
        for v in range(6):
            cases.append(relay.gen_stall_close(ctx.rng, v))
    cases += relay.gen_orders(("eof", "hup", "rst", "shw") if thorough else ("eof", "hup"))[:: (1 if thorough else 4)]
    return cases


def nontrivial(r: CaseResult) -> bool:
    """every client left at the end, at least two sessions coexisted, and the server itself closed a connection
    or refused a command on the way"""
    if not r.impl or " ss=- " not in r.impl[-1]:
        return False
    multi = any("," in (l.split(" ss=")[1].split(" ")[0]) for l in r.impl if " ss=" in l)
    err = "4552524f52"  # "ERROR"
    return multi and any("cl=-" not in l or err in l for l in r.impl)


def post(ctx, results):
    ctx.hist("shape:all-clients-left", sum(1 for r in results if r.impl and " ss=- " in r.impl[-1]))
    ctx.hist("shape:server-closed-a-partner", sum(1 for r in results if any(" cl=-" not in l for l in r.impl)))
    ctx.hist("shape:line>=64KiB", sum(1 for r in results if any("*65536" in o or "*1048576" in o for o in r.case.ops)))
    ctx.hist("shape:line=1MiB", sum(1 for r in results if any("*1048576" in o for o in r.case.ops)))


def spec() -> Spec:
    return Spec(
        pid=PID,
        proof_modules=["EphVerif.Proofs.C26"],
        driver="drv_c26",
        harness=relay.harness,
        generate=generate,
        extract=relay.extract,
        nontrivial=nontrivial,
        post=post,
        budget={"quick": 350, "thorough": 6000},
        search_budget={"quick": 2000, "thorough": 16000},
        per_case_timeout=60.0,
        rule="malformed byte streams (partial lines, CRLF, NUL/binary, wrong-length and non-hex ids, wrong argument counts, lines of "
             "4095..65536 bytes and 1 MiB, identity fragments) and pairing scripts from 1-5 clients against the real RelayServer under "
             "ASan+UBSan, every client leaving by FIN/half-close/RST/HUP in random order; all 4!·2^4 (thorough: 4!·4^4) disconnect "
             "orders of an established bridge plus a claimed pair; a bridge side leaving while the relay holds a backlog for the other, "
             "stalled side (4 KiB socket buffers), which then resumes / never resumes / leaves too, with every disconnect kind; after every op sessions_, registered_ and /proc/self/fd are compared "
             "with the clients still connected; non-trivial = all clients left, several sessions coexisted and the server closed or "
             "refused something",
        trusted_base=["ASan/UBSan as the observer of memory errors in the real binary (an observation, not a theorem)",
                      "the event loop itself is not run: EventLoop::run's dispatch (a watcher erased while its callback executes, stale "
                      "events of a batch after descriptor reuse) is outside both model and harness",
                      "/proc/self/fd as the count of open descriptors"],
        assumptions=["unbounded buffering of a line without newline / of a slow partner is a resource question outside the model",
                     "send() errors are not provoked by the harness (modelled as event `err`)"],
    )


def run(tier, seed, replay=None):
    return standard_check(spec(), tier, seed, replay)
