"""C27 — a configured control token gates STORE, FETCH and STOP.

This module also holds what C27, C28 and C29 share: the control-plane harness build, the (T)
extractors for the three Generated files and the request/op builders used by the generators."""
from tools.vlib import *
import tools.vlib as _v

PID = "C27"
READY = True
MANIFEST = {
    "level_text": "Lean 4 theorem C27.gate, for every daemon state, every parsed request whose command is STORE, FETCH (streamed or "
                  "with a daemon-side OUT path) or STOP, every configured token t and every behaviour of the node (manifest decoding, "
                  "registration, chunk lookup, file write taken as arbitrary functions): if no TOKEN header of the request equals t "
                  "byte for byte (missing, prefix, suffix, case change, anything else; any header order, duplicates, key case) the "
                  "model of ControlServer answers STATUS:ERROR with the command's *_UNAUTHENTICATED code and the daemon state is "
                  "unchanged: nothing stored, no manifest registered, no file written, no rate-limit slot used, stop callback not "
                  "invoked, transport not stopped. constant_time_equal is proved to be byte-string equality. The model is tied to the "
                  "code by a structural extraction (in each of the three handlers the token comparison textually precedes every "
                  "effect call; a confirmation only - when the text cannot be read that way a translator gap is reported and the "
                  "order is judged by the run) and by a differential run: a real ControlServer + Node in-process on a loopback port receives raw "
                  "requests (token variants x header permutations x duplicates x CR/space decorations) and the compiled Lean model "
                  "predicts status, code and the observed effects (chunk count, manifest cache, files in the daemon's directory, stop "
                  "callback, transport flag, liveness); the Lean specification judges every response of the implementation.",
    "level_note": "Trusted: Lean kernel; hand transcription of parse_request / handle_client / handle_store / handle_fetch / handle_stop "
                  "into Lean (checked only by the differential run); Node behind the handlers is abstract in the theorem and a small "
                  "payload-keyed store in the driver; unordered_map as an insertion-ordered association list. CR bytes are framing in this "
                  "protocol (recv_line drops every CR), so 'the TOKEN value' is the header value with CR bytes removed; requests that do "
                  "not parse (no colon in a header line, bad PAYLOAD-LENGTH, truncated body) are answered by the parser's own error "
                  "before any handler runs and are covered by the no-effect clause only. Thread-level behaviour (one accept thread) is "
                  "not modelled.",
    "technique": "Lean 4 proof over a model of the control-plane handlers + model/implementation differential correspondence with Lean monitor",
}

SERVER = "src/daemon/ControlServer.cpp"
CLIENT = "src/daemon/ControlClient.cpp"
PLANE_HPP = "include/ephemeralnet/daemon/ControlPlane.hpp"
SECOND = 1_000_000_000


# ----------------------------------------------------------------------------------------
# harness build (shared).  build_harness keys extra sources by include/ only; the two harness units
# #include ControlServer.cpp / main.cpp, so they are compiled here with keys covering exactly those files.
# ----------------------------------------------------------------------------------------

def harness():
    flags = list(BASE_FLAGS) + [f"-I{REPO}/include", f"-I{REPO}/src", f"-I{REPO}", f"-I{VERIF}/harness"]
    inc_hash = tree_hash("include")
    common = VERIF / "harness" / "common"
    common_hash = sha(*[p.read_bytes() for p in sorted(common.glob("*")) if p.is_file()])
    server_hash = sha((REPO / SERVER).read_bytes())          # control_h.cpp #includes ControlServer.cpp
    cli_hash = sha((REPO / "src/main.cpp").read_bytes())     # control_cli_h.cpp #includes main.cpp
    jobs = [(REPO / s, inc_hash) for s in ALL_CORE_SOURCES + [CLIENT, "src/daemon/ControlPlane.cpp", "src/daemon/StructuredLogger.cpp"]]
    jobs.append((VERIF / "harness/control_h.cpp", inc_hash + common_hash + server_hash))
    jobs.append((VERIF / "harness/control_cli_h.cpp", inc_hash + common_hash + cli_hash))
    jobs.append((common / "vclock.cpp", ""))
    with cf.ThreadPoolExecutor(max_workers=NPROC) as ex:
        objs = list(ex.map(lambda j: _v._compile_obj(j[0], flags, j[1]), jobs))
    libs = ["-lcurl", "-lpthread"]
    key = sha(*[o.name for o in objs], " ".join(flags), " ".join(libs))[:24]
    exe = BUILD / "bin" / f"control_h-{key}"
    if exe.exists():
        return exe
    exe.parent.mkdir(parents=True, exist_ok=True)
    tmp = exe.with_suffix(f".{os.getpid()}.tmp")
    sanit = [f for f in flags if f.startswith("-fsanitize") or f.startswith("-fno-sanitize")]
    r = subprocess.run([CXX, *sanit, "-o", str(tmp), *map(str, objs), *libs], capture_output=True, text=True)
    if r.returncode != 0:
        raise BuildError("link control_h", r.stdout + r.stderr)
    os.replace(tmp, exe)
    return exe


# ----------------------------------------------------------------------------------------
# (T) extraction for C27 / C28 / C29
# ----------------------------------------------------------------------------------------

# Policy (DESIGN section 1): a pattern that no longer matches is a *translator gap*: it is returned from extract()
# (and shows up in the evidence notes) and the generated value falls back to the expected one.  A flag only takes
# the contrary value on *positive* evidence of the contrary (the other comparison operator is there, the header-keyed
# bucket assignment is there).  Everything these flags stand for is also observed by the differential run (escaping
# round trip, gate order through effects, bucket selection by varying TOKEN, window / limit edges at +-1 ns / +-1),
# so a real removal is caught there with a concrete replay; the flags tie the *proofs* to the source where the
# source can be read, nothing more.

def _function_body(text: str, name: str) -> str:
    """text of the member/free function `name` (from its header to the next function at the same or a lower
    indentation); '' when it cannot be located"""
    m = re.search(r"\n(\s*)(?:static\s+|inline\s+)*[\w:<>,&\s\*]+?\b" + re.escape(name) + r"\s*\([^;{]*\)\s*(?:const\s*)?(?:noexcept\s*)?\{", text)
    if not m:
        return ""
    depth, i = 0, m.end() - 1
    while i < len(text):
        if text[i] == "{":
            depth += 1
        elif text[i] == "}":
            depth -= 1
            if depth == 0:
                return text[m.start():i + 1]
        i += 1
    return text[m.start():]


def _gate_first(body: str, effects: list[str]) -> tuple[int, str]:
    """(value, gap): 1 when the token comparison is seen textually before every effect call of the handler.
    Anything else -- handler or comparison not located (e.g. moved into a helper), effects not located, order not
    as expected (e.g. effects wrapped in a lambda defined earlier) -- is a gap with the expected value: the order
    is observed through effects by the differential run (clauses gate-store / gate-fetch / gate-stop)."""
    if not body:
        return 1, "handler not found"
    cmp_at = min([p for p in (body.find("constant_time_equal("), body.find("check_control_token("), body.find("authorize")) if p >= 0], default=-1)
    eff = [body.find(e) for e in effects if body.find(e) >= 0]
    if cmp_at < 0:
        return 1, "no token comparison located in the handler (moved into a helper?)"
    if not eff:
        return 1, "no effect call located"
    if cmp_at > min(eff):
        return 1, "token comparison not textually before the first effect call (reshaped?); order is judged by the run"
    return 1, ""


def extract_c27() -> list[str]:
    gaps = []
    text = _v._strip_comments((REPO / SERVER).read_text(errors="replace"))
    out = []
    for name, fn, effects in [
        ("storeGateFirst", "handle_store", ["allow_store_request(", "store_chunk(", "note_store_pow_failure("]),
        ("fetchGateFirst", "handle_fetch", ["ingest_manifest(", "fetch_chunk(", "write_file_bytes(", "allow_stream_fetch("]),
        ("stopGateFirst", "handle_stop", ["stop_callback_(", "stop_transport(", "transport_stopped_"]),
    ]:
        val, why = _gate_first(_function_body(text, fn), effects)
        if why:
            gaps.append(f"{name}: {why}")
        out.append(f"/-- in `{fn}` the token comparison precedes every effect call (1); when the text cannot be read that way the\n"
                   f"    value stays 1 and a translator gap is reported: the order is what the differential run observes -/\ndef {name} : Nat := {val}")
    write_generated("C27", "\n".join(out))
    return gaps


def _cmp_flag(text: str, pattern: str, strict: str, name: str, gaps: list[str], default: int = 1) -> int:
    m = re.search(pattern, text, flags=re.S)
    if not m:
        gaps.append(f"{name}: pattern not found")
        return default
    return 1 if m.group(1) == strict else 0


def extract_c28() -> list[str]:
    vals, gaps = extract_consts([
        Const("kStoreRateWindow", SERVER, r"kStoreRateWindow\s*(?:\{|=)\s*([^;]+?)\s*\}?\s*;", default=30),
        Const("kStoreRateBurstLimit", SERVER, r"kStoreRateBurstLimit\s*(?:=|\{)\s*([^;}]+)\}?\s*;", default=6),
        Const("kFetchStreamRateWindow", SERVER, r"kFetchStreamRateWindow\s*(?:\{|=)\s*([^;]+?)\s*\}?\s*;", default=30),
        Const("kFetchStreamBurstLimit", SERVER, r"kFetchStreamBurstLimit\s*(?:=|\{)\s*([^;}]+)\}?\s*;", default=12),
        Const("kStorePowFailureWindow", SERVER, r"kStorePowFailureWindow\s*(?:\{|=)\s*([^;]+?)\s*\}?\s*;", default=120),
        Const("kStorePowFailureLimit", SERVER, r"kStorePowFailureLimit\s*(?:=|\{)\s*([^;}]+)\}?\s*;", default=3),
        Const("kMaxLineLength", SERVER, r"kMaxLineLength\s*(?:=|\{)\s*([^;}]+)\}?\s*;", default=16384),
        Const("kDefaultControlStreamBytes", PLANE_HPP, r"kDefaultControlStreamBytes\s*(?:=|\{)\s*([^;}]+)\}?\s*;", default=32 * 1024 * 1024),
        Const("kConfigControlStreamMaxBytes", "include/ephemeralnet/Config.hpp", r"control_stream_max_bytes\s*(?:\{|=)\s*([^};]+)\}?", default=32 * 1024 * 1024),
    ])
    text = _v._strip_comments((REPO / SERVER).read_text(errors="replace"))
    store_fn = _function_body(text, "allow_store_request") or text
    fetch_fn = _function_body(text, "allow_stream_fetch") or text
    parse_fn = _function_body(text, "parse_request") or text
    hstore = _function_body(text, "handle_store") or text
    flags = {
        # `now - <ts> > kStoreRateWindow` drops an entry strictly older than the window (either operator is positive evidence)
        "storeWindowStrict": _cmp_flag(store_fn, r"\w+\s*-\s*\w+\s*(>=|>)\s*kStoreRateWindow", ">", "storeWindowStrict", gaps),
        "fetchWindowStrict": _cmp_flag(fetch_fn, r"\w+\s*-\s*\w+\s*(>=|>)\s*kFetchStreamRateWindow", ">", "fetchWindowStrict", gaps),
        # `<history>.size() >= limit` refuses
        "storeLimitInclusive": _cmp_flag(store_fn, r"\.size\(\)\s*(>=|>)\s*kStoreRateBurstLimit", ">=", "storeLimitInclusive", gaps),
        "fetchLimitInclusive": _cmp_flag(fetch_fn, r"\.size\(\)\s*(>=|>)\s*kFetchStreamBurstLimit", ">=", "fetchLimitInclusive", gaps),
        # `*parsed > stream_limit` refuses in parse_request
        "payloadCapStrict": _cmp_flag(parse_fn, r"\*?\s*parsed\w*\s*(>=|>)\s*\w*limit\w*", ">", "payloadCapStrict", gaps),
        # `ttl < min_ttl || ttl > max_ttl` refuses
        "ttlLowStrict": _cmp_flag(hstore, r"\bttl\s*(<=|<)\s*min_ttl", "<", "ttlLowStrict", gaps),
        "ttlHighStrict": _cmp_flag(hstore, r"\bttl\s*(>=|>)\s*max_ttl", ">", "ttlHighStrict", gaps),
    }
    # positive evidence of the defect: in the branch taken when NO token is configured the bucket is derived from the
    # request's TOKEN header.  Absence of this text is the expected state (0); whether the bucket really is the peer
    # address is observed by the run (clauses rate-store / rate-fetch with a varying TOKEN header).
    bad = r"else\s+if\s*\([^)]*!=\s*[\w.\->]*end\(\)\s*\)\s*\{\s*rate_identity\s*=\s*hashed_token_identity"
    flags["storeIdentityFromHeader"] = 1 if re.search(bad, hstore) else 0
    flags["fetchIdentityFromHeader"] = 1 if re.search(bad, _function_body(text, "handle_fetch") or "") else 0
    if not re.search(r"rate_identity\s*(?:=|\{)\s*remote_identity", text):
        gaps.append("rate_identity initialisation from remote_identity not found")
    body = lean_consts(vals) + "\n" + "\n".join(f"def {k} : Nat := {v}" for k, v in flags.items())
    write_generated("C28", body)
    return gaps


def extract_c29() -> list[str]:
    vals, gaps = extract_consts([
        Const("kClientMaxLineLength", CLIENT, r"kMaxLineLength\s*(?:=|\{)\s*([^;}]+)\}?\s*;", default=16384),
    ])
    server = _v._strip_comments((REPO / SERVER).read_text(errors="replace"))
    client = _v._strip_comments((REPO / CLIENT).read_text(errors="replace"))
    # presence flags: 1 when the call is seen (the call, not the surrounding stream syntax), otherwise a gap with the
    # expected value -- whether values really are encoded / decoded is what the round-trip run observes
    flags = {}
    send = _function_body(server, "send_response")
    if re.search(r"\bencode_field_value\s*\(", send or server):
        flags["serverEncodesValues"] = 1
    else:
        flags["serverEncodesValues"] = 1
        gaps.append("serverEncodesValues: no call of encode_field_value located in send_response")
    parse = _function_body(client, "parse_response")
    if re.search(r"\bdecode_field_value\s*\(", parse or client):
        flags["clientDecodesValues"] = 1
    else:
        flags["clientDecodesValues"] = 1
        gaps.append("clientDecodesValues: no call of decode_field_value located in parse_response")

    # the escape table: what can be read from the switch overrides the expected table entry by entry; entries that
    # cannot be read are gaps (the expected replacement is used, the run judges the behaviour)
    expected = {92: [92, 92], 13: [92, 114], 10: [10, 9]}
    enc = _function_body(server, "encode_field_value")
    pairs = re.findall(r"case\s*'((?:\\.|[^'\\]))'\s*:\s*\w+\s*(?:\.append\(|\+=\s*)\"((?:\\.|[^\"\\])*)\"", enc)
    esc = {"\\\\": 92, "\\r": 13, "\\n": 10, "\\t": 9}

    def cbytes(lit):
        out, i = [], 0
        while i < len(lit):
            if lit[i] == "\\" and i + 1 < len(lit):
                out.append({"\\": 92, "r": 13, "n": 10, "t": 9}.get(lit[i + 1], ord(lit[i + 1])))
                i += 2
            else:
                out.append(ord(lit[i]))
                i += 1
        return out
    table = dict(expected)
    seen = set()
    for ch, rep in pairs:
        c = esc.get(ch, ord(ch[-1]))
        table[c] = cbytes(rep)
        seen.add(c)
    missing = [k for k in expected if k not in seen]
    if missing:
        gaps.append(f"encode_field_value: replacement of byte(s) {missing} not readable from the source (switch reshaped, or tree without the repair)")
    rows = [f"({k}, {table[k]})" for k in (92, 13, 10)] + [f"({k}, {v})" for k, v in table.items() if k not in expected]
    body = lean_consts(vals) + "\n" + "\n".join(f"def {k} : Nat := {v}" for k, v in flags.items())
    body += "\n/-- `encode_field_value`: byte ↦ replacement, as written in the switch -/\ndef encodeTable : List (Nat × List Nat) := [" + ", ".join(rows) + "]"
    write_generated("C29", body)
    return gaps


# ----------------------------------------------------------------------------------------
# op builders
# ----------------------------------------------------------------------------------------

def hx(b) -> str:
    if isinstance(b, str):
        b = b.encode("latin-1")
    return b.hex() if b else "-"


def head(lines, eol=b"\n", end=b"\n") -> str:
    """header block: each item is bytes/str (one line, terminator appended) or a tuple
    (prefix, ref) = `prefix` followed by the manifest URI `$ref`."""
    segs = []
    for l in lines:
        if isinstance(l, tuple):
            pre = l[0].encode("latin-1") if isinstance(l[0], str) else l[0]
            if pre:
                segs.append(pre.hex())
            segs.append("$" + l[1])
            segs.append(eol.hex())
        else:
            b = l.encode("latin-1") if isinstance(l, str) else l
            segs.append((b + eol).hex())
    if end:
        segs.append(end.hex())
    return "+".join(segs) if segs else "-"


def req(addr: int, lines, body=b"", mode="full", eol=b"\n", end=b"\n") -> str:
    return f"req {addr} {mode} {head(lines, eol, end)} {hx(body)}"


def cfg(tok=None, pow=0, cap=4096, min=30, max=21600, default=21600, **extra) -> str:
    s = f"cfg tok={hx(tok) if tok is not None else '-'} pow={pow} cap={cap} min={min} max={max} def={default}"
    for k, v in extra.items():
        s += f" {k}={v}"
    return s


def effects_of(line: str) -> str:
    return line.split(" | ", 1)[1] if " | " in line else ""


def code_of(line: str) -> str:
    p = line.split(" ")
    return p[1] if len(p) > 1 else "-"


# ----------------------------------------------------------------------------------------
# C27 generator
# ----------------------------------------------------------------------------------------

TOKENS = [b"secret", b"S3cr3t-Token_42", b"a", b"tok:with:colons", b"  spaced  ", b"\xc3\xa9\xff\x80bin"]


def long_token(rng, n: int) -> bytes:
    return bytes(rng.choice(b"abcdefghijklmnopqrstuvwxyzABCDEFGHIJKLMNOPQRSTUVWXYZ0123456789-_") for _ in range(n))


LONG_TOKEN_LENGTHS = [1, 16, 127, 128, 129, 200, 1000, 4096]


def token_variants(rng, tok: bytes):
    """(label, header lines contributing TOKEN, expected-to-carry-the-token?)"""
    other = bytes(rng.choice(b"abcdefghijklmnopqrstuvwxyz0123456789") for _ in range(max(1, len(tok))))
    if other == tok:
        other = tok + b"x"
    flip = bytes([tok[0] ^ 0x20]) + tok[1:] if tok[:1].isalpha() else tok.swapcase()
    v = [
        ("exact", [b"TOKEN:" + tok]),
        ("exact-lckey", [b"token:" + tok]),
        ("exact-mixedkey", [b"ToKeN:" + tok]),
        ("exact-cr", [b"TOKEN:" + tok + b"\r"]),
        ("exact-crmid", [b"TOKEN:" + tok[:1] + b"\r" + tok[1:]]),
        ("missing", []),
        ("empty", [b"TOKEN:"]),
        ("wrong", [b"TOKEN:" + other]),
        ("prefix", [b"TOKEN:" + tok[:-1]]),
        ("suffix", [b"TOKEN:" + tok[1:]]),
        ("longer", [b"TOKEN:" + tok + b"x"]),
        ("longer-front", [b"TOKEN:x" + tok]),
        ("case", [b"TOKEN:" + (flip if flip != tok else tok + b"!")]),
        ("upper", [b"TOKEN:" + (tok.upper() if tok.upper() != tok else tok + b"U")]),
        ("space-after", [b"TOKEN:" + tok + b" "]),
        ("space-before", [b"TOKEN: " + tok]),
        ("tab-after", [b"TOKEN:" + tok + b"\t"]),
        ("nul-after", [b"TOKEN:" + tok + b"\x00"]),
        ("key-space", [b"TOKEN :" + tok]),
        ("other-key", [b"CONTROL-TOKEN:" + tok]),
        ("dup-good-bad", [b"TOKEN:" + tok, b"TOKEN:" + other]),
        ("dup-bad-good", [b"TOKEN:" + other, b"TOKEN:" + tok]),
        ("dup-bad-bad", [b"TOKEN:" + other, b"token:" + tok[:-1]]),
        ("doubled", [b"TOKEN:" + tok + tok]),
    ]
    # wrong tokens that agree with the configured one on a long prefix (a comparison bounded to the first N bytes,
    # or cut at a fixed buffer size, would accept them)
    for k in (64, 127, 128, 129, len(tok) - 1):
        if 0 <= k < len(tok):
            flipped = tok[:k] + bytes([tok[k] ^ 0x01]) + tok[k + 1:]
            v.append((f"differs-at-{k if k != len(tok) - 1 else 'last'}", [b"TOKEN:" + flipped]))
    for k in (64, 127, 128, 129):
        if k < len(tok):
            v.append((f"prefix-{k}", [b"TOKEN:" + tok[:k]]))
            v.append((f"prefix-{k}-other-tail", [b"TOKEN:" + tok[:k] + bytes(b ^ 0x20 if chr(b).isalpha() else b ^ 1 for b in tok[k:])]))
    return v


def gated_request(rng, cmd: str, tok_lines, refs, out_counter, payload=None, eol=b"\n"):
    """header lines (shuffled, with the TOKEN lines placed anywhere) + body for one command"""
    lines = []
    body = b""
    cmdname = rng.choice([cmd, cmd.lower(), cmd.capitalize()])
    lines.append(b"COMMAND:" + cmdname.encode())
    if cmd == "STORE":
        body = payload if payload is not None else bytes(rng.randrange(256) for _ in range(rng.choice([1, 2, 5, 17])))
        lines.append(b"PAYLOAD-LENGTH:" + str(len(body)).encode())
        if rng.random() < 0.4:
            lines.append(b"TTL:" + str(rng.choice([30, 60, 3600])).encode())
        if rng.random() < 0.3:
            lines.append(b"PATH:" + rng.choice([b"a.txt", b"/tmp/x/y.bin", b"dir/"]))
    elif cmd == "FETCH":
        ref = rng.choice(refs) if refs else "nope"
        lines.append((b"MANIFEST:", ref))
        kind = rng.choice(["stream", "out", "both", "stream", "out"])
        if kind in ("stream", "both"):
            lines.append(b"STREAM:" + rng.choice([b"client", b"CLIENT", b"1", b"true", b"yes"]))
        if kind in ("out", "both"):
            out_counter[0] += 1
            lines.append(b"OUT:" + f"out/f{out_counter[0]}.bin".encode())
    for t in tok_lines:
        pos = rng.randrange(len(lines) + 1)
        lines.insert(pos, t)
    if rng.random() < 0.6:
        rng.shuffle(lines)
    return lines, body


def gen_case_c27(rng, big: bool, long_tok: bool = False) -> Case:
    tok = long_token(rng, rng.choice(LONG_TOKEN_LENGTHS)) if long_tok else rng.choice(TOKENS)
    ops = [cfg(tok=tok, pow=0, cap=256)]
    ops.append("mk m1 " + hx(b"F1-" + bytes(rng.randrange(256) for _ in range(4))) + " 3600")
    ops.append("mk m2 " + hx(b"F2-" + bytes(rng.randrange(256) for _ in range(9))) + " 3600")
    refs = ["m1", "m2"]
    outc = [0]
    nstores = 0
    # one or two authenticated stores so that FETCH has something to return
    for _ in range(rng.choice([1, 1, 2])):
        payload = b"own-" + bytes(rng.randrange(256) for _ in range(rng.choice([1, 8, 30])))
        lines, body = gated_request(rng, "STORE", [b"TOKEN:" + tok], refs, outc, payload)
        ops.append(req(1, lines, body))
        nstores += 1
        refs.append(f"s{nstores}")
    if rng.random() < 0.35:
        # a manifest issued by another node for a chunk this daemon holds: registration is refused
        # (Node::manifest_keeps_held_chunk_readable), the authenticated FETCH fails at ingest, nothing changes
        ops.append("mk m3 " + hx(payload) + " 3600")
        refs.append("m3")
    variants = token_variants(rng, tok)
    if long_tok and len(tok) > 64:
        far = [x for x in variants if x[0].startswith("differs-at") or x[0].startswith("prefix-") or x[0] in ("longer", "exact")]
        variants = far * 3 + variants
    shape = rng.choice(["sweep-store", "sweep-fetch", "sweep-stop", "mixed", "mixed"])
    n = rng.randint(6, 14) if not big else rng.randint(20, 40)
    for i in range(n):
        label, tl = rng.choice(variants)
        cmd = {"sweep-store": "STORE", "sweep-fetch": "FETCH", "sweep-stop": "STOP"}.get(shape) or rng.choice(["STORE", "FETCH", "FETCH", "STOP", "PING", "LIST"])
        if cmd == "STOP" and label.startswith("exact") and i < n - 1 and rng.random() < 0.8:
            label, tl = rng.choice([v for v in variants if not v[0].startswith("exact") and not v[0].startswith("dup")])
        lines, body = gated_request(rng, cmd, tl, refs, outc)
        eol = b"\r\n" if rng.random() < 0.15 else b"\n"
        ops.append(req(rng.choice([1, 1, 2]), lines, body, eol=eol, end=eol))
    ops.append(req(1, [b"COMMAND:PING"]))
    return Case(ops=ops, tag=("long-" if long_tok else "") + shape)


def gen_malformed_c27(rng) -> Case:
    tok = rng.choice(TOKENS[:3])
    ops = [cfg(tok=tok, pow=0, cap=64), "mk m1 " + hx(b"F1-zz") + " 3600"]
    for _ in range(rng.randint(4, 10)):
        k = rng.choice(["nocolon", "badlen", "toolarge", "trunc", "nocmd", "unknown", "emptyhead", "longline", "eof"])
        if k == "nocolon":
            ops.append(req(1, [b"COMMAND:STOP", b"garbage line without colon"]))
        elif k == "badlen":
            ops.append(req(1, [b"COMMAND:STORE", b"PAYLOAD-LENGTH:" + rng.choice([b"", b"-1", b"+5", b"5x", b" 5", b"18446744073709551616", b"0x10"])], b"hello"))
        elif k == "toolarge":
            ops.append(req(1, [b"COMMAND:STORE", b"PAYLOAD-LENGTH:65"], b"x" * 65, mode="early"))
        elif k == "trunc":
            ops.append(req(1, [b"COMMAND:STORE", b"TOKEN:" + tok, b"PAYLOAD-LENGTH:20"], b"short"))
        elif k == "nocmd":
            ops.append(req(1, [b"TOKEN:" + tok, b"X:1"]))
        elif k == "unknown":
            ops.append(req(1, [b"COMMAND:" + rng.choice([b"SHUTDOWN", b"STOPX", b" STOP", b"STOP ", b""])]))
        elif k == "emptyhead":
            ops.append(req(1, [], end=rng.choice([b"\n", b"\r\n", b""])))
        elif k == "longline":
            ops.append(req(1, [b"COMMAND:STOP", b"X:" + b"a" * rng.choice([16381, 16382, 16383, 16384, 20000])]))
        elif k == "eof":
            ops.append(req(1, [b"COMMAND:STOP"], end=b""))
    ops.append(req(1, [b"COMMAND:PING"]))
    return Case(ops=ops, tag="malformed")


def generate(ctx, budget):
    out = []
    for i in range(budget):
        if i % 6 == 5:
            out.append(gen_malformed_c27(ctx.rng))
        elif i % 6 == 2:
            out.append(gen_case_c27(ctx.rng, False, long_tok=True))
        else:
            out.append(gen_case_c27(ctx.rng, ctx.tier == "thorough" and i % 5 == 0))
    return out


def nontrivial(r: CaseResult) -> bool:
    """a case counts only if at least one gated request was refused with the authentication error
    and at least one request was accepted"""
    codes = [code_of(o) for o in r.impl]
    return any(c.endswith("_UNAUTHENTICATED") for c in codes) and any(c.startswith("OK_STORE") or c.startswith("OK_FETCH") or c.startswith("OK_STOP") for c in codes)


def extract():
    return extract_c27() + extract_c28() + extract_c29()


def spec() -> Spec:
    return Spec(
        pid=PID,
        proof_modules=["EphVerif.Proofs.C27"],
        driver="drv_c27",
        harness=harness,
        generate=generate,
        extract=extract,
        nontrivial=nontrivial,
        budget={"quick": 150, "thorough": 2000},
        search_budget={"quick": 600, "thorough": 8000},
        per_case_timeout=60.0,
        rule="daemon with a configured token (6 token values incl. colons, spaces, non-ASCII); 1-2 authenticated STOREs, then 6-40 "
             "requests STORE/FETCH(stream, OUT, both)/STOP/PING/LIST with one of 24 token variants (missing, empty, wrong, prefix, suffix, "
             "longer, case-changed, trailing space/TAB/NUL/CR, lower-case key, duplicates in both orders, other key), header order "
             "shuffled, LF or CRLF; every 6th case is a malformed stream (no colon, bad/too large/lying PAYLOAD-LENGTH, no COMMAND, "
             "unknown command, 16 KiB lines, EOF). distinct = sha256 of the op list; non-trivial = at least one *_UNAUTHENTICATED "
             "refusal and at least one accepted STORE/FETCH/STOP in the same case",
        trusted_base=["Node behind the control handlers (store_chunk / ingest_manifest / fetch_chunk) is abstract in the theorem; the driver uses a payload-keyed store",
                      "kernel TCP on loopback; responses are read to EOF, which the single accept thread produces only after the handler returned"],
        assumptions=["SHA-256 chunk ids of distinct generated payloads are distinct", "manifests created in a case stay valid for its duration (TTL 3600 s, no clock advance)"],
    )


def run(tier, seed, replay=None):
    return standard_check(spec(), tier, seed, replay)
