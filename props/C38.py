"""C38 — update metadata parsing is total and decodes JSON strings correctly."""
import json
import re

from tools.vlib import *

PID = "C38"
READY = True
MANIFEST = {
    "level_text": "Lean 4 theorems about an executable model of JsonParser / parse_update_metadata (src/core/UpdateCheck.cpp), for every "
                  "byte string: parsing ends in `ok` or `err msg`, never in an out-of-range read and never with a loop still running "
                  "(every loop iteration advances the cursor); values nested deeper than 128 are rejected, any input that opens more than "
                  "128 containers is rejected, so the recursion is at most 128 deep; and on success every string in the parsed tree, hence "
                  "every reported metadata field, is the RFC 8259 decoding (escapes, surrogate pairs combined to one code point, UTF-8 per "
                  "RFC 3629 written independently of the code's shifts and masks) of the string literal found at that position of the "
                  "document. The model is tied to the source by the regenerated constant kMaxJsonDepth and by a differential run of the real "
                  "parse_update_metadata (ASan/UBSan, exact-size heap buffer, 8 MiB thread stack) against the compiled Lean model.",
    "level_note": "Trusted: Lean kernel; the hand transcription of the parser into Lean (checked only by the differential run); the harness. "
                  "strtod's ERANGE rejection of out-of-range number literals is not modelled (numbers are opaque text). Memory safety and "
                  "stack use of the real binary are observed under sanitizers on generated inputs (nesting to 10^6, every truncation), and "
                  "proved only for the model. Lone surrogate escapes are specified as undecodable (the repaired code rejects them).",
    "technique": "Lean 4 proof (fuel/budget induction, parser soundness w.r.t. an RFC 8259 string decoder) + model/implementation "
                 "differential correspondence under ASan/UBSan",
}


def harness():
    return build_harness("logjson_c38", "harness/logjson_h.cpp", ["src/core/UpdateCheck.cpp"], includes_repo_cpp=False,
                         libs=("-lpthread", "-lcurl"), defines=["-DLOGJSON_C38"])


def extract():
    vals, gaps = extract_consts([
        Const("kMaxJsonDepth", "src/core/UpdateCheck.cpp", r"constexpr\s+std::size_t\s+kMaxJsonDepth\s*=\s*([^;]+);", default=128),
    ])
    write_generated(PID, lean_consts(vals))
    return gaps


# ------------------------------------------------------------------------------------------
# document construction
# ------------------------------------------------------------------------------------------
REQUIRED = ["version", "tag", "commit", "channel", "generated_at"]


def hx(b: bytes) -> str:
    return b.hex() if b else "-"


def jlit(raw: bytes) -> bytes:
    """a JSON string literal from already-escaped content"""
    return b'"' + raw + b'"'


def esc_plain(s: str) -> bytes:
    return json.dumps(s, ensure_ascii=False)[1:-1].encode()


def u(cp: int, rng=None) -> bytes:
    h = "%04x" % cp
    if rng is not None:
        h = "".join(c.upper() if rng.random() < 0.5 else c for c in h)
    return b"\\u" + h.encode()


def rand_text(rng, n=None) -> str:
    n = rng.choice([0, 1, 2, 5, 12, 40]) if n is None else n
    pool = "abcXYZ019 ._-/:\"\\\n\t\b\f\r\u00e9\u00df\u0416\u4e2d\u20ac\U0001F600\U00010000\U0010FFFF\u07ff\u0800\uffff\ud7ff\ue000\x7f\x80"
    return "".join(rng.choice(pool) for _ in range(n))


def rand_literal(rng) -> bytes:
    """a valid JSON string literal mixing raw characters and escapes (incl. surrogate pairs)"""
    out = b""
    for _ in range(rng.choice([0, 1, 2, 4, 8, 20])):
        r = rng.random()
        if r < 0.35:
            out += esc_plain(rand_text(rng, 1))
        elif r < 0.55:
            out += rng.choice([b'\\"', b"\\\\", b"\\/", b"\\b", b"\\f", b"\\n", b"\\r", b"\\t"])
        elif r < 0.80:
            cp = rng.choice([0, 1, 0x1F, 0x20, 0x22, 0x5C, 0x7F, 0x80, 0xFF, 0x7FF, 0x800, 0xFFF, 0x1000, 0xD7FF, 0xE000, 0xFFFD, 0xFFFF,
                             rng.randrange(0, 0xD800), rng.randrange(0xE000, 0x10000)])
            out += u(cp, rng)
        else:
            cp = rng.choice([0x10000, 0x10FFFF, 0x1F600, 0x103FF, 0x10400, rng.randrange(0x10000, 0x110000)])
            v = cp - 0x10000
            out += u(0xD800 + (v >> 10), rng) + u(0xDC00 + (v & 0x3FF), rng)
    return jlit(out)


def ws(rng) -> bytes:
    return rng.choice([b"", b"", b"", b" ", b"\n", b"\t", b"\r\n", b"  \n\t "])


def rand_number(rng) -> bytes:
    return rng.choice([b"0", b"-0", b"7", b"42", b"-13", b"0.5", b"3.25", b"1e5", b"2E+3", b"-1.5e-2", b"120", b"0e0", b"9.0E1"])


def rand_value(rng, depth=0) -> bytes:
    r = rng.random()
    if depth > 3 or r < 0.35:
        return rng.choice([rand_literal(rng), rand_number(rng), b"true", b"false", b"null"])
    if r < 0.65:
        items = [rand_value(rng, depth + 1) for _ in range(rng.choice([0, 1, 2, 3]))]
        return b"[" + ws(rng) + (ws(rng) + b"," + ws(rng)).join(items) + ws(rng) + b"]"
    items = [rand_literal(rng) + ws(rng) + b":" + ws(rng) + rand_value(rng, depth + 1) for _ in range(rng.choice([0, 1, 2, 3]))]
    return b"{" + ws(rng) + (ws(rng) + b"," + ws(rng)).join(items) + ws(rng) + b"}"


def obj(rng, members: list[tuple[bytes, bytes]]) -> bytes:
    body = (ws(rng) + b"," + ws(rng)).join(k + ws(rng) + b":" + ws(rng) + v for k, v in members)
    return b"{" + ws(rng) + body + ws(rng) + b"}"


def download(rng, force_ok=False) -> bytes:
    ms = []
    if force_ok or rng.random() < 0.9:
        ms.append((b'"url"', rand_literal(rng) if rng.random() < 0.7 else b'"https://example.com/x"'))
    for k in ("arch", "format", "sha256"):
        r = rng.random()
        if r < 0.6:
            ms.append((jlit(k.encode()), rand_literal(rng)))
        elif r < 0.7:
            ms.append((jlit(k.encode()), rand_number(rng)))
    if rng.random() < 0.2:
        ms.append((rand_literal(rng), rand_value(rng, 2)))
    rng.shuffle(ms)
    return obj(rng, ms)


def metadata_members(rng, version: bytes | None = None) -> list[tuple[bytes, bytes]]:
    ms = []
    for k in REQUIRED:
        ms.append((jlit(k.encode()), rand_literal(rng)))
    if version is not None:
        ms[0] = (b'"version"', version)
    if rng.random() < 0.6:
        ms.append((b'"notes_url"', rand_literal(rng) if rng.random() < 0.8 else b"null"))
    dls = []
    for i in range(rng.choice([1, 1, 2, 3])):
        name = jlit(rng.choice([b"linux", b"windows", b"macos", b"linux-arm64", esc_plain(rand_text(rng, 3))]))
        dls.append((name, download(rng, force_ok=(i == 0)) if rng.random() < 0.9 else rand_number(rng)))
    ms.append((b'"downloads"', obj(rng, dls)))
    return ms


def metadata_doc(rng, version: bytes | None = None, extra: list[tuple[bytes, bytes]] | None = None, shuffle=True) -> bytes:
    ms = metadata_members(rng, version)
    r = rng.random()
    if r < 0.10:        # a required field missing or of the wrong type
        i = rng.randrange(len(REQUIRED))
        if rng.random() < 0.5:
            del ms[i]
        else:
            ms[i] = (ms[i][0], rand_number(rng))
    elif r < 0.20:      # duplicate key: the first one wins
        i = rng.randrange(len(REQUIRED))
        ms.append((ms[i][0], rand_literal(rng)))
    elif r < 0.25:      # key spelled with an escape
        ms[1] = (b'"t\\u0061g"', ms[1][1])
    if rng.random() < 0.5:
        ms.append((rand_literal(rng), rand_value(rng)))
    if extra:
        ms = extra + ms if rng.random() < 0.5 else ms + extra
    if shuffle and rng.random() < 0.5:
        rng.shuffle(ms)
    return ws(rng) + obj(rng, ms) + ws(rng)


SAMPLE = (b'{\n  "version": "1.2.3",\n  "tag": "v1.2.3",\n  "commit": "abc123",\n  "channel": "stable",\n'
          b'  "generated_at": "2025-11-24T00:00:00Z",\n  "notes_url": "https://example.com/release",\n  "downloads": {\n'
          b'    "linux": {\n      "url": "https://example.com/linux",\n      "arch": "x64",\n      "format": "tar.gz",\n'
          b'      "sha256": "deadbeef"\n    }\n  }\n}')

TAIL = b'"version":"1","tag":"t","commit":"c","channel":"s","generated_at":"g","downloads":{"linux":{"url":"u"}}}'


def with_version(lit_content: bytes) -> bytes:
    """minimal valid document whose `version` is the given string-literal content"""
    return b'{"version":"' + lit_content + b'","tag":"t","commit":"c","channel":"s","generated_at":"g","downloads":{"l":{"url":"u"}}}'


def with_extra(value: bytes) -> bytes:
    """valid document with one extra member holding an arbitrary value token"""
    return b'{"x":' + value + b"," + TAIL


# ------------------------------------------------------------------------------------------
# generator streams
# ------------------------------------------------------------------------------------------
def case_valid(rng) -> Case:
    return Case(ops=["meta " + hx(metadata_doc(rng)) for _ in range(12)], tag="valid")


def case_escapes(rng) -> Case:
    ops = []
    simple = [b'\\"', b"\\\\", b"\\/", b"\\b", b"\\f", b"\\n", b"\\r", b"\\t"]
    for e in simple:
        ops.append("meta " + hx(with_version(b"a" + e + b"b")))
    for cp in [0, 0x1F, 0x7F, 0x80, 0x7FF, 0x800, 0xFFF, 0x1000, 0xD7FF, 0xE000, 0xFFFF, rng.randrange(0x80, 0xD800)]:
        ops.append("meta " + hx(with_version(u(cp, rng))))
        ops.append("meta " + hx(with_version(b"x" + u(cp, rng) + b"y" + u(rng.randrange(0x20, 0xD800)))))
    bad = [b"\\x", b"\\a", b"\\0", b"\\U0041", b"\\u", b"\\u0", b"\\u00", b"\\u004", b"\\u00g1", b"\\u 041", b"\\u-041", b"\\u004G",
           b"\\u+123", b"\\", b"\\u00:0", b"\\u00`0", b"\\u00@0", b"\\u00/0"]
    for b_ in bad:
        ops.append("meta " + hx(with_version(b_)))
        ops.append("meta " + hx(with_version(b"a" + b_ + b"z")))
    for raw in [b"\n", b"\x00", b"\x1f", b"\x7f", b"\x80", b"\xff", b"\xc3\xa9", b"\xed\xa0\x80", b"\xf0\x9f\x98\x80", b"/"]:
        ops.append("meta " + hx(with_version(raw)))
    return Case(ops=ops, tag="escapes")


def case_surrogates(rng) -> Case:
    H = [0xD800, 0xD801, 0xD83D, 0xDBFE, 0xDBFF, rng.randrange(0xD800, 0xDC00)]
    L = [0xDC00, 0xDC01, 0xDE00, 0xDFFE, 0xDFFF, rng.randrange(0xDC00, 0xE000)]
    ops = []
    for h in H:
        for l in L:
            ops.append("meta " + hx(with_version(u(h, rng) + u(l, rng))))                 # pair
    for h in H:
        for tail in [b"", b"x", b"\\n", b"\\u0041", u(0xD7FF), u(0xE000), u(h), b"\\", b"\\u", b"\\uDC0", b"\\uDC", b"\\x", b"u" + (b"%04x" % 0xDC00),
                     b"\\\\u" + (b"%04x" % 0xDC00), b"\\U" + (b"%04X" % 0xDC00)]:
            ops.append("meta " + hx(with_version(u(h, rng) + tail)))                     # lone high
    for l in L:
        ops.append("meta " + hx(with_version(u(l, rng))))                                 # lone low
        ops.append("meta " + hx(with_version(b"a" + u(l, rng) + b"b")))
        ops.append("meta " + hx(with_version(u(l, rng) + u(rng.choice(H), rng))))         # low + high
    ops.append("meta " + hx(with_version(u(0xD83D) + u(0xD83D) + u(0xDE00))))             # high high low
    ops.append("meta " + hx(with_version(u(0xD83D) + u(0xDE00) + u(0xDE00))))             # pair + lone low
    ops.append("meta " + hx(with_version(u(0xD83D) + u(0xDE00) + u(0xD83D) + u(0xDE00))))
    # the pair as a key and inside downloads
    ops.append("meta " + hx(b'{"\\ud83d\\ude00":1,' + TAIL))
    ops.append("meta " + hx(b'{"version":"1","tag":"t","commit":"c","channel":"s","generated_at":"g","downloads":{"\\uD83D\\uDE00":{"url":"\\uD834\\uDD1E"}}}'))
    return Case(ops=ops, tag="surrogates")


def case_truncations(rng) -> Case:
    doc = rng.choice([SAMPLE, metadata_doc(rng).strip(), with_version(u(0xD83D) + u(0xDE00) + b"\\n"),
                      with_extra(b"[-1.5e+3,true,false,null,{\"a\":[]}]")])
    if len(doc) > 400:
        doc = SAMPLE
    return Case(ops=["meta " + hx(doc[:i]) for i in range(len(doc) + 1)], tag="trunc")


def nest_op(pre: bytes, opn: bytes, n: int, mid: bytes, cls: bytes, m: int, post: bytes) -> str:
    return f"nest {hx(pre)} {hx(opn)} {n} {hx(mid)} {hx(cls)} {m} {hx(post)}"


def case_nest(rng, big: bool) -> Case:
    """container nesting around the limit and far beyond it; as the whole document and as the
    value of an extra member of an otherwise valid document (where accept/reject is visible)"""
    ops = []
    kinds = [(b"[", b"]", b""), (b'{"a":', b"}", b"1"), (b'[{"k":', b"}]", b"null"), (b"[ ", b" ]", b"")]
    depths = [1, 2, 3, 126, 127, 128, 129, 130, 255, 256, 257, 1000, rng.randrange(4, 126), rng.randrange(131, 5000)]
    if big:
        depths += [10_000, 100_000, 1_000_000]
    for n in depths:
        opn, cls, mid = rng.choice(kinds)
        per = 2 if opn.startswith(b"[{") else 1
        k = max(1, n // per)
        ops.append(nest_op(b'{"x":', opn, k, mid, cls, k, b"," + TAIL))                 # inside a valid document
        r = rng.random()
        if r < 0.4:
            ops.append(nest_op(b"", opn, k, mid, cls, k, b""))                           # whole document
        elif r < 0.7:
            ops.append(nest_op(b"", opn, k, b"", cls, 0, b""))                           # never closed
        else:
            ops.append(nest_op(b'{"x":', opn, k, mid, cls, max(0, k - 1), b"," + TAIL))  # one close missing
    return Case(ops=ops, tag="nest-big" if big else "nest")


def case_tokens(rng) -> Case:
    toks = [b"0", b"-0", b"-", b"--1", b"+1", b"01", b"00", b"1.", b".5", b"1.e3", b"1e", b"1e+", b"1E-", b"1e5", b"1E+05", b"-12.50e-3", b"1.5.2",
            b"1e5e5", b"0x10", b"12a", b"true", b"false", b"null", b"tru", b"fals", b"nul", b"True", b"nulll", b"truefalse", b"t", b"f", b"n",
            b"[]", b"{}", b"[,]", b"[1,]", b"[1 2]", b"{,}", b'{"a"}', b'{"a":}', b'{"a":1,}', b"{1:2}", b"{'a':1}", b'{"a" 1}', b"[", b"]", b"}",
            b'"', b'"abc', b"'x'", b"", b" ", b",", b":", b"\x00", b"\xff", b"/*c*/1", b"[1]//", b"-1e5", b"-.5", b"1 ", b" 1", b"[ ]", b"{ }",
            b'{"a":{"b":[1,{"c":null}]}}', b"123456789012", b"0.000001", b"1e-5"]
    ops = ["meta " + hx(with_extra(t)) for t in toks]
    ops += ["meta " + hx(t) for t in [b"", b" ", b"\n", b"[]", b"{}", b"null", b'"s"', b"1", b"{} {}", b"{}x", b" {} ", b"\xef\xbb\xbf{}"]]
    ops += ["meta " + hx(TAIL), "meta " + hx(b"{" + TAIL), "meta " + hx(b"{" + TAIL + b"}"), "meta " + hx(b"{" + TAIL + b" \n"), "meta " + hx(SAMPLE)]
    # downloads edge cases
    base = b'{"version":"1","tag":"t","commit":"c","channel":"s","generated_at":"g","downloads":'
    for d in [b"{}", b"[]", b"null", b'"x"', b'{"l":1}', b'{"l":{}}', b'{"l":{"url":1}}', b'{"l":{"url":"u"},"m":{"arch":"a"}}',
              b'{"l":1,"m":{"url":"v","sha256":null,"arch":2,"format":"f"}}', b'{"l":{"url":"u","url":"w"}}', b'{"l":{"url":"u"},"l":{"url":"w"}}']:
        ops.append("meta " + hx(base + d + b"}"))
    return Case(ops=ops, tag="tokens")


MUT_BYTES = b'{}[]",:\\ \n-0.u"\\{}[]9'


def mutate(rng, doc: bytes) -> bytes:
    b = bytearray(doc)
    for _ in range(rng.choice([1, 1, 2, 3])):
        if not b:
            b.append(rng.choice(MUT_BYTES))
            continue
        i = rng.randrange(len(b))
        r = rng.random()
        c = rng.choice(MUT_BYTES) if rng.random() < 0.8 else rng.randrange(256)
        if r < 0.35:
            b[i] = c
        elif r < 0.65:
            del b[i]
        elif r < 0.9:
            b.insert(i, c)
        else:
            j = rng.randrange(len(b))
            b[i], b[j] = b[j], b[i]
    return bytes(b)


def case_malformed(rng) -> Case:
    ops = []
    for _ in range(16):
        base = rng.choice([SAMPLE, metadata_doc(rng), with_version(u(0xD83D) + u(0xDE00)), with_extra(rand_value(rng))])
        ops.append("meta " + hx(mutate(rng, base)))
    for _ in range(4):
        ops.append("meta " + hx(bytes(rng.choice(MUT_BYTES + b"abtruefalsn") for _ in range(rng.choice([1, 2, 3, 8, 30])))))
    return Case(ops=ops, tag="malformed")


def generate(ctx, budget):
    rng = ctx.rng
    cases = [case_escapes(rng), case_surrogates(rng), case_tokens(rng), case_nest(rng, False), case_nest(rng, True), case_truncations(rng)]
    streams = [(case_valid, 5), (case_malformed, 4), (case_truncations, 1), (case_surrogates, 1), (case_escapes, 1), (lambda r: case_nest(r, False), 1)]
    if ctx.tier == "thorough":
        streams.append((lambda r: case_nest(r, True), 1))
    pool = [f for f, w in streams for _ in range(w)]
    while len(cases) < budget:
        cases.append(rng.choice(pool)(rng))
    return cases[:max(budget, 6)]


def nontrivial(r: CaseResult) -> bool:
    return any(o.startswith("ok ") for o in r.impl) or r.case.tag.split("/")[0] in ("nest", "nest-big", "trunc", "surrogates", "escapes", "tokens")


def post(ctx, results):
    acc = sum(1 for r in results for o in r.impl if o.startswith("ok "))
    rej = sum(1 for r in results for o in r.impl if o == "err")
    ctx.hist("ops:accepted", acc)
    ctx.hist("ops:rejected", rej)
    nonascii = sum(1 for r in results for o in r.impl if o.startswith("ok ") and re.search(r"=(?:[0-7][0-9a-f])*[89a-f]", o))
    ctx.hist("ops:accepted-with-multibyte-field", nonascii)


def spec() -> Spec:
    return Spec(
        pid=PID,
        proof_modules=["EphVerif.Proofs.C38"],
        driver="drv_c38",
        harness=harness,
        generate=generate,
        extract=extract,
        nontrivial=nontrivial,
        post=post,
        budget={"quick": 220, "thorough": 4500},
        search_budget={"quick": 600, "thorough": 9000},
        divergence_is_violation=True,
        per_case_timeout=60.0,
        batch=400,
        rule="documents fed to parse_update_metadata from an exact-size heap block on an 8 MiB thread stack: valid update metadata (real field "
             "names, random whitespace/extra members/escapes/duplicates), all simple and \\u escapes at the UTF-8 length boundaries, all "
             "surrogate combinations (pair, lone high + every continuation, lone low, low+high), every truncation of valid documents, "
             "container nesting 1..1,000,000 around the limit 128 (alone and inside a valid document), malformed tokens and byte mutations; "
             "distinct = sha256 of the op list; non-trivial = some document accepted, or a directed reject shape (nest/trunc/surrogates/escapes/tokens)",
        trusted_base=["strtod range check (ERANGE) is not modelled; generated number literals stay inside double range",
                      "ASan/UBSan as the observer of out-of-bounds reads and stack overflow in the real binary"],
        assumptions=["number literals in generated documents are within double range",
                     "a surrogate escape outside a high+low pair is specified as undecodable (RFC 8259 leaves it open); the repaired code rejects it"],
    )


def run(tier, seed, replay=None):
    return standard_check(spec(), tier, seed, replay)
