"""C31 — fetch output stays inside the chosen directory."""
import re

from tools.vlib import *
from props.C30 import cli_harness, c31_blocks, MAIN_CPP, NODE_CPP, STOREPROOF_CPP

PID = "C31"
READY = True
MANIFEST = {
    "level_text": "Lean 4 theorems, for every byte string offered as a file name (no length bound): the CLI's sanitiser returns either "
                  "nothing (hex chunk id is used) or a name without '/', '\\', control bytes (<0x20, 0x7f) or any of : * ? \" < > |, different "
                  "from '.' and '..', at most 255 bytes; the name Node::store_chunk records in an issued manifest (directly or after "
                  "sanitize_filename_hint, the daemon's STORE route) has the same shape; and for every directory text and every such name, "
                  "dir / name has dir as parent_path() and name as filename(), i.e. the created file is a direct child. Tied to the code by "
                  "regenerated reserved-character lists, dot guards and length limits, by calling the two sanitising source blocks copied "
                  "verbatim from the working tree on every one- and two-byte name, and by really running `eph fetch <manifest> <dir>/` "
                  "against a fake local daemon and Node::store_chunk in-process, with the Lean safe-name predicate judging every file "
                  "created and every name recorded.",
    "level_note": "Trusted/modelled: std::filesystem::path::filename(), operator/= and parent_path() on POSIX (text after the last '/', "
                  "validated on every generated case), std::iscntrl in the C locale, hand transcription of the three sanitisers "
                  "(checked only by the differential run), the harness (fake control endpoint in a forked child, scratch directory scan).",
    "technique": "Lean 4 proof over all byte strings + exhaustive small-domain and corpus differential correspondence with Lean monitor",
}


def harness():
    return cli_harness()


# --------------------------------------------------------------------------------------------------
# (T) extraction: reserved characters, dot guards, length limits of the three sanitisers
# --------------------------------------------------------------------------------------------------
_CHAR = r"ch\s*==\s*'((?:\\.|[^'\\]))'"


def _reserved(block: str) -> list[int]:
    out = []
    for m in re.finditer(_CHAR, block):
        c = m.group(1)
        if c.startswith("\\"):
            c = {"\\\\": "\\", "\\'": "'", '\\"': '"', "\\n": "\n", "\\t": "\t", "\\0": "\0"}.get(c, c[1:])
        out.append(ord(c))
    return out


def extract():
    gaps = []
    blocks = c31_blocks()
    vals = {}
    defaults = [47, 92, 58, 42, 63, 34, 60, 62, 124]
    for key, name in (("cli", "cliReserved"), ("node_lambda", "nodeReserved")):
        b = blocks.get(key)
        if b is None:
            gaps.append(f"{name}: sanitising block not found")
            vals[name] = defaults
        else:
            vals[name] = _reserved(_strip_comments(b))
    def dotcheck(b, var):
        if b is None:
            return 1
        b = _strip_comments(b)
        return 1 if (re.search(var + r'\s*==\s*"\."', b) and re.search(var + r'\s*==\s*"\.\."', b)) else 0
    vals["cliDotCheck"] = dotcheck(blocks.get("cli"), "base")
    vals["nodeDotCheck"] = dotcheck(blocks.get("node_lambda"), "value")
    hint_src = (REPO / STOREPROOF_CPP).read_text(errors="replace") if (REPO / STOREPROOF_CPP).exists() else ""
    m = re.search(r"sanitize_filename_hint\s*\([^)]*\)\s*\{(.*?)\n\}", hint_src, re.S)
    vals["hintDotCheck"] = dotcheck(m.group(1) if m else None, "base")
    if not m:
        gaps.append("sanitize_filename_hint body not found")
    consts, g2 = extract_consts([
        Const("cliMaxLen", MAIN_CPP, r"constexpr\s+std::size_t\s+kMaxSuggestedNameLength\s*=\s*([^;]+);", default=255),
        Const("nodeMaxLen", NODE_CPP, r"constexpr\s+std::size_t\s+kMaxSuggestedNameLength\s*=\s*([^;]+);", default=255),
        Const("hintMaxLen", STOREPROOF_CPP, r"constexpr\s+std::size_t\s+kMaxFilenameLength\s*=\s*([^;]+);", default=255),
    ])
    gaps += g2
    body = []
    for k in ("cliReserved", "nodeReserved"):
        body.append(f"def {k} : List Nat := [{', '.join(str(x) for x in vals[k])}]")
    for k in ("cliDotCheck", "nodeDotCheck", "hintDotCheck"):
        body.append(f"def {k} : Nat := {vals[k]}")
    body.append(lean_consts(consts))
    write_generated(PID, "\n".join(body))
    return gaps


def _strip_comments(t):
    from tools.vlib import _strip_comments as sc
    return sc(t)


# --------------------------------------------------------------------------------------------------
# generator
# --------------------------------------------------------------------------------------------------
TRAVERSAL = [
    b"../../etc/passwd", b"..", b".", b"../", b"/..", b"a/..", b"a/../b", b"/etc/passwd", b"....//....//x", b"..\\..\\windows\\system32",
    b"./.", b"./..", b".../...", b"...", b". ", b" .", b".. ", b"..\x00", b"\x00..", b".\x01.", b"\x1f.\x7f.", b"..\x7f", b"/", b"//", b"///a",
    b"a/", b"a//", b"a/b/", b"\\", b"\\..\\", b"a\\..\\b", b"C:\\x", b"con:", b"a:b", b"a*b", b"a?b", b'a"b', b"a<b", b"a>b", b"a|b", b"a\tb",
    b"a\nb", b"a\rb", b"name\x00hidden", b"", b" ", b"~", b"~/x", b"-rf", b"--help", b"\xff\xfe", b"\xc3\x28", b"\xe2\x80\xae" b"gpj.exe",
    b"\xc0\xaf", b"..\xc0\xaf", b"\xef\xbc\x8f", b"caf\xc3\xa9.txt", b"\x80", b"\x9f\x85", b"a" * 254, b"a" * 255, b"a" * 256, b"a" * 300,
    b"." * 255, b"." * 256, b"." * 300, b"/" * 300, b"a/" * 150, b"x" * 254 + b"/..", b"x" * 300 + b"/" + b"y" * 300, b".." + b"x" * 253,
    b":" * 300, b"\x01" * 300 + b"..", b"\x01" * 254 + b".", b"a" * 253 + b"\x01" * 10 + b"bc", b"%2e%2e%2f", b"..%2f", b"a\x7fb",
]


def long_with_extension(rng) -> bytes:
    """an over-long name (256..400 bytes) whose last extension (<= 16 bytes with its dot) carries control / reserved bytes,
    dots or spaces: whatever a sanitiser does when it shortens a name, the tail must come out clean as well"""
    dirty = [0x00, 0x01, 0x1f, 0x7f, 0x3a, 0x2a, 0x3f, 0x22, 0x3c, 0x3e, 0x7c, 0x5c, 0x20, 0x2e, 0x80, 0xff]
    ext_len = rng.randint(1, 15)
    ext = bytearray(rng.choice([0x61, 0x62, 0x7a, 0x31]) for _ in range(ext_len))
    for _ in range(rng.randint(1, 3)):
        ext[rng.randrange(ext_len)] = rng.choice(dirty)
    if ext[0] == 0x2e:
        ext[0] = 0x78
    total = rng.choice([256, 257, 260, 271, 272, 300, 400])
    stem_len = max(1, total - 1 - ext_len)
    stem = bytearray(rng.choice([0x61, 0x5f, 0x2d]) for _ in range(stem_len))
    if rng.random() < 0.3:
        stem[rng.randrange(stem_len)] = 0x2e          # an earlier dot: only the last extension counts
    prefix = rng.choice([b"", b"", b"dir/", b"../"])
    return prefix + bytes(stem) + b"." + bytes(ext)


LONG_EXT_FIXED = [b"a" * 260 + b"." + e for e in (b"p\x01f", b"t:t", b"a|b", b"x\x7fy", b'q"q', b"a b", b"\x00z", b"<>", b"*", b"?\x1f",
                                                      b"tar.g\x02", b"e" * 14 + b":")] + \
                 [b"a" * 300 + b".." + b"\x01", b"a" * 255 + b".\x7f", b"a" * 254 + b".p|", b"x/" + b"a" * 270 + b".a\\b", b"a" * 399 + b".|"]


def generate(ctx, budget):
    rng = ctx.rng
    cases = []
    long_ext = LONG_EXT_FIXED + [long_with_extension(rng) for _ in range(60 if ctx.tier == "quick" else 1500)]
    one = [bytes([b]) for b in range(256)]
    if ctx.blocks_ok:
        # the extracted source blocks are cheap to call: every 1- and 2-byte name in the thorough tier, all 1-byte ones
        # and a boundary-directed sample of 2-byte ones in the quick tier
        if ctx.tier == "thorough":
            twos = [bytes([a, b]) for a in range(256) for b in range(256)]
        else:
            special = [0x00, 0x01, 0x1f, 0x20, 0x22, 0x2a, 0x2e, 0x2f, 0x3a, 0x3c, 0x3e, 0x3f, 0x5c, 0x5f, 0x61, 0x7c, 0x7e, 0x7f, 0x80, 0xff]
            twos = [bytes([a, b]) for a in special for b in range(256)] + [bytes([a, b]) for a in range(256) for b in special]
        names = one + twos + TRAVERSAL + long_ext
        for i in range(0, len(names), 64):
            cases.append(Case(ops=[f"nm {n.hex() or '-'}" for n in names[i:i + 64]], tag="extracted-exhaustive"))
    # end-to-end: really create the file / really store the chunk
    e2e = list(one) + list(TRAVERSAL) + long_ext[:len(LONG_EXT_FIXED) + (20 if ctx.tier == "quick" else 200)]
    n_random = max(0, budget - len(e2e))
    alphabet = [0x2e, 0x2f, 0x5c, 0x2e, 0x2f, 0x61, 0x62, 0x3a, 0x2a, 0x00, 0x01, 0x1f, 0x7f, 0x80, 0xff, 0x20, 0x7c, 0x22]
    for _ in range(n_random):
        shape = rng.choice(["two", "two", "mix", "mix", "long", "utf8"])
        if shape == "two":
            e2e.append(bytes([rng.randrange(256), rng.randrange(256)]))
        elif shape == "mix":
            e2e.append(bytes(rng.choice(alphabet) for _ in range(rng.randint(1, 12))))
        elif shape == "long":
            ln = rng.choice([253, 254, 255, 256, 257, 300, 511])
            body = bytearray(rng.choice([0x61, 0x2e, 0xc3]) for _ in range(ln))
            for _ in range(rng.randint(0, 3)):
                body[rng.randrange(ln)] = rng.choice(alphabet)
            e2e.append(bytes(body))
        else:
            e2e.append(bytes(rng.randrange(0x80, 0x100) for _ in range(rng.randint(1, 8))) + rng.choice([b"", b"/..", b"/x", b"\\y"]))
    for i in range(0, len(e2e), 16):
        cases.append(Case(ops=[f"name {n.hex() or '-'}" for n in e2e[i:i + 16]], tag="end-to-end"))
    # dir / name
    dirs = [b"/tmp/x", b"/tmp/x/", b"/tmp/x//", b"/", b"rel", b"rel/", b"", b"a/b/c", b"/a/../b", b".", b"./", b".."]
    joins = []
    for d in dirs:
        for n in [b"ab", b"a", b"report.pdf", b"_", b"x" * 255, b"..", b"../x", b"/abs", b"a/b", b""]:
            joins.append(f"join {d.hex() or '-'} {n.hex() or '-'}")
    for i in range(0, len(joins), 40):
        cases.append(Case(ops=joins[i:i + 40], tag="join"))
    return cases


def nontrivial(r: CaseResult) -> bool:
    """a case counts if at least one name in it was changed or rejected by a sanitiser (output differs from input)."""
    for op, o in zip(r.case.ops, r.impl):
        t = op.split(" ")
        if t[0] in ("name", "nm") and f"cli={t[1]} " not in o + " ":
            return True
        if t[0] == "join":
            return True
    return False


def spec() -> Spec:
    return Spec(
        pid=PID,
        proof_modules=["EphVerif.Proofs.C31"],
        driver="drv_c31",
        harness=harness,
        generate=generate,
        extract=extract,
        nontrivial=nontrivial,
        budget={"quick": 420, "thorough": 6000},
        rule="names: every 1-byte name end-to-end (file really created by `eph fetch` into a scratch directory, chunk really stored by a "
             "Node); every 1- and 2-byte name (quick: 2-byte names with at least one boundary byte) through the sanitising source blocks "
             "extracted from the working tree; traversal/separator/control/reserved/dots/long/non-UTF-8 corpus; 256-400-byte names whose last extension carries control/reserved "
             "bytes, dots or spaces; random mixes; dir/name "
             "joins. distinct = sha256 of the op list; non-trivial = some name was altered or rejected",
        trusted_base=["std::filesystem::path (filename, operator/=, parent_path) and std::iscntrl as modelled",
                      "fake local control daemon (forked child of the harness) serving a fixed payload"],
        assumptions=["POSIX path syntax ('/' is the only separator std::filesystem recognises)",
                     "the C locale is in effect when the CLI calls std::iscntrl (the CLI never calls setlocale)"],
        per_case_timeout=120.0,
        batch=400,
    )


def run(tier, seed, replay=None):
    s = spec()
    blocks = c31_blocks()
    ok = blocks.get("cli") is not None and blocks.get("node_block") is not None

    orig_generate = s.generate

    def gen(ctx, budget):
        ctx.blocks_ok = ok
        if not ok:
            ctx.notes.append("translator gap: sanitising blocks not found in the working tree; exhaustive sweep skipped, end-to-end only")
        return orig_generate(ctx, budget)

    s.generate = gen
    return standard_check(s, tier, seed, replay)
