"""C18 — manifest decoding is total and free of undefined behaviour."""
import base64

from tools.vlib import *
from props import C17 as c17
from props.C17 import M, bs, ref_payload, ref_uri, gen_manifest, NS

PID = "C18"
READY = True
MANIFEST = {
    "level_text": "Lean 4 theorem C18.total over the model of decode_manifest and the file's base64_decode: for EVERY byte string the "
                  "decoder's outcome is a manifest or invalid_argument — never an out-of-bounds read (each unguarded payload[offset++], "
                  "copy_n, read_u64 is a checked read in the model and the guards are proved to make its failure unreachable), never "
                  "undefined behaviour in the seconds->time_point conversion (int64 overflow is an explicit outcome, proved unreachable "
                  "behind the +-9 223 372 036 s range check), never another exception; termination is structural. Tied to the code by "
                  "regenerated constants (header size terms, shard stride 33, array sizes, supported versions, alphabet, prefix) and a "
                  "differential run of the real decode_manifest under ASan+UBSan against the compiled model on valid URIs of all four "
                  "versions with extreme 64-bit expiries, every truncation, base64 corruption and random strings; any sanitizer abort, "
                  "crash or foreign exception is a violation.",
    "level_note": "Trusted: Lean kernel; the hand transcription of the decoder into Lean, in particular WHICH reads are guarded by WHICH "
                  "test (validated only by the differential run and the sanitizers); libstdc++'s chrono conversion being a multiplication "
                  "by 10^9 in int64; allocation failure (bad_alloc / length_error from std::string) is outside the model. The compiled "
                  "code's actual memory accesses are observed by ASan on the generated inputs only — the proof is about the model.",
    "technique": "Lean 4 proof (outcome-typed parser, guards discharge the checked reads) + model/implementation differential correspondence under ASan/UBSan",
}

# expiry fields the clock can hold (|seconds| <= 9223372036, two's complement) ...
U64_IN_RANGE = [0, 1, 2 ** 64 - 1, 2 ** 33, 9223372036, 9223372035, 2 ** 64 - 9223372036, 2 ** 64 - 9223372035, 2 ** 32, 1_700_000_000,
                2 ** 64 - 2 ** 33]
# ... and those it cannot: before the C18 repair each of these aborted under UBSan, so a defective tree
# pays one harness restart per case; the number of such cases per run is therefore capped (see generate)
U64_OVERFLOW = [9223372037, 2 ** 63 - 1, 2 ** 63, 2 ** 63 + 1, 2 ** 64 - 9223372037, 10 ** 10, 2 ** 62, 2 ** 34, 2 ** 64 - 2 ** 34,
                9223372036 + 2 ** 32, 2 ** 64 - 10 ** 10]
B64 = b"ABCDEFGHIJKLMNOPQRSTUVWXYZabcdefghijklmnopqrstuvwxyz0123456789+/"
ODD_BYTES = [0x00, 0x0A, 0x20, 0x2D, 0x5F, 0x3D, 0x3D, 0x3D, 0x7F, 0x80, 0xC3, 0xFF, 0x2C, 0x2E, 0x40]


def dec(b: bytes) -> str:
    return "dec " + bs(b)


def small_manifest(rng) -> M:
    m = gen_manifest(rng, rng.choice(["small", "small", "scheme", "digest", "maporder"]))
    return m


SHAPES = ["valid", "valid", "expiry", "expiry", "truncate-uri", "truncate-payload", "b64-corrupt", "b64-pad",
          "payload-mutate", "payload-mutate", "random", "prefix", "version", "trailing", "big"]


def gen_case(rng, shape=None) -> Case:
    shape = shape or rng.choice(SHAPES)
    ops = []
    if shape == "valid":
        for _ in range(4):
            m = gen_manifest(rng, rng.choice(c17.SHAPES))
            ops.append(dec(ref_uri(m, rng.choice([1, 2, 3, 4, 4, 4]))))
    elif shape == "expiry":
        m = small_manifest(rng)
        for u in rng.sample(U64_IN_RANGE, 5) + [rng.randrange(2 ** 33), 2 ** 64 - 1 - rng.randrange(2 ** 33)]:
            ops.append(dec(ref_uri(m, rng.choice([1, 2, 3, 4, 4]), exp_u64=u)))
    elif shape == "expiry-overflow":
        m = small_manifest(rng)
        for u in [rng.choice(U64_IN_RANGE)] + rng.sample(U64_OVERFLOW, 3) + [rng.randrange(2 ** 64)]:
            ops.append(dec(ref_uri(m, rng.choice([1, 2, 3, 4, 4]), exp_u64=u)))
    elif shape == "truncate-uri":
        u = ref_uri(small_manifest(rng), rng.choice([1, 2, 3, 4, 4, 4]))
        ops = [dec(u[:n]) for n in range(len(u) + 1)]
    elif shape == "truncate-payload":
        p = ref_payload(small_manifest(rng), rng.choice([1, 2, 3, 4, 4, 4]))
        ops = [dec(b"eph://" + base64.b64encode(p[:n])) for n in range(len(p) + 1)]
    elif shape == "b64-corrupt":
        u = bytearray(ref_uri(small_manifest(rng), rng.choice([2, 3, 4, 4])))
        for _ in range(12):
            v = bytearray(u)
            for _ in range(rng.choice([1, 1, 2, 3])):
                v[rng.randrange(6, len(v))] = rng.choice(ODD_BYTES) if rng.random() < 0.7 else rng.randrange(256)
            ops.append(dec(bytes(v)))
    elif shape == "b64-pad":
        # '=' in every position of some group; groups "====", "A===", "=AAA", "AA=A" ...
        p = ref_payload(small_manifest(rng), 4)
        body = bytearray(base64.b64encode(p))
        for _ in range(10):
            v = bytearray(body)
            g = rng.randrange(len(v) // 4) * 4
            pat = rng.choice([b"====", b"A===", b"=AAA", b"AA=A", b"A=AA", b"=A==", b"==A=", b"===A", b"AAA=", b"AA=="])
            v[g:g + 4] = pat
            ops.append(dec(b"eph://" + bytes(v)))
        ops += [dec(b"eph://" + x) for x in (b"", b"=", b"==", b"===", b"====", b"A", b"AA", b"AAA", b"AAAA", b"AA==", b"AAA=")]
    elif shape == "payload-mutate":
        m = small_manifest(rng)
        ver = rng.choice([2, 3, 4, 4, 4])
        p = ref_payload(m, ver)
        for _ in range(12):
            q = bytearray(p)
            for _ in range(rng.choice([1, 1, 2])):
                i = rng.randrange(len(q)) if rng.random() < 0.4 else rng.randrange(85, len(q))
                q[i] = rng.choice([0, 1, 2, 0x7F, 0x80, 0xFE, 0xFF, rng.randrange(256)])
            if rng.random() < 0.3:
                q += bytes(rng.randrange(256) for _ in range(rng.choice([1, 2, 33, 300])))
            ops.append(dec(b"eph://" + base64.b64encode(bytes(q))))
    elif shape == "random":
        for _ in range(10):
            n = rng.choice([0, 1, 3, 4, 8, 87, 88, 89, 120, 500])
            kind = rng.random()
            if kind < 0.3:
                ops.append(dec(bytes(rng.randrange(256) for _ in range(n))))
            elif kind < 0.6:
                ops.append(dec(b"eph://" + bytes(rng.choice(B64) for _ in range(n))))
            else:
                ops.append(dec(b"eph://" + base64.b64encode(bytes(rng.randrange(256) for _ in range(n)))))
    elif shape == "prefix":
        u = ref_uri(small_manifest(rng), 4)
        for pre in (b"", b"e", b"eph:/", b"eph:/ /", b"EPH://", b"eph://eph://", b" eph://", b"http://", b"eph:\\\\"):
            ops.append(dec(pre + u[6:]))
        ops.append(dec(u[6:]))
    elif shape == "version":
        m = small_manifest(rng)
        for v in (0, 5, 6, 127, 128, 255, 3, 1):
            p = bytearray(ref_payload(m, 4))
            p[0] = v
            ops.append(dec(b"eph://" + base64.b64encode(bytes(p))))
    elif shape == "trailing":
        m = small_manifest(rng)
        for v in (1, 2, 3, 4):
            ops.append(dec(ref_uri(m, v) + b"AAAA"))
            ops.append(dec(b"eph://" + base64.b64encode(ref_payload(m, v) + bytes(rng.randrange(256) for _ in range(rng.choice([1, 2, 3, 40]))))))
    else:  # big: counts and lengths at their maxima, then cut short
        m = gen_manifest(rng, rng.choice(["count", "strlen"]))
        p = ref_payload(m, 4)
        ops.append(dec(b"eph://" + base64.b64encode(p)))
        for _ in range(4):
            ops.append(dec(b"eph://" + base64.b64encode(p[:rng.randrange(len(p))])))
    return Case(ops=ops, tag=shape)


def generate(ctx, budget):
    n_over = max(10, budget // 40)
    cases = [gen_case(ctx.rng, "expiry-overflow") for _ in range(n_over)]
    return cases + [gen_case(ctx.rng) for _ in range(budget - n_over)]


def nontrivial(r: CaseResult) -> bool:
    """some input decoded to a manifest, or a structured (derived-from-valid) input was refused"""
    return any(o.startswith("ok ") for o in r.impl) or (r.case.tag.split("/")[0] != "random" and any(o == "throw:invalid_argument" for o in r.impl))


def post(ctx, results):
    n_ok = sum(1 for r in results for o in r.impl if o.startswith("ok "))
    n_inv = sum(1 for r in results for o in r.impl if o == "throw:invalid_argument")
    n_all = sum(len(r.impl) for r in results)
    ctx.hist("decode:ok", n_ok)
    ctx.hist("decode:invalid_argument", n_inv)
    ctx.hist("decode:other", n_all - n_ok - n_inv)


def extract():
    # the decoder model reads its constants from Generated/C17.lean
    return c17.extract()


def spec() -> Spec:
    return Spec(
        pid=PID,
        proof_modules=["EphVerif.Proofs.C18"],
        driver="drv_c18",
        harness=c17.harness,
        generate=generate,
        extract=extract,
        nontrivial=nontrivial,
        post=post,
        budget={"quick": 350, "thorough": 6000},
        search_budget={"quick": 900, "thorough": 6000},
        divergence_is_violation=True,
        rule="cases of 4-400 decode calls: valid URIs of versions 1-4, expiry fields 0, +-1, 2^33, +-9223372035..7, 2^63-1, 2^63, 2^64-1 "
             "(out-of-range ones in a capped number of cases), every truncation of a URI and of a payload, base64 corruption (non-alphabet bytes, '=' in every position), "
             "payload byte mutations aimed at counts and lengths, wrong prefixes and versions, trailing bytes, random strings; distinct = "
             "sha256 of the op list; non-trivial = some input decoded, or an input derived from a valid URI was refused",
        trusted_base=["libstdc++ chrono: seconds -> system_clock::time_point is a multiplication by 10^9 in int64",
                      "ASan/UBSan as observers of the compiled decoder on the generated inputs"],
        assumptions=["memory exhaustion (bad_alloc) is outside the model", "system_clock::duration is int64 nanoseconds (libstdc++)"],
    )


def run(tier, seed, replay=None):
    return standard_check(spec(), tier, seed, replay)
