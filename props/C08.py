"""C08 — SHA-256 and HMAC-SHA256 match the standards for every input."""
import hashlib
import hmac as pyhmac
import re

from tools.vlib import *

PID = "C08"
READY = True
MANIFEST = {
    "level_text": "Lean 4 theorems, for every byte string and every way of cutting it into update() calls (no bound on length or "
                  "number of pieces): the transcribed streaming hasher (state words, 64-byte buffer, 64-bit bit counter, memcpy-chunked "
                  "update, finalize with its one-or-two-block padding, transform) returns the SHA-256 digest defined by a specification "
                  "written from FIPS 180-4 (pad, parse, fold); for every key of any length and every message the transcribed "
                  "HmacSha256::compute equals an RFC 2104 specification, and verify returns true exactly for the 32-byte correct tag. "
                  "The specification's K[64] and H0[8] are proved to be the 32-bit fractions of the cube/square roots of the first "
                  "64/8 primes (integer inequalities), its padding length to be the smallest solution FIPS asks for, and it reproduces the "
                  "FIPS example digests and RFC 4231 cases 1-4,6,7 by kernel evaluation. The model is tied to the code by tables, rotation "
                  "amounts, sizes, pad bytes, the declared widths of bit_len_ / its cast / buffer_size_ (the model truncates to them; obligation: 64 bits) "
                  "and the operators of verify's comparison loop (initial value, accumulation operator, per-byte "
                  "difference operator, final test: interpreted by the model, with the obligation that they are 0, |, ^, == 0) regenerated "
                  "from Sha256.cpp/HmacSha256.cpp on every run (proved equal to the "
                  "specification's) and by a differential run of the real Sha256/HmacSha256 (ASan/UBSan, exact-size buffers) against "
                  "the compiled Lean model, with the Lean specification judging every digest, tag and verdict the implementation returns.",
    "level_note": "Trusted: Lean kernel; my reading of FIPS 180-4 / RFC 2104 into Spec/Sha256.lean and Spec/Hmac.lean (cross-checked by the "
                  "proved example vectors and constant characterisations); hand transcription of update/finalize/transform/compute/verify "
                  "into Lean (checked only by the differential run; std::span/memcpy/std::fill/std::copy semantics assumed); regex "
                  "extraction of constants. FIPS defines SHA-256 for fewer than 2^64 bits; beyond that the theorem compares with a length "
                  "field reduced mod 2^64. Reuse of a Sha256 object after finalize() (state_ is not reset) is outside the property and "
                  "not modelled. Constant-time behaviour of verify and cryptographic strength are not claimed.",
    "technique": "Lean 4 functional-correctness proof (loop invariant over update calls, refinement to a FIPS 180-4 / RFC 2104 specification, "
                 "kernel-evaluated standard vectors) + regenerated constants + model/implementation differential correspondence with Lean monitor",
}

SHA_CPP = "src/crypto/Sha256.cpp"
HMAC_CPP = "src/crypto/HmacSha256.cpp"
HMAC_HPP = "include/ephemeralnet/crypto/HmacSha256.hpp"
SHA_HPP = "include/ephemeralnet/crypto/Sha256.hpp"

K_DEFAULT = [
    0x428a2f98, 0x71374491, 0xb5c0fbcf, 0xe9b5dba5, 0x3956c25b, 0x59f111f1, 0x923f82a4, 0xab1c5ed5,
    0xd807aa98, 0x12835b01, 0x243185be, 0x550c7dc3, 0x72be5d74, 0x80deb1fe, 0x9bdc06a7, 0xc19bf174,
    0xe49b69c1, 0xefbe4786, 0x0fc19dc6, 0x240ca1cc, 0x2de92c6f, 0x4a7484aa, 0x5cb0a9dc, 0x76f988da,
    0x983e5152, 0xa831c66d, 0xb00327c8, 0xbf597fc7, 0xc6e00bf3, 0xd5a79147, 0x06ca6351, 0x14292967,
    0x27b70a85, 0x2e1b2138, 0x4d2c6dfc, 0x53380d13, 0x650a7354, 0x766a0abb, 0x81c2c92e, 0x92722c85,
    0xa2bfe8a1, 0xa81a664b, 0xc24b8b70, 0xc76c51a3, 0xd192e819, 0xd6990624, 0xf40e3585, 0x106aa070,
    0x19a4c116, 0x1e376c08, 0x2748774c, 0x34b0bcb5, 0x391c0cb3, 0x4ed8aa4a, 0x5b9cca4f, 0x682e6ff3,
    0x748f82ee, 0x78a5636f, 0x84c87814, 0x8cc70208, 0x90befffa, 0xa4506ceb, 0xbef9a3f7, 0xc67178f2]
H0_DEFAULT = [0x6a09e667, 0xbb67ae85, 0x3c6ef372, 0xa54ff53a, 0x510e527f, 0x9b05688c, 0x1f83d9ab, 0x5be0cd19]
VERIFY_LOOP_DEFAULT = {"verifyAccInit": 0, "verifyAccOp": "|", "verifyDiffOp": "^", "verifyFinalCmp": "==", "verifyFinalConst": 0}
SIGMA_DEFAULT = {"big_sigma0": (2, 13, 22), "big_sigma1": (6, 11, 25), "small_sigma0": (7, 18, 3), "small_sigma1": (17, 19, 10)}


def harness():
    return build_harness("crypto_sha_h", "harness/crypto_sha_h.cpp", ["src/crypto/Sha256.cpp", "src/crypto/HmacSha256.cpp"],
                         includes_repo_cpp=False)


# --------------------------------------------------------------------------------------
# (T) extraction: K[64], H0[8], rotation/shift amounts, buffer/padding/HMAC constants
# --------------------------------------------------------------------------------------

def _int_list(body: str) -> list[int]:
    return [int(t.rstrip("uUlL"), 0) for t in re.findall(r"0[xX][0-9a-fA-F]+[uUlL]*|\b\d+[uUlL]*\b", body)]


def _lean_u32_list(xs: list[int]) -> str:
    rows = [", ".join(f"0x{x:08x}" for x in xs[i:i + 8]) for i in range(0, len(xs), 8)]
    return "[\n  " + ",\n  ".join(rows) + "]"


def extract():
    gaps: list[str] = []
    try:
        src = strip_comments((REPO / SHA_CPP).read_text(errors="replace"))
    except Exception as ex:
        src = ""
        gaps.append(f"{SHA_CPP}: {ex}")

    m = re.search(r"kRoundConstants\s*=\s*\{([^}]*)\}", src)
    if m:
        ks = _int_list(m.group(1))
    else:
        ks = K_DEFAULT
        gaps.append("kRoundConstants table not found")
    m = re.search(r"Sha256::Sha256\s*\(\s*\)\s*:\s*state_\s*\{([^}]*)\}", src)
    if m:
        h0 = _int_list(m.group(1))
    else:
        h0 = H0_DEFAULT
        gaps.append("Sha256::Sha256 state_ initialiser not found")

    sig = {}
    for name, (n_rot, has_shr) in {"big_sigma0": (3, False), "big_sigma1": (3, False),
                                   "small_sigma0": (2, True), "small_sigma1": (2, True)}.items():
        if has_shr:
            pat = (name + r"\s*\(\s*std::uint32_t\s+x\s*\)\s*noexcept\s*\{\s*return\s+rotr\s*\(\s*x\s*,\s*(\d+)\s*\)\s*\^\s*"
                   r"rotr\s*\(\s*x\s*,\s*(\d+)\s*\)\s*\^\s*\(\s*x\s*>>\s*(\d+)\s*\)\s*;\s*\}")
        else:
            pat = (name + r"\s*\(\s*std::uint32_t\s+x\s*\)\s*noexcept\s*\{\s*return\s+rotr\s*\(\s*x\s*,\s*(\d+)\s*\)\s*\^\s*"
                   r"rotr\s*\(\s*x\s*,\s*(\d+)\s*\)\s*\^\s*rotr\s*\(\s*x\s*,\s*(\d+)\s*\)\s*;\s*\}")
        m = re.search(pat, src)
        if m:
            sig[name] = tuple(int(g) for g in m.groups())
        else:
            sig[name] = SIGMA_DEFAULT[name]
            gaps.append(f"{name}: body is not of the expected rotr^rotr^{'shr' if has_shr else 'rotr'} shape")
    # rotr itself, ch, maj: shape check only (a changed body is a translator gap; the differential run decides)
    shapes = {
        "rotr": r"rotr\s*\(\s*std::uint32_t\s+value\s*,\s*int\s+shift\s*\)\s*noexcept\s*\{\s*return\s*\(\s*value\s*>>\s*shift\s*\)\s*\|\s*\(\s*value\s*<<\s*\(\s*32\s*-\s*shift\s*\)\s*\)\s*;",
        "ch": r"ch\s*\([^)]*\)\s*noexcept\s*\{\s*return\s*\(\s*x\s*&\s*y\s*\)\s*\^\s*\(\s*\(\s*~x\s*\)\s*&\s*z\s*\)\s*;",
        "maj": r"maj\s*\([^)]*\)\s*noexcept\s*\{\s*return\s*\(\s*x\s*&\s*y\s*\)\s*\^\s*\(\s*x\s*&\s*z\s*\)\s*\^\s*\(\s*y\s*&\s*z\s*\)\s*;",
    }
    for name, pat in shapes.items():
        if not re.search(pat, src):
            gaps.append(f"{name}: body no longer has the transcribed shape")

    vals, g2 = extract_consts([
        Const("blockSize", SHA_CPP, r"if\s*\(\s*buffer_size_\s*==\s*(\d+)\s*\)", default=64),
        Const("spaceBase", SHA_CPP, r"static_cast<std::size_t>\s*\(\s*(\d+)\s*-\s*buffer_size_\s*\)", default=64),
        Const("terminator", SHA_CPP, r"buffer_\s*\[\s*buffer_size_\+\+\s*\]\s*=\s*(0x[0-9a-fA-F]+|\d+)\s*;", default=0x80),
        Const("padThreshold", SHA_CPP, r"if\s*\(\s*buffer_size_\s*>\s*(\d+)\s*\)", default=56),
        Const("lengthOffset", SHA_CPP, r"buffer_\.begin\(\)\s*\+\s*(\d+)\s*,\s*0\s*\)\s*;\s*buffer_size_\s*=\s*\d+", default=56),
        Const("lengthOffset2", SHA_CPP, r"buffer_\.begin\(\)\s*\+\s*\d+\s*,\s*0\s*\)\s*;\s*buffer_size_\s*=\s*(\d+)", default=56),
        Const("lengthTopByte", SHA_CPP, r"for\s*\(\s*int\s+i\s*=\s*(\d+)\s*;\s*i\s*>=\s*0\s*;\s*--i\s*\)", default=7),
        Const("bitsPerByte", SHA_CPP, r"bit_len_\s*\+=\s*static_cast<std::uint64_t>\s*\(\s*data\.size\(\)\s*\)\s*\*\s*(\d+)\s*;", default=8),
        Const("hmacBlockSize", HMAC_HPP, r"kBlockSize\s*=\s*([^;]+);", default=64),
        Const("hmacDigestSize", HMAC_HPP, r"kDigestSize\s*=\s*([^;]+);", default=32),
        Const("opad", HMAC_CPP, r"o_key_pad\s*\[\s*i\s*\]\s*=\s*static_cast<std::uint8_t>\s*\(\s*key_block\s*\[\s*i\s*\]\s*\^\s*(0x[0-9a-fA-F]+|\d+)\s*\)", default=0x5c),
        Const("ipad", HMAC_CPP, r"i_key_pad\s*\[\s*i\s*\]\s*=\s*static_cast<std::uint8_t>\s*\(\s*key_block\s*\[\s*i\s*\]\s*\^\s*(0x[0-9a-fA-F]+|\d+)\s*\)", default=0x36),
    ])
    gaps += g2
    try:
        hsrc = strip_comments((REPO / HMAC_CPP).read_text(errors="replace"))
    except Exception as ex:
        hsrc = ""
        gaps.append(f"{HMAC_CPP}: {ex}")
    for what, pat in {
        "compute: `key.size() > kBlockSize` long-key test": r"if\s*\(\s*key\.size\(\)\s*>\s*kBlockSize\s*\)",
        "verify: `mac.size() != kDigestSize` length check": r"if\s*\(\s*mac\.size\(\)\s*!=\s*kDigestSize\s*\)\s*\{\s*return\s+false\s*;",
    }.items():
        if not re.search(pat, hsrc):
            gaps.append(f"{what} no longer has the transcribed shape")

    body = []
    body.append("/-- `kRoundConstants` of src/crypto/Sha256.cpp -/")
    body.append(f"def kRoundConstants : List UInt32 := {_lean_u32_list(ks)}")
    body.append("")
    body.append("/-- `state_{…}` initialiser of `Sha256::Sha256()` -/")
    body.append(f"def initState : List UInt32 := {_lean_u32_list(h0)}")
    body.append("")
    body.append("/-- rotation / shift amounts of `big_sigma0/1` (rotr, rotr, rotr) and `small_sigma0/1` (rotr, rotr, >>) -/")
    for name in ("big_sigma0", "big_sigma1", "small_sigma0", "small_sigma1"):
        a, b, c = sig[name]
        body.append(f"def {name} : UInt32 × UInt32 × UInt32 := ({a}, {b}, {c})")
    body.append("")
    body.append(lean_consts(vals))
    body.append("")
    # the comparison loop of HmacSha256::verify: initial value, accumulation operator, per-byte difference operator,
    # final comparison.  Strings, interpreted by Model/Hmac.lean (`accOp`, `diffOp`, `finalTest`).
    vloop = dict(VERIFY_LOOP_DEFAULT)
    m = re.search(r"std::uint8_t\s+diff\s*=\s*(0[xX][0-9a-fA-F]+|\d+)\s*;", hsrc)
    if m:
        vloop["verifyAccInit"] = int(m.group(1), 0)
    else:
        gaps.append("verify: `std::uint8_t diff = 0;` not found")
    m = re.search(r"\bdiff\s*(\||\+|-|\^|&|\*|)=\s*static_cast<std::uint8_t>\s*\(\s*expected\s*\[\s*i\s*\]\s*(\^|\||&|\+|-)\s*"
                  r"mac\s*\[\s*i\s*\]\s*\)\s*;", hsrc)
    if m:
        vloop["verifyAccOp"], vloop["verifyDiffOp"] = m.group(1), m.group(2)
    else:
        gaps.append("verify: accumulation statement `diff <op>= static_cast<std::uint8_t>(expected[i] <op> mac[i]);` not found")
    m = re.search(r"return\s+diff\s*(==|!=|<=|>=|<|>)\s*(0[xX][0-9a-fA-F]+|\d+)\s*;", hsrc)
    if m:
        vloop["verifyFinalCmp"], vloop["verifyFinalConst"] = m.group(1), int(m.group(2), 0)
    else:
        gaps.append("verify: `return diff == 0;` not found")
    # widths of the integers that carry a length or a count (header members, the cast in update)
    try:
        hpp = strip_comments((REPO / SHA_HPP).read_text(errors="replace"))
    except Exception as ex:
        hpp = ""
        gaps.append(f"{SHA_HPP}: {ex}")

    def width_of(ty):
        ty = ty.replace("std::", "").strip()
        m2 = re.fullmatch(r"u?int(?:_fast|_least)?(\d+)_t", ty)
        if m2:
            return int(m2.group(1))
        return {"size_t": 64, "unsigned long long": 64, "unsigned long": 64, "unsigned": 32, "unsigned int": 32, "int": 31,
                "unsigned short": 16, "unsigned char": 8}.get(ty)

    widths = {"bitLenBits": 64, "bitLenCastBits": 64, "bufferSizeBits": 64}
    for name, text, pat in [
        ("bitLenBits", hpp, r"([A-Za-z_:][\w:]*(?:\s+(?:long|int|short|char))*)\s+bit_len_\s*(?:\{[^}]*\}|=\s*[^;]+)?\s*;"),
        ("bufferSizeBits", hpp, r"([A-Za-z_:][\w:]*(?:\s+(?:long|int|short|char))*)\s+buffer_size_\s*(?:\{[^}]*\}|=\s*[^;]+)?\s*;"),
        ("bitLenCastBits", src, r"bit_len_\s*\+=\s*static_cast<\s*([^>]+?)\s*>\s*\(\s*data\.size\(\)\s*\)"),
    ]:
        m = re.search(pat, text)
        w = width_of(m.group(1)) if m else None
        if w is None:
            gaps.append(f"{name}: declaration/cast not found or type not understood ({m.group(1) if m else 'no match'})")
        else:
            widths[name] = w
    body.append("/-- widths in bits: `bit_len_` member (Sha256.hpp), the `static_cast` of `data.size()` in `update`, `buffer_size_` member -/")
    for k, v in widths.items():
        body.append(f"def {k} : Nat := {v}")
    body.append("")
    body.append("/-- `HmacSha256::verify`: `std::uint8_t diff = <init>; for (...) diff <acc>= uint8(expected[i] <diff> mac[i]); return diff <cmp> <const>;` -/")
    body.append(f"def verifyAccInit : Nat := {vloop['verifyAccInit']}")
    body.append(f"def verifyAccOp : String := \"{vloop['verifyAccOp']}\"")
    body.append(f"def verifyDiffOp : String := \"{vloop['verifyDiffOp']}\"")
    body.append(f"def verifyFinalCmp : String := \"{vloop['verifyFinalCmp']}\"")
    body.append(f"def verifyFinalConst : Nat := {vloop['verifyFinalConst']}")
    write_generated(PID, "\n".join(body))
    return gaps


def strip_comments(text: str) -> str:
    text = re.sub(r"/\*.*?\*/", " ", text, flags=re.S)
    return re.sub(r"//[^\n]*", " ", text)


# --------------------------------------------------------------------------------------
# generator
# --------------------------------------------------------------------------------------

BOUNDARY = [55, 56, 57, 63, 64, 65, 119, 120, 121, 127, 128, 129]


def hx(b: bytes) -> str:
    return b.hex() if b else "-"


def rbytes(rng, n: int) -> bytes:
    return bytes(rng.getrandbits(8) for _ in range(n))


def splits_str(points) -> str:
    return ",".join(str(p) for p in points) if points else "-"


def rand_splits(rng, n: int, k: int) -> list[int]:
    """k split points in 0..n, ascending; repeated points (empty update calls) allowed"""
    return sorted(rng.randint(0, n) for _ in range(k))


def expand_pattern(n: int, seed: int) -> bytes:
    """the `len:seed` pattern — same LCG in harness/crypto_sha_h.cpp and lean/Driver/C08.lean"""
    out = bytearray(n)
    x = seed & 0xFFFFFFFF
    for i in range(n):
        x = (x * 1664525 + 1013904223) & 0xFFFFFFFF
        out[i] = x >> 24
    return bytes(out)


def case_sha_len(rng, n: int) -> Case:
    msg = rbytes(rng, n)
    ops = [f"sha {hx(msg)} -"]
    if n > 0:
        ops.append(f"sha {hx(msg)} {splits_str(rand_splits(rng, n, 1))}")
    ops.append(f"sha {hx(msg)} {splits_str(rand_splits(rng, n, rng.choice([2, 3])))}")
    ops.append(f"sha {hx(msg)} {splits_str(rand_splits(rng, n, rng.randint(4, 9)))}")
    if n >= 64:
        ops.append(f"sha {hx(msg)} {splits_str(list(range(64, n + 1, 64)))}")
        off = rng.randint(1, 63)
        ops.append(f"sha {hx(msg)} {splits_str(list(range(off, n + 1, 64)))}")
    if 0 < n <= 80:
        ops.append(f"sha {hx(msg)} {splits_str(list(range(1, n)))}")          # byte by byte
    return Case(ops=ops, tag="sha-len")


def case_sha_boundary(rng, n: int) -> Case:
    """every single split point of a boundary-length message, and the splits at 55/56/63/64"""
    msg = rbytes(rng, n)
    ops = [f"sha {hx(msg)} {p}" for p in range(0, n + 1)]
    ops.append(f"sha {hx(msg)} {splits_str([p for p in (55, 56, 63, 64, 119, 120, 127, 128) if p <= n])}")
    return Case(ops=ops, tag="sha-boundary")


def case_sha_big(rng, n: int) -> Case:
    seed = rng.getrandbits(31)
    k = rng.choice([0, 1, 3, 17])
    pts = rand_splits(rng, n, k)
    if rng.random() < 0.5:
        pts = sorted(set(pts) | {rng.choice([55, 56, 63, 64, 65]), n - rng.choice([0, 1, 8, 9, 64])})
    return Case(ops=[f"sha {n}:{seed} {splits_str(pts)}"], tag="sha-big")


def case_hmac(rng, klen: int) -> Case:
    key = rbytes(rng, klen)
    ops = []
    for dlen in (rng.choice([0, 1, 31, 32]), rng.choice(BOUNDARY), rng.randint(0, 300)):
        ops.append(f"hmac {hx(key)} {hx(rbytes(rng, dlen))}")
    return Case(ops=ops, tag="hmac-keylen")


def case_verify(rng, thorough: bool) -> Case:
    key = rbytes(rng, rng.choice([0, 1, 16, 32, 63, 64, 65, 100, rng.randint(0, 200)]))
    data = rbytes(rng, rng.choice([0, 1, 55, 56, 64, rng.randint(0, 200)]))
    tag = pyhmac.new(key, data, hashlib.sha256).digest()
    ops = [f"hmac {hx(key)} {hx(data)}", f"verify {hx(key)} {hx(data)} {hx(tag)}"]
    for n in list(range(33, 41)) + list(range(0, 33)):   # every tag length 0..40 (long ones first: a short one may crash a
                                                         # verify that lost its length check, which ends the case)
        if n <= 32:
            t = tag[:n]
        else:
            t = tag + (rbytes(rng, n - 32) if rng.random() < 0.5 else bytes(n - 32))
        if n != 32:
            ops.append(f"verify {hx(key)} {hx(data)} {hx(t)}")
    bits = range(256) if thorough else sorted(rng.sample(range(256), 40) + [0, 7, 8, 248, 255])
    for b in bits:                                       # single-bit flips
        t = bytearray(tag)
        t[b // 8] ^= 1 << (b % 8)
        ops.append(f"verify {hx(key)} {hx(data)} {hx(bytes(t))}")
    ops.append(f"verify {hx(key)} {hx(data)} {hx(rbytes(rng, 32))}")
    for t in forged_tags(rng, key, data, tag, thorough):
        ops.append(f"verify {hx(key)} {hx(data)} {hx(t)}")
    return Case(ops=ops, tag="verify")


def xor_at(tag: bytes, diffs: dict) -> bytes:
    t = bytearray(tag)
    for i, d in diffs.items():
        t[i] ^= d & 0xFF
    return bytes(t)


def forged_tags(rng, key: bytes, data: bytes, tag: bytes, thorough: bool) -> list[bytes]:
    """32-byte wrong tags built against comparison loops that are not `diff |= e ^ m; diff == 0`:
    accumulators that add / subtract / xor / and / overwrite, loops that skip a prefix or a suffix,
    comparisons that ignore order.  Every one of them differs from `tag` (asserted)."""
    out: list[bytes] = []
    pos = lambda k: rng.sample(range(32), k)
    # XOR differences whose *sum* is 0 mod 256 (`+=`, `-=` accumulators)
    for _ in range(4 if not thorough else 12):
        i, j = pos(2)
        out.append(xor_at(tag, {i: 0x80, j: 0x80}))
        d = rng.randint(1, 255)
        out.append(xor_at(tag, {i: d, j: 256 - d}))
        a, b, c, e = pos(4)
        out.append(xor_at(tag, {a: 0x40, b: 0x40, c: 0x40, e: 0x40}))
        out.append(xor_at(tag, {a: 0xFF, b: 0x01}))
        d1, d2 = rng.randint(1, 255), rng.randint(1, 255)
        d3 = (-(d1 + d2)) % 256
        if d3:
            out.append(xor_at(tag, {a: d1, b: d2, c: d3}))
    out.append(xor_at(tag, {0: 0x80, 31: 0x80}))
    out.append(xor_at(tag, {0: 0x80, 1: 0x80}))
    out.append(xor_at(tag, {i: 0x08 for i in range(32)}))            # 32 * 8   = 256
    out.append(xor_at(tag, {i: 0x80 for i in range(32)}))            # 32 * 128 = 4096
    out.append(xor_at(tag, {i: 0x10 for i in range(0, 32, 2)}))      # 16 * 16  = 256
    out.append(xor_at(tag, {i: 0x20 for i in pos(8)}))               # 8 * 32   = 256
    # XOR differences that *xor* to 0 (`^=` accumulator): the same difference in an even number of bytes
    for _ in range(3 if not thorough else 8):
        i, j = pos(2)
        d = rng.randint(1, 255)
        out.append(xor_at(tag, {i: d, j: d}))
        a, b, c, e = pos(4)
        d1, d2, d3 = rng.randint(1, 255), rng.randint(1, 255), rng.randint(1, 255)
        if d1 ^ d2 ^ d3:
            out.append(xor_at(tag, {a: d1, b: d2, c: d3, e: d1 ^ d2 ^ d3}))
    # arithmetic differences summing to 0 (`diff += e - m`): +1 here, -1 there; all bytes +1 / -1
    for _ in range(3):
        i, j = pos(2)
        t = bytearray(tag)
        t[i] = (t[i] + 1) & 0xFF
        t[j] = (t[j] - 1) & 0xFF
        out.append(bytes(t))
    out.append(bytes((b + 1) & 0xFF for b in tag))
    out.append(bytes((b - 1) & 0xFF for b in tag))
    out.append(bytes(b ^ 0xFF for b in tag))
    # same multiset of bytes: swaps, rotation, reversal (order-insensitive comparisons, sums of bytes)
    for _ in range(3):
        i, j = pos(2)
        t = bytearray(tag)
        t[i], t[j] = t[j], t[i]
        out.append(bytes(t))
    out.append(tag[1:] + tag[:1])
    out.append(tag[-1:] + tag[:-1])
    out.append(tag[::-1])
    out.append(tag[16:] + tag[:16])
    # equal in the first / last k bytes only (loops that stop early, start late, or overwrite `diff`)
    for k in ([1, 8, 16, 24, 31] if not thorough else range(1, 32)):
        rest = bytes(b ^ rng.randint(1, 255) for b in tag[k:])
        out.append(tag[:k] + rest)
        rest = bytes(b ^ rng.randint(1, 255) for b in tag[:32 - k])
        out.append(rest + tag[32 - k:])
    out.append(xor_at(tag, {i: rng.randint(1, 255) for i in range(1, 31)}))   # only the two end bytes agree
    # the correct tag of something else
    out.append(pyhmac.new(key + b"x", data, hashlib.sha256).digest())
    out.append(pyhmac.new(key, data + b"x", hashlib.sha256).digest())
    out.append(pyhmac.new(key[:-1], data, hashlib.sha256).digest() if key else pyhmac.new(b"\0", data, hashlib.sha256).digest())
    out.append(pyhmac.new(data, key, hashlib.sha256).digest())
    out.append(hashlib.sha256(key + data).digest())
    out.append(bytes(32))
    out.append(b"\xff" * 32)
    out = [t for t in out if t != tag]          # (a swap of two equal bytes, key == data, … give the tag itself)
    assert all(len(t) == 32 for t in out)
    return out


def case_vectors() -> list[Case]:
    """FIPS 180-4 / RFC 4231 vectors as ops (the expected values are *proved* for the spec in Proofs/C08.lean)"""
    fips = [b"abc", b"", b"abcdbcdecdefdefgefghfghighijhijkijkljklmklmnlmnomnopnopq",
            b"abcdefghbcdefghicdefghijdefghijkefghijklfghijklmghijklmnhijklmnoijklmnopjklmnopqklmnopqrlmnopqrsmnopqrstnopqrstu"]
    ops = [f"sha {hx(m)} -" for m in fips]
    rfc = [(b"\x0b" * 20, b"Hi There"), (b"Jefe", b"what do ya want for nothing?"), (b"\xaa" * 20, b"\xdd" * 50),
           (bytes(range(1, 26)), b"\xcd" * 50), (b"\xaa" * 131, b"Test Using Larger Than Block-Size Key - Hash Key First"),
           (b"\xaa" * 131, b"This is a test using a larger than block-size key and a larger than block-size data. "
                           b"The key needs to be hashed before being used by the HMAC algorithm.")]
    ops += [f"hmac {hx(k)} {hx(d)}" for k, d in rfc]
    return [Case(ops=ops, tag="vectors")]


def generate(ctx, budget):
    rng = ctx.rng
    thorough = ctx.tier == "thorough"
    cases = case_vectors()
    for n in range(0, 301):
        cases.append(case_sha_len(rng, n))
    for n in BOUNDARY:
        cases.append(case_sha_boundary(rng, n))
    for klen in range(0, 201):
        cases.append(case_hmac(rng, klen))
    for _ in range(12 if not thorough else 60):
        cases.append(case_verify(rng, thorough))
    bigs = [65536, 1 << 20, rng.randint(65536, 1 << 20)] if not thorough else \
        [65536, 65537, 1 << 20, (1 << 20) - 9, (1 << 20) + 55] + [rng.randint(65536, 1 << 20) for _ in range(7)]
    for n in bigs:
        cases.append(case_sha_big(rng, n))
    # random remainder up to the budget
    while len(cases) < budget:
        r = rng.random()
        if r < 0.45:
            n = rng.choice(BOUNDARY + [rng.randint(0, 300), rng.randint(0, 2000), rng.randint(0, 70)])
            cases.append(case_sha_len(rng, n))
        elif r < 0.55:
            cases.append(case_sha_boundary(rng, rng.choice(BOUNDARY + [rng.randint(1, 200)])))
        elif r < 0.90:
            cases.append(case_hmac(rng, rng.choice([0, 63, 64, 65, 128, rng.randint(0, 200), rng.randint(0, 1000)])))
        else:
            cases.append(case_verify(rng, False))
    return cases


def nontrivial(r: CaseResult) -> bool:
    """every case computes at least one digest/tag or one accept and one refusal; a case counts when the
    implementation produced a well-formed answer for every op"""
    if not r.impl:
        return False
    ok = all(re.fullmatch(r"[0-9a-f]{64}|true|false", o) for o in r.impl)
    if r.case.tag.startswith("verify"):
        return ok and "true" in r.impl and "false" in r.impl
    return ok


# --------------------------------------------------------------------------------------
# enlarged search only: lengths at which a narrowed length counter shows (>= 2^29 bytes)
# --------------------------------------------------------------------------------------

LONG_RULE = ("message = the 1 MiB block expand_pattern(2^20, seed) (LCG x <- x*1664525+1013904223 mod 2^32, byte = x>>24) repeated "
             "and cut to <len> bytes; harness op `shagen <len> <seed> <chunk>` streams it into one Sha256 object in <chunk>-byte "
             "update() calls; reference = Python hashlib.sha256 fed the same bytes")
LONG_NOTE = ("At this size the Lean specification Spec.sha256 cannot be evaluated (List UInt8: >= 12 GB, minutes), so the reference "
             "digest is hashlib's SHA-256 standing in for it, used only to exhibit a failing input. That the property is no longer "
             "shown comes from the broken proof obligation (see 'theorem'), not from this comparison.")
LONG_SIG = "sha-digest-long-message"


def long_reference(n: int, seed: int) -> str:
    block = expand_pattern(1 << 20, seed)
    h = hashlib.sha256()
    full, rest = divmod(n, len(block))
    for _ in range(full):
        h.update(block)
    h.update(block[:rest])
    return h.hexdigest()


def long_run(hbin, work, n: int, seed: int, chunk: int):
    """-> (op, impl line, reference digest)"""
    op = f"shagen {n} {seed} {chunk}"
    res = run_harness(hbin, [Case(ops=[op], cid="long")], work, timeout=600.0, per_case_timeout=600.0)
    lines, crashed = res.get("long", ([], "not-run"))
    impl = lines[0] if lines else "crash:" + (crashed or "no output").split("\n", 1)[0]
    return op, impl, long_reference(n, seed)


def long_search(ctx, why: str) -> None:
    """Runs only when an obligation or the correspondence is already broken."""
    try:
        vals = dict(re.findall(r"def (bitLenBits|bitLenCastBits) : Nat := (\d+)",
                               (LEAN / "EphVerif" / "Generated" / "C08.lean").read_text()))
        w, wc = int(vals.get("bitLenBits", 64)), int(vals.get("bitLenCastBits", 64))
        hbin = harness()
    except Exception as ex:
        ctx.notes.append(f"long-message search not run: {ex}")
        return
    mib = 1 << 20
    plan = []                                   # (length, chunk)
    for width, single in ((w, False), (wc, True)):
        if 3 < width < 64 and (1 << (width - 3)) <= (1 << 31):
            n = 1 << (width - 3)
            plan += [(n, n if single else mib), (n + 1, n + 1 if single else mib)]
    plan += [(1 << 29, mib), ((1 << 29) + 1, mib)]
    seen, t0 = set(), time.time()
    for n, chunk in sorted(set(plan)):
        if (n, chunk) in seen or time.time() - t0 > 240:
            continue
        seen.add((n, chunk))
        seed = ctx.rng.getrandbits(31)
        op, impl, ref = long_run(hbin, ctx.work, n, seed, chunk)
        ctx.hist("long-search:" + ("agree" if impl == ref else "differ"))
        ctx.coverage["evaluations"] += 1
        if impl != ref:
            thm = []
            try:                                  # name what no longer checks (the failed module is re-attempted: seconds)
                ok, log = lake_build(["EphVerif.Proofs.C08"])
                thm = [] if ok else failing_theorems(log, [])
            except Exception:
                pass
            ctx.report(LONG_SIG, "failing-input",
                       {"ops": [op], "impl_out": [impl], "reference_out": [ref], "model_out": ["(not evaluated at this size)"],
                        "generator_rule": LONG_RULE, "length_bytes": n, "seed_of_message": seed, "update_chunk_bytes": chunk,
                        "reference": "python hashlib.sha256 (stand-in for the Lean spec Spec.Sha256 at this size)",
                        "note": LONG_NOTE, "search_trigger": why, "theorem": thm,
                        "monitor": f"op 0: digest of the {n}-byte generated message is {impl}, SHA-256 of those bytes is {ref}"},
                       found_input=True)
            return
    ctx.notes.append(f"long-message search ({why}): {len(seen)} generated messages up to {max(n for n, _ in seen)} bytes agree with hashlib")


def long_replay(path: str) -> int:
    doc = json.loads(Path(path).read_text())
    hbin = harness()
    work = BUILD / "tmp" / f"{PID}-replay-{os.getpid()}"
    work.mkdir(parents=True, exist_ok=True)
    try:
        op, impl, ref = long_run(hbin, work, int(doc["length_bytes"]), int(doc["seed_of_message"]), int(doc["update_chunk_bytes"]))
    finally:
        shutil.rmtree(work, ignore_errors=True)
    print(f"  0 op    {op}\n    rule  {LONG_RULE}\n    impl  {impl}\n    ref   {ref}   (hashlib.sha256, standing in for Spec.Sha256 at this size)")
    bad = impl != ref
    print("REPRODUCED" if bad else "not reproduced")
    return 1 if bad else 0


def post(ctx, results):
    """outcome histogram: message-length classes, key-length classes, verify outcomes"""
    broken = ctx.coverage.get("discharged", 0) < ctx.coverage.get("obligations", 0)
    diverged = any(r.diverges for r in results)
    if (broken or diverged) and not any(v["found_input"] for v in ctx.violations):
        long_search(ctx, "broken proof obligation" if broken else "model/implementation divergence")
    for r in results:
        for op, o in zip(r.case.ops, r.impl):
            t = op.split(" ")
            if t[0] == "sha":
                n = int(t[1].split(":")[0]) if ":" in t[1] else (0 if t[1] == "-" else len(t[1]) // 2)
                tail = n % 64
                ctx.hist("sha:tail<55" if tail < 55 else "sha:tail=55" if tail == 55 else "sha:tail56-63")
                ctx.hist("sha:updates=1" if t[2] == "-" else "sha:updates>1")
            elif t[0] == "hmac":
                k = 0 if t[1] == "-" else len(t[1]) // 2
                ctx.hist("hmac:key<=64" if k <= 64 else "hmac:key>64")
            elif t[0] == "verify":
                n = 0 if t[3] == "-" else len(t[3]) // 2
                ctx.hist(f"verify:{o}:len{'=' if n == 32 else '!='}32")


def spec() -> Spec:
    return Spec(
        pid=PID,
        proof_modules=["EphVerif.Proofs.C08", "EphVerif.Proofs.C08Vectors", "EphVerif.Proofs.C08VectorsHmac", "EphVerif.Proofs.C08VectorsHmacLong"],
        driver="drv_c08",
        harness=harness,
        generate=generate,
        extract=extract,
        nontrivial=nontrivial,
        post=post,
        budget={"quick": 700, "thorough": 12000},
        search_budget={"quick": 1500, "thorough": 20000},
        divergence_is_violation=True,
        per_case_timeout=60.0,
        batch=4000,
        rule="sha: every message length 0..300 (random content) fed unsplit, at 1, 2-3 and 4-9 random cut points (empty pieces "
             "included), at every 64-byte boundary, at a shifted 64-stride and byte by byte; every single cut point of messages of "
             "length 55/56/57/63/64/65/119/120/121/127/128/129; 64 KiB..1 MiB pattern messages with random cuts; hmac: every key "
             "length 0..200 (incl. 63/64/65) x three data lengths, longer keys at random; verify: the correct tag, its prefixes and "
             "extensions at every length 0..40, single-bit flips, a random tag, and forged 32-byte tags aimed at comparison loops that are "
             "not an OR of XOR differences: byte differences summing to 0 mod 256 (2x0x80, 4x0x40, 0xff+0x01, d+(256-d), triples, 32x0x08, "
             "16x0x10, 8x0x20), xor-ing to 0, +1/-1 pairs, all bytes +1/-1/complemented, byte swaps, rotations, reversal, tags equal to the "
             "correct one in only the first/last k bytes, the correct tags of another key / message / swapped arguments; FIPS/RFC 4231 vectors as ops. "
             "distinct = sha256 of the op list; non-trivial = the implementation answered every op with a well-formed digest/tag/bool "
             "(verify cases: at least one accept and one refusal)",
        trusted_base=["reading of FIPS 180-4 and RFC 2104 into Spec/Sha256.lean and Spec/Hmac.lean (supported by proved example vectors and constant characterisations)",
                      "std::span / memcpy / std::fill / std::copy semantics; regex extraction of the tables and amounts"],
        assumptions=["a Sha256 object is not reused after finalize() (state_ is not reset there; no caller does)",
                     "messages shorter than 2^61 bytes for the right-hand side to be the FIPS-defined value (the model/spec equality itself has no bound)"],
    )


def run(tier, seed, replay=None):
    if replay and replay.endswith(".json"):
        try:
            if json.loads(Path(replay).read_text()).get("signature") == LONG_SIG:
                return long_replay(replay)
        except (OSError, ValueError):
            pass
    return standard_check(spec(), tier, seed, replay)
