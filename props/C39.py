"""C39 — key rotation never leaves the two ends of a session on different keys (KNOWN FINDING: it does)."""
import re

from tools.vlib import *

PID = "C39"
READY = True
MANIFEST = {
    "level_text": "KNOWN FINDING C39-1: the property does not hold for the code as it is; the check confirms it on every run and exits 0 "
                  "while reporting any other way the property could be broken. Proved in Lean 4 about a model of KeyManager "
                  "(register_session_with_material, rotate_if_needed, derive_key) and of Node's use of it (perform_handshake, tick -> "
                  "rotate_session_keys -> register_peer_key, send_secure), modelled as it is: (counterexample) after a mutual handshake on "
                  "one secret with both sessions up, node A ticking when its rotation falls due and node B one nanosecond later leaves both "
                  "ends rotated (counter 1), both sessions open, and two different keys — the two HMAC-SHA256 values are computed by the "
                  "Lean kernel from the RFC 2104/FIPS 180-4 specification and equal what the real nodes produce — so a message signed by "
                  "one end is rejected by the other; (partial_lockstep) if every tick reaches both ends with identical clock readings the "
                  "ends stay in step for ever, for any HMAC; (partial_not_due) a tick before the interval has elapsed changes nothing; "
                  "(partial_divergence / partial_one_sided) from a state in step, rotations at two different int64 clock readings, or at "
                  "one end only, give equal keys only if HMAC collides on two distinct inputs (the 16-byte counter||timestamp input is "
                  "proved injective). Tied to the code by regenerated constants and structure flags (interval clamp, the `<` of "
                  "rotate_if_needed, the byte layout of derive_key's input, 'rotation uses the local steady clock', 'rotation only "
                  "re-registers the key') and by a differential run of two real Nodes under a virtual clock against the compiled Lean "
                  "model, with the Lean specification (open at both ends => same key) judging every observation.",
    "level_note": "The finding: rotated key = HMAC(secret, counter || the rotating node's own steady-clock nanoseconds), rotation is driven "
                  "by each node's own tick, and Node::rotate_session_keys neither tears the session down nor tells the peer; two ends "
                  "therefore practically never derive the same key (steady clocks of two machines do not even share an epoch). The repair "
                  "needs a rekey exchange or an agreed derivation plus a changeover rule (see notes/C39.md): not small, so nothing is "
                  "patched and the model follows the code as it is. Trusted: Lean kernel; the transcription of the anchored functions "
                  "(checked by the differential run: keys, counters, last-rotation instants and session keys of both real nodes agree with "
                  "the model on every op; 6 hand-made mutants noticed, 4 of them with a concrete replay); HMAC-SHA256 taken at its specification (C08); the virtual clock "
                  "(link-time interposition; both nodes read one counter, a clock offset between machines is an `adv` between their "
                  "ticks); sessions are socketpair ends planted as SessionManager::Session objects without reader threads, the "
                  "receiving side of a message (transport decrypt, decode_signed) is replayed by the harness with the receiver's keys.",
    "technique": "Lean 4: kernel-evaluated counterexample + invariant/injectivity theorems about a model of the code as it is; regenerated "
                 "constants/flags; differential run of two real Nodes under a virtual clock with a Lean monitor; known-finding signature",
}

KM_CPP = "src/network/KeyManager.cpp"
NODE_CPP = "src/core/Node.cpp"
CONFIG_HPP = "include/ephemeralnet/Config.hpp"
S = 1_000_000_000


def harness():
    srcs = [s for s in ALL_CORE_SOURCES if s != "src/core/Node.cpp"]
    return build_harness("rotation_h", "harness/rotation_h.cpp", srcs, libs=["-lcurl", "-lpthread"], vclock=True)


# --------------------------------------------------------------------------------------
# (T) extraction
# --------------------------------------------------------------------------------------

def _strip(text: str) -> str:
    text = re.sub(r"/\*.*?\*/", " ", text, flags=re.S)
    return re.sub(r"//[^\n]*", " ", text)


def _body(src: str, signature_re: str) -> str:
    m = re.search(signature_re, src)
    if not m:
        return ""
    end = src.find("\n}\n", m.end())
    return src[m.start(): end if end > 0 else len(src)]


def _chrono(expr: str) -> int:
    return eval_cxx_int(expr.replace("{", "(").replace("}", ")"))


OPS = {">": ">", ">=": "≥", "<": "<", "<=": "≤", "==": "=", "!=": "≠"}


def extract():
    gaps: list[str] = []
    try:
        km = _strip((REPO / KM_CPP).read_text(errors="replace"))
        node = _strip((REPO / NODE_CPP).read_text(errors="replace"))
        cfg = _strip((REPO / CONFIG_HPP).read_text(errors="replace"))
    except Exception as ex:
        km = node = cfg = ""
        gaps.append(f"source not readable: {ex}")

    def const(src, pat, default, what):
        m = re.search(pat, src)
        if not m:
            gaps.append(f"{what} not found")
            return default
        try:
            return _chrono(m.group(1))
        except Exception as ex:
            gaps.append(f"{what}: {ex}")
            return default

    kmin = const(node, r"kMinKeyRotationInterval\s*\{(.*?)\}\s*;", 5, "kMinKeyRotationInterval")
    kmax = const(node, r"kMaxKeyRotationInterval\s*\{(.*?)\}\s*;", 3600, "kMaxKeyRotationInterval")
    dflt = const(cfg, r"key_rotation_interval\s*\{(.*?)\}\s*;", 300, "Config::key_rotation_interval")

    rot = _body(km, r"KeyManager::rotate_if_needed\s*\(")
    drv = _body(km, r"KeyManager::derive_key\s*\(")
    m = re.search(r"if\s*\(\s*now\s*-\s*context\.last_rotation\s*(>=|<=|==|!=|>|<)\s*rotation_interval_\s*\)\s*\{\s*return\s+std::nullopt", rot)
    if m:
        op = OPS[m.group(1)]
    else:
        op = "<"
        gaps.append("rotate_if_needed: due test not recognised")
    now_ts = bool(re.search(r"context\.last_rotation\s*=\s*now\s*;", rot)) and \
        bool(re.search(r"derive_key\s*\(\s*context\.shared_secret\s*,\s*context\.counter\s*,\s*context\.last_rotation\s*\)", rot))
    if not re.search(r"context\.counter\s*\+=\s*1\s*;", rot):
        gaps.append("rotate_if_needed: counter increment not recognised")

    msize = re.search(r"std::array<\s*std::uint8_t\s*,\s*(\d+)\s*>\s*material", drv)
    material_size = int(msize.group(1)) if msize else 16
    if not msize:
        gaps.append("derive_key: material array not found")
    cb = re.search(r"for\s*\(\s*int\s+i\s*=\s*0\s*;\s*i\s*<\s*(\d+)\s*;\s*\+\+i\s*\)\s*\{\s*material\s*\[\s*(\d+)\s*-\s*i\s*\]\s*=\s*static_cast<std::uint8_t>\s*\(\s*\(\s*counter\s*>>\s*\(\s*i\s*\*\s*8\s*\)\s*\)\s*&\s*0xFFu?\s*\)", drv)
    tb = re.search(r"for\s*\(\s*int\s+i\s*=\s*0\s*;\s*i\s*<\s*(\d+)\s*;\s*\+\+i\s*\)\s*\{\s*material\s*\[\s*(\d+)\s*-\s*i\s*\]\s*=\s*static_cast<std::uint8_t>\s*\(\s*\(\s*ticks\s*>>\s*\(\s*i\s*\*\s*8\s*\)\s*\)\s*&\s*0xFFu?\s*\)", drv)
    if cb and tb and cb.group(1) == tb.group(1):
        field_bytes, counter_base, ticks_base = int(cb.group(1)), int(cb.group(2)), int(tb.group(2))
    else:
        field_bytes, counter_base, ticks_base = 8, 7, 15
        gaps.append("derive_key: material loops not recognised")
    uses_ts = bool(re.search(r"ticks\s*=\s*std::chrono::duration_cast<std::chrono::nanoseconds>\s*\(\s*timestamp\.time_since_epoch\(\)\s*\)\.count\(\)", drv)) and bool(tb)

    rsk = _body(node, r"void\s+Node::rotate_session_keys\s*\(")
    only_rereg = bool(re.search(
        r"\{\s*const\s+auto\s+peers\s*=\s*key_manager_\.known_peers\(\)\s*;\s*for\s*\(\s*const\s+auto&\s+peer\s*:\s*peers\s*\)\s*\{\s*"
        r"if\s*\(\s*const\s+auto\s+rotated\s*=\s*key_manager_\.rotate_if_needed\(\s*peer\s*,\s*now\s*\)\s*\)\s*\{\s*"
        r"sessions_\.register_peer_key\(\s*peer\s*,\s*\*rotated\s*\)\s*;\s*\}\s*\}\s*$", rsk))
    if not rsk:
        gaps.append("Node::rotate_session_keys not found")

    b = lambda x: "true" if x else "false"
    body = f"""/-- `kMinKeyRotationInterval` (seconds) -/
def kMinKeyRotationInterval : Nat := {kmin}
/-- `kMaxKeyRotationInterval` (seconds) -/
def kMaxKeyRotationInterval : Nat := {kmax}
/-- `Config::key_rotation_interval` default (seconds) -/
def defaultKeyRotationInterval : Nat := {dflt}
/-- `KeyManager::rotate_if_needed`: `if (now - context.last_rotation … rotation_interval_) return std::nullopt;` -/
def notDue (elapsed interval : Int) : Bool := decide (elapsed {op} interval)
/-- `KeyManager::derive_key`: size of `material` -/
def materialSize : Nat := {material_size}
/-- `material[counterBase - i] = counter >> (i * 8)` for `i < fieldBytes` -/
def counterBase : Nat := {counter_base}
/-- `material[ticksBase - i] = ticks >> (i * 8)` for `i < fieldBytes` -/
def ticksBase : Nat := {ticks_base}
def fieldBytes : Nat := {field_bytes}
/-- `derive_key` feeds `timestamp.time_since_epoch()` (the rotating node's own steady clock) into the HMAC input -/
def deriveUsesLocalTimestamp : Bool := {b(uses_ts)}
/-- `rotate_if_needed` passes `context.last_rotation = now` as that timestamp -/
def rotationTimestampIsNow : Bool := {b(now_ts)}
/-- `Node::rotate_session_keys` only calls `sessions_.register_peer_key(peer, *rotated)`: no teardown, no message to the peer -/
def rotationOnlyReregistersKey : Bool := {b(only_rereg)}"""
    write_generated(PID, body)
    return gaps


# --------------------------------------------------------------------------------------
# generator
# --------------------------------------------------------------------------------------

INTERVALS = [5, 5, 5, 6, 7, 10, 60, 300, 3600, 0, -3, 3, 7200]
DELTAS = [1, 1, 2, 1000, 999_999, S, 3 * S]


def eff(iv: int) -> int:
    return min(max(iv if iv > 0 else 5, 5), 3600) * S


def start(rng, same: bool) -> tuple[list[str], int, int]:
    a = rng.choice(INTERVALS)
    b = a if same else rng.choice([x for x in INTERVALS if eff(x) != eff(a)])
    ops = [f"nodes {a} {b} {rng.randint(2, 2**31 - 2)} {rng.randint(2, 2**31 - 2)}"]
    return ops, eff(a), eff(b)


def secret(rng) -> str:
    return bytes(rng.getrandbits(8) for _ in range(32)).hex()


def case_lockstep(rng) -> Case:
    """same interval, handshake at one instant, every tick reaches both ends at one clock reading: the property holds"""
    ops, iv, _ = start(rng, True)
    ops.append("hs 0" if rng.random() < 0.7 else f"reg {secret(rng)}")
    since = 0
    for _ in range(rng.randint(3, 9)):
        d = rng.choice([iv - since - 1, iv - since, iv - since + 1, iv // 2, iv, 2 * iv + 7, 1])
        d = max(d, 0)
        ops.append(f"adv {d}")
        since += d
        ops.append("tick ab")
        if since >= iv:
            since = 0
        if rng.random() < 0.5:
            ops.append(f"msg {rng.choice(['ab', 'ba'])}")
    ops += ["msg ab", "msg ba"]
    return Case(ops=ops, tag="holds/lockstep")


def case_not_due(rng) -> Case:
    """ticks at unrelated instants at the two ends, none of them late enough for a rotation: the property holds"""
    ops, iva, ivb = start(rng, rng.random() < 0.5)
    delta = rng.choice([0, 1, 1000, S])
    ops.append(f"hs {delta}")
    budget = min(iva, ivb) - delta - 1
    for _ in range(rng.randint(3, 8)):
        d = rng.randint(0, max(0, budget // 4))
        budget -= d
        ops.append(f"adv {d}")
        ops.append(f"{rng.choice(['tick', 'tick', 'rot'])} {rng.choice(['a', 'b'])}")
    if budget > 0 and rng.random() < 0.5:
        ops.append(f"adv {budget}")          # one nanosecond before the earliest rotation is due
        ops += ["tick a", "tick b"]
    ops += ["msg ab", "msg ba"]
    return Case(ops=ops, tag="holds/not-due")


def case_skew(rng) -> Case:
    """both rotations due, the two ends tick at different instants (1 ns .. seconds apart): the finding"""
    ops, iv, _ = start(rng, True)
    ops.append("hs 0" if rng.random() < 0.7 else f"reg {secret(rng)}")
    ops.append(f"adv {iv + rng.choice([0, 0, 1, 5, S])}")
    first, second = rng.choice([("a", "b"), ("b", "a")])
    ops.append(f"{rng.choice(['tick', 'rot'])} {first}")
    ops.append(f"adv {rng.choice(DELTAS)}")
    ops.append(f"{rng.choice(['tick', 'rot'])} {second}")
    ops += [f"msg {rng.choice(['ab', 'ba'])}"]
    for _ in range(rng.randint(0, 3)):       # it never heals on its own
        ops.append(f"adv {iv + rng.choice([0, 1, S])}")
        ops.append("tick ab")
        ops.append(f"msg {rng.choice(['ab', 'ba'])}")
    return Case(ops=ops, tag="finding/skew")


def case_one_sided(rng) -> Case:
    """different intervals: one end rotates, the other does not"""
    ops, iva, ivb = start(rng, False)
    ops.append("hs 0")
    lo, hi = min(iva, ivb), max(iva, ivb)
    ops.append(f"adv {rng.choice([lo, lo + 1, (lo + hi) // 2, hi - 1])}")
    ops.append("tick ab")
    ops += ["msg ab", "msg ba"]
    if rng.random() < 0.5:
        ops.append(f"adv {hi}")
        ops.append("tick ab")
        ops.append("msg ab")
    return Case(ops=ops, tag="finding/one-sided")


def case_handshake_skew(rng) -> Case:
    """the two ends complete their handshakes at different instants; afterwards every tick reaches both at once. Between
    iv and iv+delta after A's handshake only A's rotation is due; a tick after both are due re-aligns them (same reading,
    same counter), which the model predicts as well"""
    ops, iv, _ = start(rng, True)
    delta = rng.choice([1, 1000, S, 2 * S])
    ops.append(f"hs {delta}")
    which = rng.choice(["between", "after", "between-then-after"])
    if which == "between":
        ops.append(f"adv {iv - delta + rng.choice([0, delta - 1, delta // 2])}")
        ops.append("tick ab")
    elif which == "after":
        ops.append(f"adv {iv + rng.choice([0, 1, S])}")
        ops.append("tick ab")
    else:
        ops.append(f"adv {iv - delta}")
        ops.append("tick ab")
        ops.append("msg ab")
        ops.append(f"adv {iv + delta}")
        ops.append("tick ab")
    ops += ["msg ab", "msg ba"]
    return Case(ops=ops, tag="mixed/handshake-skew-" + which)


def case_boundary(rng) -> Case:
    """one end, ticks at exactly interval-1 ns, interval, interval+1 ns after its last rotation"""
    ops, iva, ivb = start(rng, True)
    ops.append("hs 0")
    who = rng.choice(["a", "b"])
    iv = iva
    ops.append(f"adv {iv - 1}")
    ops.append(f"tick {who}")            # not due
    ops.append("adv 1")
    ops.append(f"rot {who}")             # due exactly now
    ops.append(f"adv {iv - 1}")
    ops.append(f"rot {who}")             # not due again
    ops.append("adv 2")
    ops.append(f"tick {who}")
    ops.append("msg ab")
    return Case(ops=ops, tag="finding/boundary")


def case_random(rng) -> Case:
    ops, iva, ivb = start(rng, rng.random() < 0.6)
    ops.append(rng.choice(["hs 0", "hs 0", "hs 1", f"hs {S}", f"reg {secret(rng)}"]))
    for _ in range(rng.randint(4, 14)):
        r = rng.random()
        if r < 0.35:
            ops.append(f"adv {rng.choice([0, 1, S, iva - 1, iva, iva + 1, ivb, ivb // 2, 2 * iva])}")
        elif r < 0.7:
            ops.append(f"{rng.choice(['tick', 'tick', 'rot'])} {rng.choice(['a', 'b'])}" if rng.random() < 0.7 else "tick ab")
        else:
            ops.append(f"msg {rng.choice(['ab', 'ba'])}")
    ops += ["msg ab", "msg ba"]
    return Case(ops=ops, tag="random")


def generate(ctx, budget):
    rng = ctx.rng
    makers = [(case_lockstep, 25), (case_not_due, 20), (case_skew, 20), (case_one_sided, 8), (case_handshake_skew, 10),
              (case_boundary, 5), (case_random, 12)]
    total = sum(w for _, w in makers)
    cases = [case_lockstep(rng), case_not_due(rng), case_skew(rng), case_one_sided(rng), case_handshake_skew(rng), case_boundary(rng)]
    while len(cases) < budget:
        x = rng.random() * total
        for mk, w in makers:
            x -= w
            if x <= 0:
                cases.append(mk(rng))
                break
    return cases


KNOWN_SIG = "rotation-unequal-keys"


def signature(res: CaseResult) -> str:
    """the violated clause; a clause other than the known finding's takes precedence so that it is never hidden behind it"""
    clauses = [v.split(":")[1] if ":" in v else "viol" for _, v in res.viols]
    others = [c for c in clauses if c != KNOWN_SIG]
    if others:
        return others[0]
    if clauses:
        return clauses[0]
    return default_signature(res)


def _field(line: str, name: str) -> str:
    m = re.search(r"(?:^| )" + name + r"=(\S+)", line)
    return m.group(1) if m else "-"


def nontrivial(r: CaseResult) -> bool:
    """a history counts if a session was established, at least one tick/rotate came before a rotation was due (key unchanged)
    and at least one at or after it (key changed), or a message round trip was judged"""
    rotated = kept = False
    prev = None
    for op, o in zip(r.case.ops, r.impl):
        cur = (_field(o, "kA"), _field(o, "kB"))
        if op.startswith(("tick", "rot")) and prev is not None:
            if cur != prev:
                rotated = True
            else:
                kept = True
        prev = cur
    msgs = any(op.startswith("msg") and "verify=" in o for op, o in zip(r.case.ops, r.impl))
    return (rotated and kept) or (msgs and (rotated or kept))


def post(ctx, results):
    for r in results:
        bad = any(v.startswith("viol:" + KNOWN_SIG) for v in r.verdicts)
        other = any(v.startswith("viol") and not v.startswith("viol:" + KNOWN_SIG) for v in r.verdicts)
        ctx.hist("case:property-held" if not bad and not other else "case:known-finding" if bad and not other else "case:other-violation")
        for op, o in zip(r.case.ops, r.impl):
            if op.startswith("msg"):
                ctx.hist("msg:verify=" + _field(o, "verify"))
            if op.startswith("rot "):
                ctx.hist("rot:" + _field(o, "rot"))


def spec() -> Spec:
    return Spec(
        pid=PID,
        proof_modules=["EphVerif.Proofs.C39"],
        driver="drv_c39",
        harness=harness,
        generate=generate,
        extract=extract,
        nontrivial=nontrivial,
        signature=signature,
        post=post,
        budget={"quick": 400, "thorough": 6000},
        search_budget={"quick": 1000, "thorough": 12000},
        rule="histories over two real Nodes under the virtual clock: handshake (both ends at one instant or 1 ns..2 s apart) or "
             "register_shared_secret, rotation intervals 5 s..1 h (configured -3..7200, same or different at the two ends), then ticks "
             "/ rotate_session_key calls at the two ends at identical instants (`tick ab`), 1 ns..3 s apart, before / exactly at / "
             "after the rotation deadline (-1 ns, 0, +1 ns), and signed messages in both directions; shapes: lockstep and not-due (the "
             "property holds), skew / one-sided / boundary (the known finding), handshake-skew and random (either). distinct = sha256 "
             "of the op list; non-trivial = at least one tick before a rotation was due (key kept) and one at or after (key changed), "
             "or a judged message round trip together with one of the two",
        trusted_base=["virtual clock by link-time interposition of steady_clock::now (both nodes read one counter)",
                      "sessions are socketpair ends planted as SessionManager::Session objects (no reader threads); the receiver's "
                      "transport decryption and decode_signed are replayed by the harness with the receiver's own keys",
                      "HMAC-SHA256 at its specification (C08); the DH secret and public values of a handshake are taken from the "
                      "implementation as hints (C12)"],
        assumptions=["steady-clock readings are int64 nanoseconds (partial_divergence), no overflow of now - last_rotation"],
    )


def run(tier, seed, replay=None):
    return standard_check(spec(), tier, seed, replay)
