"""C11 — stored content round-trips and tampered replicas are never accepted."""
import re

from tools.vlib import *
from tools.vlib import _strip_comments
import tools.vlib as V

PID = "C11"
READY = True
MANIFEST = {
    "level_text": "Lean 4 theorems about a model of Node::store_chunk / fetch_chunk / receive_chunk / export_chunk_record and the CLI's "
                  "decrypt_chunk_with_manifest, composed from the already verified models of Sha256 (C08), ChaCha20 + CryptoManager (C09) and "
                  "Shamir (C10). For every payload, chunk id, requested TTL, shard configuration fitting the uint8_t fields (1 <= t <= n <= 255 "
                  "after store_chunk's max()), every 32-byte chunk key other than the all-zero one, every nonce and every outcome of the Shamir "
                  "coefficient draws, and every previous node state: store_chunk succeeds; the bytes it holds are RFC 8439 ChaCha20 of the payload "
                  "under that key, the recorded nonce and counter LE32(id[0..3]); the manifest carries SHA-256(payload) and n shares of which any "
                  "selection with t distinct indices in front reconstructs exactly the key (held_bytes); the local lookup, a replica import on any "
                  "other node in any state (at any time its TTL window admits the manifest) followed by that node's own lookup, and the CLI "
                  "function all return the payload (roundtrip). For every manifest (decoded or not), replica, state and time: receive_chunk either "
                  "accepts - then the returned bytes are the decryption of the replica under the key the first t shares give and their SHA-256 "
                  "equals the manifest's content hash, and the new state is the old one plus exactly the accept effects - or the node state is "
                  "unchanged and nothing is returned (tamper, tamper_rejected(_spec), stored_or_announced_only_if_verified); the same for the CLI "
                  "(tamper_cli). Manifests that arrive without their chunk (ingest_manifest, admitted announces - any content, any number, any "
                  "order) leave the key a held chunk is read with, and hence every later lookup, unchanged (held_chunk_not_poisoned, "
                  "store_then_forged, replica_then_forged; defect C11-1 repaired by fixes/C11-ingest-must-not-poison-held-chunk.patch, the guard's "
                  "presence is an extracted role pinned by gen_guards). Composition module Proofs/SystemReplication (soft): publisher store -> "
                  "admitted announce (C21) -> assigned fetch (C24) -> served CHUNK carrying the held bytes (C23 + glue) -> signed message "
                  "(SystemMessaging) -> handle_chunk -> the importer's lookup returns exactly the payload and the pending fetch is gone "
                  "(replica_is_original); along any history of arbitrary CHUNKs / announces / ingests every accepted replica hashes to the "
                  "content hash of the manifest cached for it, a refused CHUNK changes nothing, equality with the payload up to an explicit "
                  "SHA-256 collision (replica_safety, rejected_chunk_changes_nothing, accepted_is_original_or_collision); the replica's "
                  "deadline is no later than the manifest's and from then on nothing serves it (replica_lifetime via C03.derived, "
                  "C01.dead_unreachable). The excluded point (all-zero key, probability 2^-256 of generate_key) is characterised: held bytes sealed under a "
                  "hidden replacement key, a concrete failing lookup (zero_key, zero_key_counterexample), and replayed on the real code. Tied to "
                  "the code by (T) the statement order of receive_chunk / the CLI function (every effect after the hash comparison) and the data-"
                  "flow roles (what is hashed, which id / nonce / threshold the cipher and combine get, what is stored and returned) extracted "
                  "from Node.cpp / main.cpp on every run - the model reads them and the proofs pin them - and by (H) a differential run of two real "
                  "Nodes (with socketpair-planted sessions: handle_announce, handle_request, handle_chunk are driven and their frames read back) "
                  "and the real CLI function in one process against the compiled Lean model, the Lean specification functions (Spec.sha256, "
                  "Spec.chacha20, Lagrange reconstruction in the specification field) judging every answer of the implementation.",
    "level_note": "Partial in two respects. (1) Time: the replica clause is proved under the hypothesis that the importing node's TTL window "
                  "admits the manifest (manifest_ttl is modelled; admitted_same_instant shows the hypothesis holds at the instant of the store "
                  "on a whole-second wall clock). Because the URI carries whole seconds, a store with TTL <= min_manifest_ttl handed over "
                  "immediately on a sub-second wall clock is refused (floor(E - now) = min - 1): reproduced, counted in the evidence, "
                  "not judged (admission policy is C03's subject). Record lifetimes (C01-C03) are not modelled: look-ups are 'within lifetime'. "
                  "(2) The URI codec is C17's: receive_chunk is modelled from the decoded manifest on; the run uses the real encode/decode. "
                  "Trusted: Lean kernel; the hand transcription of the four functions (validated by the differential run only: payload "
                  "sizes 0..1 MiB, shard configurations (0,0)..(255,255), 40 corruption kinds of replica and manifest); the regex role extractor; "
                  "random_device / mt19937_64 outputs as universally quantified parameters (key, nonce, coefficients are read off the "
                  "implementation's answer and validated: key = what the shares reconstruct in the specification field, coefficients = the "
                  "polynomial through the first t shares); payloads above 64 bytes are compared by length + FNV-1a-64; the harness's state "
                  "fingerprint of a Node (chunk store, provider table, shard table, manifest cache, swarm plans / ledgers, pending fetches) "
                  "stands for 'node state'. Exceptions out of Shamir::combine are 'not accepted' here; their handling is C35's subject. "
                  "Not claimed: key generation quality, confidentiality.",
    "technique": "Lean 4 compositional proof over verified component models (round trip by C09 involution + C10 reconstruction, frame/"
                 "case analysis of receive_chunk) + regenerated data-flow roles and statement order as proof obligations + model/implementation "
                 "differential correspondence on two in-process nodes with Lean specification monitor",
}

NODE = "src/core/Node.cpp"
MAIN = "src/main.cpp"

CLI_SOURCES = ["src/daemon/ControlPlane.cpp", "src/daemon/ControlClient.cpp", "src/daemon/ControlServer.cpp",
               "src/daemon/StructuredLogger.cpp"]


def harness():
    """pipeline_h.cpp (two Nodes, virtual clock, interposed random_device) + pipeline_cli_h.cpp (includes src/main.cpp, compiled here
    and keyed on the whole src/ tree) + all core and daemon sources."""
    srcs = list(ALL_CORE_SOURCES) + CLI_SOURCES
    flags = list(BASE_FLAGS) + [f"-I{REPO}/include", f"-I{REPO}/src", f"-I{REPO}", f"-I{VERIF}/harness"]
    cli_obj = V._compile_obj(VERIF / "harness" / "pipeline_cli_h.cpp", flags,
                             tree_hash("include") + tree_hash("src") + (VERIF / "harness" / "pipeline_cli_h.hpp").read_text())
    return build_harness("pipeline_h", "harness/pipeline_h.cpp", srcs, includes_repo_cpp=False, vclock=True,
                         libs=[str(cli_obj), "-lcurl", "-lpthread"])


# ----------------------------------------------------------------------------------------------
# (T) extraction: statement order and data-flow roles of the four functions
# ----------------------------------------------------------------------------------------------

DEFAULTS = {
    "kMinAllowedManifestTtl": 1, "kKeyBytes": 32, "kNonceBytes": 12, "kShardValueBytes": 32, "kShardCountBits": 8,
    "kStoreMinThreshold": 1,
    "storeSteps": ["digest", "generate_key", "encrypt", "put", "split", "cache", "publish", "announce", "plan", "broadcast", "seed", "return"],
    "storeHashRole": "payload", "storeEncryptRole": "payload", "storeEncryptIdRole": "id", "storeManifestNonceRole": "sealed",
    "storePutDataRole": "sealed", "storePutNonceRole": "sealed", "storeSplitRole": "key",
    "receiveSteps": ["decode", "validate", "ttl", "combine", "decrypt", "digest", "compare", "cache", "publish", "announce", "put", "clear",
                     "seed", "broadcast", "return"],
    "receiveHashRole": "decrypted", "receiveCompareRole": "digest!=manifest.chunk_hash", "receiveDecryptIdArg": "manifest.chunk_id",
    "receiveDecryptNonceArg": "manifest.nonce", "receiveCombineThresholdArg": "manifest.threshold", "receivePutDataRole": "ciphertext",
    "receiveReturnRole": "decrypted",
    "fetchDecryptIdRole": "id", "fetchNonceRole": "record", "fetchDataRole": "record",
    "receiveCombineFailure": "nullopt", "fetchCombineFailure": "nullopt", "cliCombineFailure": "throw",
    "ingestGuard": "held-key", "announceGuard": "held-key",
    "cliSteps": ["validate", "combine", "decrypt", "digest", "compare", "return"],
    "cliHashRole": "decrypted", "cliCompareRole": "digest!=manifest.chunk_hash", "cliDecryptIdArg": "manifest.chunk_id",
    "cliDecryptNonceArg": "manifest.nonce", "cliCombineThresholdArg": "manifest.threshold", "cliReturnRole": "decrypted",
}

DOCS = {
    "kMinAllowedManifestTtl": "`kMinAllowedManifestTtl` (seconds)",
    "kKeyBytes": "`crypto::Key::bytes` / `Nonce::bytes` / `protocol::KeyShard::value` sizes",
    "kShardCountBits": "width in bits of `Config::shard_threshold` / `shard_total`",
    "kStoreMinThreshold": "`Node::store_chunk`: lower bound put on the configured threshold (`std::max<std::uint8_t>(std::uint8_t{1}, …)`)",
    "storeSteps": "`Node::store_chunk`: recognised statements in source order (informative)",
    "storeHashRole": "`Node::store_chunk`: what `Sha256::digest` is applied to (\"payload\" = the `ChunkData` parameter, \"sealed\" = the "
                     "`encrypt_with_key` result), what is encrypted and under which id, where the manifest's nonce and the stored data / nonce "
                     "come from, what is split",
    "receiveSteps": "`Node::receive_chunk`: recognised statements in source order",
    "receiveHashRole": "`Node::receive_chunk`: what is hashed (\"decrypted\" = the `decrypt_with_key` result, \"ciphertext\" = the replica "
                       "parameter), the guard before the effects, the id / nonce / threshold expressions, what is stored and returned",
    "fetchDecryptIdRole": "`Node::fetch_chunk`: chunk-id argument of decrypt_with_key (\"id\" = the parameter), nonce / data source (\"record\")",
    "cliSteps": "main.cpp `decrypt_chunk_with_manifest`: recognised statements in source order, and the same roles",
    "ingestGuard": "`ingest_manifest` / `handle_announce`: \"held-key\" = the manifest replaces cache and key shares only if "
                   "`manifest_keeps_held_chunk_readable` (same content hash as the cached manifest and same reconstructed key as the shares "
                   "`fetch_chunk` reads a held chunk with), \"none\" = unconditionally (the tree before fixes/C11-ingest-must-not-poison-held-chunk.patch)",
    "receiveCombineFailure": "what happens when `Shamir::combine` throws: \"nullopt\" = caught and turned into `return std::nullopt`, "
                             "\"throw\" = the exception leaves the function (not pinned by any theorem: both mean 'not accepted')",
}


def _body_and_params(text: str, header_re: str) -> tuple[str, list[str]]:
    """(body, parameter names) of the first function whose header matches header_re (which must end before the parameter list)"""
    m = re.search(header_re + r"\s*\(", text, flags=re.S)
    if not m:
        raise ValueError("function not found")
    i = m.end()
    depth = 1
    j = i
    while j < len(text) and depth:
        depth += {"(": 1, ")": -1}.get(text[j], 0)
        j += 1
    params = []
    for p in _split_args(text[i:j - 1]):
        p = p.split("=")[0].strip()
        mm = re.search(r"(\w+)\s*$", p)
        if mm:
            params.append(mm.group(1))
    k = text.index("{", j)
    depth = 0
    for e in range(k, len(text)):
        if text[e] == "{":
            depth += 1
        elif text[e] == "}":
            depth -= 1
            if depth == 0:
                return text[k + 1:e], params
    raise ValueError("unbalanced braces")


def _split_args(s: str) -> list[str]:
    out, depth, cur = [], 0, ""
    for ch in s:          # template brackets are not counted (`->` would unbalance them; no argument here has a comma inside <>)
        if ch in "([{":
            depth += 1
        elif ch in ")]}":
            depth -= 1
        if ch == "," and depth == 0:
            out.append(cur)
            cur = ""
        else:
            cur += ch
    if cur.strip():
        out.append(cur)
    return [a.strip() for a in out]


def _call_args(body: str, callee_re: str, start: int = 0) -> tuple[list[str], int]:
    """arguments of the first call matching callee_re after `start`, and the position of the call"""
    m = re.compile(callee_re + r"\s*\(").search(body, start)
    if not m:
        raise ValueError(f"call {callee_re} not found")
    i = m.end()
    depth = 1
    j = i
    while j < len(body) and depth:
        depth += {"(": 1, ")": -1}.get(body[j], 0)
        j += 1
    return _split_args(body[i:j - 1]), m.start()


def _norm(expr: str) -> str:
    """strip span / move wrappers, `x.data(), x.size()` and `x->data(), x->size()` pairs, whitespace"""
    e = re.sub(r"\s+", "", expr)
    for _ in range(4):
        m = re.fullmatch(r"std::span<conststd::uint8_t>[({](.*)[)}]", e) or re.fullmatch(r"std::move\((.*)\)", e)
        if not m:
            break
        e = m.group(1)
    m = re.fullmatch(r"(.+?)(?:\.|->)data\(\),(.+?)(?:\.|->)size\(\)", e)
    if m and m.group(1) == m.group(2):
        e = ("*" if "->" in expr else "") + m.group(1)
    return e


def _steps(body: str, table: list[tuple[str, str]]) -> list[str]:
    found = []
    for name, rx in table:
        m = re.search(rx, body, flags=re.S)
        if m:
            found.append((m.start(), name))
    return [n for _, n in sorted(found)]


def _last_value_return(body: str) -> tuple[str, int]:
    best = None
    for m in re.finditer(r"return\s+([^;]+);", body):
        v = m.group(1).strip()
        if v not in ("std::nullopt", "false", "true", "{}"):
            best = (v, m.start())
    if best is None:
        raise ValueError("no value return")
    return best


def _combine_failure(body: str) -> str:
    m = re.search(r"try\s*\{[^{}]*Shamir::combine[^{}]*\}\s*catch\s*\([^)]*\)\s*\{\s*return\s+std::nullopt\s*;", body, flags=re.S)
    return "nullopt" if m else "throw"


def _verify_like(body: str, ct_name: str, ct_exprs: list[str], prefix: str, vals: dict, with_effects: bool):
    """receive_chunk / decrypt_chunk_with_manifest: combine → decrypt → digest → compare → (effects) → return"""
    dargs, dpos = _call_args(body, r"CryptoManager::decrypt_with_key")
    m = re.search(r"(?:const\s+)?auto\s+(\w+)\s*=\s*[\w:\s]*CryptoManager::decrypt_with_key", body)
    if not m or len(dargs) != 4:
        raise ValueError("decrypt_with_key call not recognised")
    pt = m.group(1)
    cargs, _ = _call_args(body, r"Shamir::combine")
    hargs, hpos = _call_args(body, r"Sha256::digest", dpos)
    hm = re.search(r"(?:const\s+)?auto\s+(\w+)\s*=\s*[\w:\s]*Sha256::digest", body[dpos:])
    if not hm:
        raise ValueError("digest variable not recognised")
    dg = hm.group(1)

    def role(expr: str) -> str:
        e = _norm(expr)
        if e.lstrip("*") == pt:
            return "decrypted"
        if e in ct_exprs or e.lstrip("*") == ct_name:
            return "ciphertext"
        return "other:" + e

    cmp_rx = (r"if\s*\(\s*(?:" + re.escape(dg) + r"\s*!=\s*manifest\.chunk_hash|manifest\.chunk_hash\s*!=\s*" + re.escape(dg) +
              r"|!\s*\(\s*" + re.escape(dg) + r"\s*==\s*manifest\.chunk_hash\s*\))\s*\)\s*\{?\s*return\s+std::nullopt\s*;")
    cm = re.search(cmp_rx, body[hpos:], flags=re.S)
    ret, rpos = _last_value_return(body)
    table = [("combine", r"Shamir::combine\s*\("), ("decrypt", r"CryptoManager::decrypt_with_key\s*\("), ("digest", r"Sha256::digest\s*\("),
             ("return", r"return\s+" + re.escape(ret) + r"\s*;")]
    if cm:
        table.append(("compare", re.escape(body[hpos + cm.start():hpos + cm.end()])))
    if with_effects:
        table += [("decode", r"decode_manifest\s*\("), ("validate", r"validate_shards\s*\("), ("ttl", r"manifest_ttl\s*\("),
                  ("cache", r"manifest_cache_\s*\["), ("publish", r"publish_shards\s*\("), ("announce", r"announce_chunk\s*\("),
                  ("put", r"chunk_store_\.put\s*\("), ("clear", r"clear_pending_fetch\s*\("), ("seed", r"note_local_seed\s*\("),
                  ("broadcast", r"broadcast_manifest\s*\(")]
    else:
        table.append(("validate", r"manifest\.threshold\s*==\s*0\s*\|\|\s*manifest\.shards\.size\(\)\s*<\s*manifest\.threshold"))
    vals[prefix + "Steps"] = _steps(body, table)
    vals[prefix + "HashRole"] = role(hargs[0]) if hargs else "other:"
    vals[prefix + "CompareRole"] = "digest!=manifest.chunk_hash" if cm else "missing"
    vals[prefix + "DecryptIdArg"] = _norm(dargs[1])
    vals[prefix + "DecryptNonceArg"] = _norm(dargs[3])
    vals[prefix + "CombineThresholdArg"] = _norm(cargs[1]) if len(cargs) > 1 else "other:"
    vals[prefix + "ReturnRole"] = role(ret)
    vals[prefix + "CombineFailure"] = _combine_failure(body)
    if with_effects:
        pargs, _ = _call_args(body, r"chunk_store_\.put")
        vals[prefix + "PutDataRole"] = role(pargs[1]) if len(pargs) > 1 else "other:"
    if role(dargs[2]) != "ciphertext":
        raise ValueError(f"decrypt_with_key is not applied to the replica parameter but to {dargs[2]!r}")


def extract_tables() -> tuple[dict, list[str]]:
    vals = {k: (list(v) if isinstance(v, list) else v) for k, v in DEFAULTS.items()}
    consts, gaps = extract_consts([
        Const("kMinAllowedManifestTtl", NODE, r"constexpr\s+std::chrono::seconds\s+kMinAllowedManifestTtl\s*\{\s*std::chrono::seconds\s*\{([^}]+)\}", default=1),
        Const("kKeyBytes", "include/ephemeralnet/crypto/ChaCha20.hpp", r"struct\s+Key\s*\{\s*std::array<std::uint8_t,\s*(\d+)>", default=32),
        Const("kNonceBytes", "include/ephemeralnet/crypto/ChaCha20.hpp", r"struct\s+Nonce\s*\{\s*std::array<std::uint8_t,\s*(\d+)>", default=12),
        Const("kShardValueBytes", "include/ephemeralnet/protocol/Manifest.hpp",
              r"struct\s+KeyShard\s*\{.*?std::array<std::uint8_t,\s*(\d+)>\s*value", default=32),
        Const("kShardCountBits", "include/ephemeralnet/Config.hpp", r"std::uint(\d+)_t\s+shard_threshold\b", default=8),
        Const("kStoreMinThreshold", NODE, r"std::max<std::uint8_t>\(\s*std::uint8_t\{(\d+)\}\s*,\s*config_\.shard_threshold\s*\)", default=1),
    ])
    vals.update(consts)
    try:
        node = _strip_comments((REPO / NODE).read_text(errors="replace"))
    except OSError as ex:
        return vals, gaps + [f"{NODE}: {ex}"]

    def attempt(what, fn):
        try:
            fn()
        except Exception as ex:  # translator gap: defaults stay, the differential run decides
            gaps.append(f"{what}: {ex}")

    def store():
        body, params = _body_and_params(node, r"protocol::Manifest\s+Node::store_chunk")
        idp, datap = params[0], params[1]
        km = re.search(r"(?:const\s+)?auto\s+(\w+)\s*=\s*[\w:\s]*CryptoManager::generate_key\s*\(", body)
        sm = re.search(r"(?:const\s+)?auto\s+(\w+)\s*=\s*[\w:\s]*CryptoManager::encrypt_with_key", body)
        if not km or not sm:
            raise ValueError("generate_key / encrypt_with_key assignment not recognised")
        key, sealed = km.group(1), sm.group(1)
        eargs, _ = _call_args(body, r"CryptoManager::encrypt_with_key")
        hargs, _ = _call_args(body, r"Sha256::digest")
        pargs, _ = _call_args(body, r"chunk_store_\.put")
        sargs, _ = _call_args(body, r"Shamir::split")
        nm = re.search(r"manifest\.nonce\s*=\s*([^;]+);", body)
        if _norm(eargs[0]) != key:
            raise ValueError(f"encrypt_with_key is keyed with {eargs[0]!r}, not the generated key")

        def r(expr, table):
            e = _norm(expr)
            return table.get(e, "other:" + e)
        vals["storeEncryptIdRole"] = r(eargs[1], {idp: "id"})
        vals["storeEncryptRole"] = r(eargs[2], {datap: "payload"})
        vals["storeHashRole"] = r(hargs[0], {datap: "payload", sealed + ".data": "sealed"})
        vals["storePutDataRole"] = r(pargs[1], {sealed + ".data": "sealed", datap: "payload"})
        vals["storePutNonceRole"] = r(pargs[3], {sealed + ".nonce.bytes": "sealed"})
        vals["storeSplitRole"] = r(sargs[0], {key + ".bytes": "key"})
        vals["storeManifestNonceRole"] = r(nm.group(1), {sealed + ".nonce": "sealed"}) if nm else "other:"
        vals["storeSteps"] = _steps(body, [
            ("digest", r"Sha256::digest\s*\("), ("generate_key", r"generate_key\s*\("), ("encrypt", r"encrypt_with_key\s*\("),
            ("put", r"chunk_store_\.put\s*\("), ("split", r"Shamir::split\s*\("), ("cache", r"manifest_cache_\s*\["),
            ("publish", r"publish_shards\s*\("), ("announce", r"announce_chunk\s*\("), ("plan", r"update_swarm_plan\s*\("),
            ("broadcast", r"broadcast_manifest\s*\("), ("seed", r"note_local_seed\s*\("), ("return", r"return\s+manifest\s*;")])

    def receive():
        body, params = _body_and_params(node, r"std::optional<ChunkData>\s+Node::receive_chunk")
        _verify_like(body, params[1], [params[1]], "receive", vals, True)

    def fetch():
        body, params = _body_and_params(node, r"std::optional<ChunkData>\s+Node::fetch_chunk")
        dargs, _ = _call_args(body, r"CryptoManager::decrypt_with_key")
        vals["fetchDecryptIdRole"] = "id" if _norm(dargs[1]) == params[0] else "other:" + _norm(dargs[1])
        ctv, nv = _norm(dargs[2]), _norm(dargs[3])
        cm = re.search(r"\b" + re.escape(ctv) + r"\s*[{(]\s*(\w+)->data\s*[})]", body)
        nm = re.search(r"\b" + re.escape(nv) + r"\s*[{(]\s*(\w+)->nonce\s*[})]", body)
        vals["fetchDataRole"] = "record" if cm and cm.group(1) == "record" else "other:" + ctv
        vals["fetchNonceRole"] = "record" if nm and nm.group(1) == "record" else "other:" + nv
        vals["fetchCombineFailure"] = _combine_failure(body)

    def cli():
        main = _strip_comments((REPO / MAIN).read_text(errors="replace"))
        body, params = _body_and_params(main, r"std::optional<ephemeralnet::ChunkData>\s+decrypt_chunk_with_manifest")
        _verify_like(body, params[1], [params[1] + ".data"], "cli", vals, False)

    def guards():
        helper = re.search(r"bool\s+Node::manifest_keeps_held_chunk_readable\s*\(", node)
        sound = False
        if helper:
            hbody, _ = _body_and_params(node, r"bool\s+Node::manifest_keeps_held_chunk_readable")
            sound = bool(re.search(r"chunk_hash\s*!=\s*manifest\.chunk_hash\s*\)\s*\{\s*return\s+false", hbody)) and \
                bool(re.search(r"return\s+reconstruct\(\s*current\s*,\s*current_threshold\s*\)\s*==\s*reconstruct\(\s*manifest\.shards\s*,\s*manifest\.threshold\s*\)", hbody)) and \
                bool(re.search(r"catch\s*\([^)]*\)\s*\{\s*return\s+false", hbody))
        ibody, _ = _body_and_params(node, r"bool\s+Node::ingest_manifest")
        abody, _ = _body_and_params(node, r"void\s+Node::handle_announce")
        ig = re.search(r"if\s*\(\s*!\s*manifest_keeps_held_chunk_readable\s*\(\s*manifest\s*\)\s*\)\s*\{\s*return\s+false\s*;", ibody)
        ipos = ibody.find("manifest_cache_[")
        am = re.search(r"const\s+bool\s+(\w+)\s*=\s*manifest_keeps_held_chunk_readable\s*\(\s*manifest\s*\)\s*;", abody)
        ag = am and re.search(r"if\s*\(\s*" + re.escape(am.group(1)) + r"\s*\)\s*\{[^{}]*manifest_cache_\s*\[[^{}]*publish_shards[^{}]*\}", abody, flags=re.S)
        unguarded_a = len(re.findall(r"manifest_cache_\s*\[", abody)) != (1 if ag else 0) + (0 if ag else 1)
        if helper and not sound:
            vals["ingestGuard"] = vals["announceGuard"] = "other:helper"
            return
        vals["ingestGuard"] = "held-key" if (helper and ig and ig.start() < ipos) else "none"
        vals["announceGuard"] = "held-key" if (helper and ag and not unguarded_a) else "none"

    attempt(f"ingest_manifest / handle_announce ({NODE})", guards)
    attempt(f"store_chunk ({NODE})", store)
    attempt(f"receive_chunk ({NODE})", receive)
    attempt(f"fetch_chunk ({NODE})", fetch)
    attempt(f"decrypt_chunk_with_manifest ({MAIN})", cli)
    return vals, gaps


def _lean_str(s: str) -> str:
    return '"' + s.replace("\\", "\\\\").replace('"', '\\"') + '"'


def extract():
    v, gaps = extract_tables()
    lines = []
    for k in DEFAULTS:
        if k in DOCS:
            lines.append(f"/-- {DOCS[k]} -/")
        val = v[k]
        if isinstance(val, int):
            lines.append(f"def {k} : Nat := {val}")
        elif isinstance(val, list):
            lines.append(f"def {k} : List String := [" + ", ".join(_lean_str(x) for x in val) + "]")
        else:
            lines.append(f"def {k} : String := {_lean_str(val)}")
    write_generated(PID, "\n".join(lines))
    return gaps


# ----------------------------------------------------------------------------------------------
# generator
# ----------------------------------------------------------------------------------------------

SHARD_CONFIGS = [(i, i) for i in range(1, 9)] + [(3, 5), (2, 3), (1, 5), (2, 255), (254, 254), (255, 255), (200, 255), (0, 0), (5, 3), (0, 4)]
COMMON_CONFIGS = [(3, 5), (3, 5), (1, 1), (2, 2), (2, 3), (4, 7), (8, 8), (1, 3)]
SIZES = [0, 1, 63, 64, 65, 4096]
WINDOWS = [(30, 21600, 21600), (5, 3600, 60), (1, 86400, 3600), (30, 30, 30), (60, 120, 90)]


def _hex(rng, n: int) -> str:
    return bytes(rng.getrandbits(8) for _ in range(n)).hex() if n else "-"


def _payload(rng, n: int) -> str:
    if n == 0:
        return "-"
    if n <= 80 and rng.random() < 0.6:
        r = rng.random()
        if r < 0.1:
            return "00" * n
        if r < 0.2:
            return "ff" * n
        return _hex(rng, n)
    return f"gen:{n}:{rng.getrandbits(48)}"


def _size(rng) -> int:
    r = rng.random()
    if r < 0.55:
        return rng.choice(SIZES)
    if r < 0.9:
        return rng.randint(1, 200)
    return rng.choice([127, 128, 129, 255, 256, 257, 1000, 8191, 8192])


def _id(rng, k: int) -> str:
    r = rng.random()
    if r < 0.35:
        return f"c{k}"
    if r < 0.45:
        return "00" * 32
    if r < 0.55:
        return "ff" * 32
    if r < 0.75:  # counters LE32(id[0..3]) next to the 32-bit wrap
        c = rng.choice([2 ** 32 - 1, 2 ** 32 - 2, 2 ** 31, 1])
        return c.to_bytes(4, "little").hex() + _hex(rng, 28)
    return _hex(rng, 32)


def _cfg(rng, tn=None, window=None, sub=None) -> str:
    t, n = tn if tn is not None else rng.choice(COMMON_CONFIGS)
    mn, mx, df = window if window is not None else rng.choice(WINDOWS)
    if sub is None:
        sub = rng.choice([0, 0, 0, 1, 250_000_000, 500_000_000, 999_999_999])
    return f"cfg {t} {n} {mn} {mx} {df} {sub}"


def _ttl(rng, window) -> int:
    mn, mx, _ = window
    return rng.choice([0, -5, mn, mn + 1, mn - 1, (mn + mx) // 2, mx, mx + 10, 3600, 10 ** 9])


def _eff(tn):
    t = max(1, tn[0])
    return t, max(t, tn[1])


def corruption(rng, tn, size: int) -> str:
    """one corruption of every kind the harness knows, aimed at the boundaries of the pieces"""
    t, n = _eff(tn)
    x = rng.choice([1, 0x80, 0xFF, rng.randint(1, 255)])
    kinds = ["ct", "ct", "ct", "ctadd", "ctcut", "hash", "hash", "nonce", "id-counter", "id-rest", "shard-in", "shard-in", "shard-out",
             "sidx-dup", "sidx-zero", "sidx-dup-out", "sidx-new", "thr-0", "thr-less", "thr-more", "thr-255", "total", "exp-past", "exp-future",
             "exp-edge", "drop-first", "drop-last", "rot", "rev", "combo"]
    k = rng.choice(kinds)
    if k == "ct":
        return f"ct:{rng.choice([0, max(0, size - 1), 63, 64, rng.randrange(max(1, size))])}:{x}" if size else "ctadd:00"
    if k == "ctadd":
        return f"ctadd:{_hex(rng, rng.choice([1, 1, 64]))}"
    if k == "ctcut":
        return f"ctcut:{rng.choice([1, 1, 64])}"
    if k == "hash":
        return f"hash:{rng.choice([0, 31, rng.randrange(32)])}:{x}"
    if k == "nonce":
        return f"nonce:{rng.choice([0, 11, rng.randrange(12)])}:{x}"
    if k == "id-counter":
        return f"id:{rng.randrange(4)}:{x}"
    if k == "id-rest":
        return f"id:{rng.choice([4, 31, rng.randrange(4, 32)])}:{x}"
    if k == "shard-in":
        return f"shard:{rng.randrange(t)}:{rng.choice([0, 31, rng.randrange(32)])}:{x}"
    if k == "shard-out":
        return f"shard:{rng.randrange(t, n)}:{rng.randrange(32)}:{x}" if n > t else f"shard:0:0:{x}"
    if k == "sidx-dup":   # two of the first t shares carry the same index
        return f"sidx:{rng.randrange(t)}:{(rng.randrange(t) + 1)}" if t > 1 else "sidx:0:0"
    if k == "sidx-zero":
        return f"sidx:{rng.randrange(t)}:0"
    if k == "sidx-dup-out":
        return f"sidx:{rng.randrange(t, n)}:1" if n > t else "sidx:0:0"
    if k == "sidx-new":   # an index that no share had: the polynomial is evaluated at the wrong abscissa
        return f"sidx:{rng.randrange(t)}:{rng.choice([n + 1, 255]) if n < 255 else 0}"
    if k == "thr-0":
        return "thr:0"
    if k == "thr-less":
        return f"thr:{t - 1}"
    if k == "thr-more":
        return f"thr:{t + 1}"
    if k == "thr-255":
        return "thr:255"
    if k == "total":
        return f"total:{rng.choice([0, 1, 255, n + 1])}"
    if k == "exp-past":
        return f"exp:-{rng.choice([10 ** 6, 10 ** 9])}"
    if k == "exp-future":
        return f"exp:{rng.choice([10 ** 6, 10 ** 9])}"
    if k == "exp-edge":
        return f"exp:{rng.choice([-1, 1, -29, -31, -3600])}"
    if k == "drop-first":
        return "drop:0"
    if k == "drop-last":
        return f"drop:{n - 1}"
    if k == "rot":
        return f"rot:{rng.randrange(1, n) if n > 1 else 0}"
    if k == "rev":
        return "rev"
    return corruption(rng, tn, size) + "+" + corruption(rng, tn, size)


def _rng_tok(rng, zero=False) -> str:
    return ("zk" if zero else "r") + str(rng.getrandbits(40) + 1)


def case_roundtrip(rng, k, tn=None, size=None, tag="roundtrip") -> Case:
    tn = tn if tn is not None else rng.choice(COMMON_CONFIGS)
    window = rng.choice(WINDOWS)
    size = _size(rng) if size is None else size
    cid = _id(rng, k)
    ops = [_cfg(rng, tn, window, sub=0 if rng.random() < 0.7 else None),
           f"store {cid} {_payload(rng, size)} {_ttl(rng, window)} {_rng_tok(rng)}", f"fetch a {cid}"]
    tail = [f"receive {rng.choice(['none', 'none', 'rev', 'rot:1'])}", f"fetch b {cid}", f"cli {rng.choice(['none', 'none', 'rev'])}"]
    rng.shuffle(tail)
    return Case(ops=ops + tail, tag=tag)


def case_tamper(rng, k, tn=None, size=None, tag="tamper") -> Case:
    tn = tn if tn is not None else rng.choice(COMMON_CONFIGS)
    window = rng.choice(WINDOWS[:3])
    size = rng.choice([1, 5, 64, 65, 100, 4096, rng.randint(1, 300)]) if size is None else size
    cid = _id(rng, k)
    ops = [_cfg(rng, tn, window, sub=0), f"store {cid} {_payload(rng, size)} {rng.choice([0, 3600, window[1]])} {_rng_tok(rng)}"]
    for _ in range(rng.randint(2, 5)):
        c = corruption(rng, tn, size)
        ops.append(f"{rng.choice(['receive', 'receive', 'cli'])} {c}")
    ops.append("receive none")
    ops.append(f"fetch b {cid}")
    for _ in range(rng.randint(1, 3)):     # B already holds the chunk: a rejected replica must leave it alone
        ops.append(f"receive {corruption(rng, tn, size)}")
    ops.append(f"fetch b {cid}")
    ops.append(f"cli {corruption(rng, tn, size)}")
    return Case(ops=ops, tag=tag)


def case_ttl(rng, k) -> Case:
    """admission edges: TTL = min on a sub-second wall clock, hand-over just before / at expiry"""
    window = rng.choice(WINDOWS)
    mn, mx, _ = window
    ttl = rng.choice([mn, mn, mn + 1, mn + 2, mx, 0])
    eff = min(max(ttl if ttl > 0 else window[2], mn), mx)
    cid = f"c{k}"
    ops = [_cfg(rng, (2, 3), window, sub=rng.choice([0, 1, 500_000_000, 999_999_999])),
           f"store {cid} {_payload(rng, rng.choice([1, 16, 64]))} {ttl} {_rng_tok(rng)}"]
    adv = rng.choice([0, 0, (eff - mn) * 10 ** 9, (eff - mn) * 10 ** 9 - 1, (eff - mn) * 10 ** 9 + 10 ** 9, eff * 10 ** 9, eff * 10 ** 9 - 1])
    if adv > 0:
        ops.append(f"adv {adv}")
    ops += [f"receive {rng.choice(['none', 'none', 'exp:1', 'exp:-1', 'exp:3600'])}", "cli none"]
    return Case(ops=ops, tag="ttl-edge")


def case_zero_key(rng, k) -> Case:
    cid = f"c{k}"
    size = rng.choice([0, 1, 16, 64, 100])
    return Case(ops=[_cfg(rng, rng.choice([(1, 1), (3, 5), (2, 2)]), WINDOWS[0], sub=0), f"store {cid} {_payload(rng, size)} 3600 {_rng_tok(rng, True)}",
                     f"fetch a {cid}", "receive none", "cli none"], tag="zero-key")


def case_multi(rng, k) -> Case:
    tn = rng.choice(COMMON_CONFIGS)
    ops = [_cfg(rng, tn, WINDOWS[0], sub=0)]
    ids = [f"c{k}", f"d{k}", "ff" * 32]
    for cid in ids[:rng.randint(2, 3)]:
        ops.append(f"store {cid} {_payload(rng, _size(rng) % 300)} 3600 {_rng_tok(rng)}")
        ops.append(f"receive {rng.choice(['none', 'none', corruption(rng, tn, 8)])}")
    if rng.random() < 0.5:   # the same id stored again with another payload: everything must follow the new one
        ops.append(f"store {ids[0]} {_payload(rng, rng.randint(1, 80))} 3600 {_rng_tok(rng)}")
        ops.append("receive none")
    for cid in ids[:2]:
        ops += [f"fetch a {cid}", f"fetch b {cid}"]
    return Case(ops=ops, tag="multi")


def case_poison(rng, k) -> Case:
    """C11-1: manifests without replica (ingest on either node, admitted announces on the importer) for an id that is held"""
    tn = rng.choice(COMMON_CONFIGS)
    cid = _id(rng, k)
    size = rng.choice([1, 5, 64, 100])
    ops = [_cfg(rng, tn, WINDOWS[0], sub=0), f"store {cid} {_payload(rng, size)} 3600 {_rng_tok(rng)}"]
    if rng.random() < 0.8:
        ops.append(rng.choice(["receive none", "announce a none 1"]))
        if ops[-1].startswith("announce"):
            ops.append("deliver a none")
    forged = ["shard-in", "shard-in", "hash", "nonce", "sidx-new", "thr-less", "thr-more", "rev", "none", "exp-future", "drop-first", "combo"]
    for _ in range(rng.randint(1, 5)):
        c = corruption(rng, tn, size)
        if rng.random() < 0.6:   # a corruption that changes the key the shares stand for
            t, n = _eff(tn)
            c = rng.choice([f"shard:{rng.randrange(t)}:{rng.randrange(32)}:{rng.randint(1, 255)}", f"sidx:{rng.randrange(t)}:{rng.choice([n + 1, 200])}",
                            f"hash:{rng.randrange(32)}:{rng.randint(1, 255)}", "rev" if t < n else "none", f"thr:{t + 1}" if t < n else "none"])
        r = rng.random()
        if r < 0.35:
            ops.append(f"ingest a {c}")
        elif r < 0.7:
            ops.append(f"ingest b {c}")
        else:
            ops.append(f"announce {rng.choice(['a', 'x'])} {c} {rng.choice([0, 1])}")
        if rng.random() < 0.4:
            ops.append(f"fetch {rng.choice(['a', 'b'])} {cid}")
    ops += [f"fetch a {cid}", f"fetch b {cid}", "serve"]
    return Case(ops=ops, tag="poison")


def case_replicate(rng, k) -> Case:
    """the replication chain over the planted sessions: announce, serve, CHUNKs from the publisher and from a third peer"""
    tn = rng.choice(COMMON_CONFIGS)
    cid = _id(rng, k)
    size = rng.choice([0, 1, 63, 64, 65, 100, 4096])
    ops = [_cfg(rng, tn, rng.choice(WINDOWS[:3]), sub=rng.choice([0, 0, 500_000_000])), f"store {cid} {_payload(rng, size)} {rng.choice([0, 3600])} {_rng_tok(rng)}"]
    if rng.random() < 0.85:
        ops.append(f"announce {rng.choice(['a', 'a', 'x'])} {rng.choice(['none', 'none', 'none', 'rev', corruption(rng, tn, size)])} {rng.choice([1, 1, 0])}")
    ops.append("serve")
    for _ in range(rng.randint(1, 4)):
        ops.append(f"deliver {rng.choice(['a', 'x'])} {corruption(rng, tn, size)}")
    ops.append(f"deliver {rng.choice(['a', 'x'])} none")
    ops.append(f"fetch b {cid}")
    for _ in range(rng.randint(0, 2)):
        ops.append(f"deliver x {corruption(rng, tn, size)}")
    if rng.random() < 0.4:
        ops.append(f"announce x {corruption(rng, tn, size)} 1")
        ops.append(f"deliver x {rng.choice(['none', corruption(rng, tn, size)])}")
    ops += [f"fetch b {cid}", "serve"]
    return Case(ops=ops, tag="replicate")


def generate(ctx, budget):
    rng = ctx.rng
    cases = []
    # every shard configuration once with every boundary size spread over them
    for i, tn in enumerate(SHARD_CONFIGS):
        big = _eff(tn)[1] > 100
        cases.append(case_roundtrip(rng, i, tn=tn, size=SIZES[i % len(SIZES)] if not big else rng.choice([1, 64, 65]), tag="shards"))
        if not big or ctx.tier == "thorough" or i % 2 == 0:
            cases.append(case_tamper(rng, i, tn=tn, size=rng.choice([1, 64, 65]), tag="shards-tamper"))
    for i, size in enumerate(SIZES):
        cases.append(case_roundtrip(rng, 100 + i, size=size, tag="sizes"))
        cases.append(case_tamper(rng, 100 + i, size=max(size, 1), tag="sizes-tamper"))
    k = 200
    while len(cases) < budget:
        k += 1
        shape = rng.choices(["roundtrip", "tamper", "ttl", "zero", "multi", "poison", "replicate"], weights=[16, 36, 10, 4, 10, 12, 12])[0]
        if shape == "roundtrip":
            cases.append(case_roundtrip(rng, k))
        elif shape == "tamper":
            cases.append(case_tamper(rng, k))
        elif shape == "ttl":
            cases.append(case_ttl(rng, k))
        elif shape == "zero":
            cases.append(case_zero_key(rng, k))
        elif shape == "poison":
            cases.append(case_poison(rng, k))
        elif shape == "replicate":
            cases.append(case_replicate(rng, k))
        else:
            cases.append(case_multi(rng, k))
    # large payloads: 64 KiB always, 1 MiB in the thorough tier (counter from the id next to the 32-bit wrap)
    wrap_id = (2 ** 32 - 3).to_bytes(4, "little").hex() + "11" * 28
    big = [65536, 65537] + ([1048576, 1048575] if ctx.tier == "thorough" else [])
    for n in big:
        seed = rng.getrandbits(40)
        cases.append(Case(ops=[_cfg(rng, (3, 5), WINDOWS[0], sub=0), f"store {wrap_id} gen:{n}:{seed} 3600 {_rng_tok(rng)}", f"fetch a {wrap_id}",
                               f"receive ct:{n - 1}:1", "receive ct:64:128", "receive none", f"fetch b {wrap_id}", "cli none",
                               f"cli ct:{n // 2}:4"], tag="large"))
    return cases


def nontrivial(r: CaseResult) -> bool:
    """a case counts when a store of a (non-excluded) chunk was answered well-formed and at least one look-up, import or CLI
    decryption of it ran"""
    stored = any(op.startswith("store ") and out.startswith("ok held=") and " zk" not in op for op, out in zip(r.case.ops, r.impl))
    used = any(op.split(" ")[0] in ("fetch", "receive", "cli", "deliver", "serve") and (out.startswith(("hit", "miss", "accept", "reject", "ok", "null", "ack=", "chunk", "nack")))
               for op, out in zip(r.case.ops, r.impl))
    return stored and used


def post(ctx, results):
    zk = zk_fetch_ok = zk_nonempty = 0
    refused_untampered = accepted = rejected = cli_ok = cli_null = 0
    kinds: dict[str, int] = {}
    for r in results:
        last_zero = False
        last_payload = ""
        for op, out, v in zip(r.case.ops, r.impl, r.verdicts):
            t = op.split(" ")
            if t[0] == "store":
                last_zero = t[4].startswith("zk")
                last_payload = t[2]
                if last_zero:
                    zk += 1
            elif t[0] == "fetch" and last_zero and t[1] == "a":
                if last_payload != "-":
                    zk_nonempty += 1
                    # the payload's canonical form is not printed by the harness for a store; a hit with the same bytes is only
                    # recognisable for literal payloads
                    if not last_payload.startswith("gen:") and out == "hit " + last_payload:
                        zk_fetch_ok += 1
            elif t[0] == "receive" and not last_zero:
                if out.startswith("accept"):
                    accepted += 1
                elif out.startswith("reject"):
                    rejected += 1
                    if t[1] in ("none", "rev") or t[1].startswith("rot:"):
                        if v == "ok":
                            refused_untampered += 1
                for item in t[1].split("+"):
                    kinds[item.split(":")[0]] = kinds.get(item.split(":")[0], 0) + 1
            elif t[0] == "cli" and not last_zero:
                cli_ok += out.startswith("ok")
                cli_null += out == "null"
    ctx.coverage["receive"] = {"accepted": accepted, "rejected": rejected, "cli_ok": cli_ok, "cli_null": cli_null, "corruption_items": kinds}
    ctx.coverage["excluded_point_zero_key"] = {"stores": zk, "local_fetches_nonempty": zk_nonempty, "returned_the_payload": zk_fetch_ok}
    ctx.coverage["untampered_refused_by_ttl_window"] = refused_untampered
    ctx.notes.append(f"excluded point (all-zero chunk key, forced by interposing std::random_device; probability 2^-256 in the field): "
                     f"{zk} stores, {zk_nonempty} local look-ups of a non-empty payload, {zk_fetch_ok} returned it - each temporary "
                     "CryptoManager swaps in its own random key (theorems C11.zero_key, zero_key_counterexample); echoed, not judged")
    ctx.notes.append(f"{refused_untampered} untampered replica imports were refused because the importing node's TTL window did not admit "
                     "the manifest (expired, or fewer than min_manifest_ttl whole seconds left - includes TTL = min stored on a sub-second "
                     "wall clock and handed over at once: the URI floors the expiry to seconds); admission policy is C03's, not judged here")


def spec() -> Spec:
    return Spec(
        pid=PID,
        proof_modules=["EphVerif.Proofs.C11"],
        soft_proof_modules=["EphVerif.Proofs.SystemReplication"],
        driver="drv_c11",
        harness=harness,
        generate=generate,
        extract=extract,
        nontrivial=nontrivial,
        budget={"quick": 300, "thorough": 5000},
        search_budget={"quick": 800, "thorough": 8000},
        post=post,
        per_case_timeout=60.0,
        batch=400,
        rule="cases = one fresh pair of real Nodes (publisher A, importer B) + the CLI function: store on A (payload sizes 0, 1, 63, 64, 65, "
             "4096, random <= 8192, 64 KiB, thorough: 1 MiB; shard configurations (1,1)..(8,8), (3,5), (2,255), (254,254), (255,255), "
             "degenerate (0,0), (5,3); ids with LE32(id) next to 2^32; TTLs around the window), local fetch, replica import / CLI decrypt of "
             "the untampered pair and of 30 corruption kinds (ciphertext byte / append / truncate; manifest hash, nonce, id (counter and "
             "non-counter bytes), share value inside / outside the first t, share index duplicate / zero / foreign, threshold 0 / t-1 / t+1 / "
             "255, total, expiry past / future / edge, dropped share, reordering; combinations), re-import after accept, two chunks / "
             "re-store of an id, hand-over at TTL edges, forced all-zero key. distinct = sha256 of the op list; non-trivial = a store "
             "answered well-formed and at least one fetch / receive / cli of it ran",
        trusted_base=["Spec.sha256 (FIPS 180-4, C08 vectors), Spec.chacha20 (RFC 8439, C09 vectors), ShamirSpec Lagrange reconstruction "
                      "(C10) used by the monitor", "theorems of C08 (sha_digest), C09 (manager_roundtrip, manager_encrypt_spec, "
                      "manager_decrypt_spec, manager_zero_key*), C10 (split, combine) are imported",
                      "harness/pipeline_h.cpp state fingerprint and std::random_device interposition"],
        assumptions=["replica clause: the importing node's TTL window admits the manifest (C03 policy)",
                     "chunk key != 0^32 (generate_key draws 32 random bytes; excluded point characterised and replayed)",
                     "record / shard-table / provider lifetimes are not modelled (C01-C03): look-ups happen within lifetime"],
    )


def run(tier, seed, replay=None):
    return standard_check(spec(), tier, seed, replay)
