"""C13 — signed messages are accepted only with the exact MAC over the exact bytes."""
from tools.vlib import *
from props import C15 as base
from props.C15 import KINDS, Msg, accepted, hexs, py_encode, rand_key, rand_msg
from props.C16 import sign

PID = "C13"
READY = True
MANIFEST = {
    "level_text": "Lean 4 theorems about a model of Message.cpp's encode_signed/decode_signed and HmacSha256::verify, for an arbitrary MAC function with 32-byte tags (so independent of C08): decode_signed returns m exactly when the buffer has at least 32 bytes, its last 32 bytes equal the MAC under the key of the preceding bytes, and those bytes decode to m (iff); every other buffer or key is rejected, never out of bounds (rejected_unless_tagged, with tag changes, truncations, extensions as instances), and acceptance after a body or key change is reduced to an explicit MAC collision (body_change_needs_collision, other_key_needs_collision). The branch-free tag comparison is proved to be equality. Tied to the code by the regenerated digest size and a differential run of the real decode_signed against the compiled model instantiated with the Lean RFC 2104 HMAC-SHA256 of C08, on every single-bit flip, every truncation, extensions, reorderings, wrong keys and key lengths 0..100, with the Lean specification recomputing the MAC equation for every buffer the implementation accepts or rejects. A second proof module (Proofs/SystemMessaging) composes this with C12, C14, C15/C16 and, through C08/C09, with the implementation models of HMAC/SHA-256/ChaCha20: a message signed under the session key of one end of a completed handshake is accepted by the other end as exactly that message, lists of signed messages cross the framed encrypted transport in order under any chunking, and a tampered frame ciphertext is delivered by the (malleable) cipher but rejected by the MAC unless it is a forgery.",
    "level_note": "The clause 'any ... different key causes rejection' is proved in the exact form 'rejected unless the MAC equation holds': HMAC collision/forgery resistance is a cryptographic assumption and is not claimed (zero-extended keys up to the block size are genuine HMAC-equivalent keys and are accepted by any RFC 2104 implementation). Trusted: Lean kernel; hand transcription of decode_signed/verify (validated by the differential run); Spec/Hmac.lean as the monitor's MAC.",
    "technique": "Lean 4 proof (iff characterisation, MAC as a parameter) + model/implementation differential correspondence with Lean monitor (RFC 2104 HMAC)",
}


def gen_case(rng, shape: str, big: bool) -> Case:
    kind = rng.choice(KINDS)
    m = rand_msg(rng, kind, rng.choice([1, 2, 3, 4, 4]), size="small")
    body = py_encode(m)
    if len(body) > 168:
        m = rand_msg(rng, rng.choice(["req", "ack", "hs", "hsa"]), rng.choice([1, 2, 3, 4]))
        body = py_encode(m)
    key = rand_key(rng)
    buf = sign(key, body)
    k, h = hexs(key), hexs(buf)
    ops = [f"decs {k} {h}"]
    if shape == "bitflip":
        nbits = len(buf) * 8
        positions = range(nbits) if big or len(buf) <= 70 else sorted(set(rng.sample(range(nbits), 400)) | set(range(nbits - 256, nbits, 5)))
        for bit in positions:
            b = bytearray(buf)
            b[bit // 8] ^= 1 << (bit % 8)
            ops.append(f"decs {k} {hexs(bytes(b))}")
    elif shape == "truncate":
        for n in range(len(buf)):
            ops.append(f"decs {k} {hexs(buf[:n])}")
        # truncations re-tagged: a correctly tagged shorter body is a different, valid signed buffer
        for n in sorted(set(rng.sample(range(len(body) + 1), min(8, len(body) + 1)))):
            ops.append(f"decs {k} {hexs(sign(key, body[:n]))}")
    elif shape == "extend":
        for n in list(range(1, 65)) if big else [1, 2, 3, 8, 16, 31, 32, 33, 63, 64]:
            ext = rng.randbytes(n)
            ops.append(f"decs {k} {hexs(buf + ext)}")
            ops.append(f"decs {k} {hexs(ext + buf)}")
            if n in (1, 8, 32):
                ops.append(f"decs {k} {hexs(sign(key, body + ext))}")      # decode ignores trailing bytes: accepted
                ops.append(f"decs {k} {hexs(body + ext + buf[-32:])}")     # old tag over a longer body
    elif shape == "reorder":
        half = len(buf) // 2
        ops.append(f"decs {k} {hexs(buf[half:] + buf[:half])}")
        ops.append(f"decs {k} {hexs(buf[-32:] + buf[:-32])}")
        ops.append(f"decs {k} {hexs(buf[::-1])}")
        ops.append(f"decs {k} {hexs(buf[:-32] + buf[-32:][::-1])}")
        ops.append(f"decs {k} {hexs(buf[:-32] + buf[-16:] + buf[-32:-16])}")
        if len(body) > 3:
            i, j = sorted(rng.sample(range(len(body)), 2))
            b = bytearray(buf)
            b[i], b[j] = b[j], b[i]
            ops.append(f"decs {k} {hexs(bytes(b))}")
        m2 = rand_msg(rng, kind, m.version)
        buf2 = sign(key, py_encode(m2))
        ops.append(f"decs {k} {hexs(buf2[:-32] + buf[-32:])}")        # tag of another message
        ops.append(f"decs {k} {hexs(buf[:-32] + bytes(32))}")
        ops.append(f"decs {k} {hexs(buf[:-32])}")
        ops.append(f"decs {k} {hexs(buf[-32:])}")
    elif shape == "key":
        for n in (range(0, 101) if big else [0, 1, 2, 16, 31, 32, 33, 55, 56, 63, 64, 65, 66, 99, 100]):
            key2 = rng.randbytes(n)
            ops.append(f"decs {hexs(key2)} {h}")                                       # wrong key
            ops.append(f"decs {hexs(key2)} {hexs(sign(key2, body))}")                   # right key of that length
            if n in (0, 64, 65, 100):
                ops.append(f"svs {hexs(key2)} {m.tokens()}")
                ops.append(f"encs {hexs(key2)} {m.tokens()}")
        if key:
            kb = bytearray(key)
            kb[rng.randrange(len(kb))] ^= 1 << rng.randrange(8)
            ops.append(f"decs {hexs(bytes(kb))} {h}")
            ops.append(f"decs {hexs(key + bytes(1))} {h}")      # zero-extended key: same HMAC key block up to 64 bytes (RFC 2104 padding)
            ops.append(f"decs {hexs(key[:-1])} {h}")
    elif shape == "undecodable":
        # correct tag over bodies the plain decoder refuses
        for bad in [b"", b"\x04", body[:2], body[:len(body) // 2], bytes([0]) + body[1:], bytes([5]) + body[1:],
                    body[:1] + bytes([9]) + body[2:], rng.randbytes(rng.choice([1, 5, 40]))]:
            ops.append(f"decs {k} {hexs(sign(key, bad))}")
    else:  # structured: sign and verify through the implementation itself
        for _ in range(4):
            m = rand_msg(rng, rng.choice(KINDS), size=rng.choice(["small", "edge"]))
            key = rand_key(rng)
            ops.append(f"svs {hexs(key)} {m.tokens()}")
            ops.append(f"encs {hexs(key)} {m.tokens()}")
    return Case(ops=ops, tag=f"{shape}/{kind}")


def sweep_case(rng, kind: str) -> Case:
    """Length sweep (seeded change round 4: a SHA-256 padding fault that shows only when the hashed stream ends 55 bytes
    into a block). For one payload kind, signed bodies whose encoded length hits every residue mod 64 — twice, so that
    55, 119 and 183-like lengths all occur — by tuning a variable-length field (announce endpoint / manifest uri, chunk
    data) or, for the fixed-size kinds, by trailing bytes after the message (decode ignores them). Per length:
    (a) `encs`: the real code signs, the monitor compares the tag with the spec HMAC (`mac-enc`);
    (b) `decs` of body || spec tag (computed here with Python's hmac, recomputed in Lean by the monitor): must be accepted
        (`mac-reject`); and of the body under a one-bit-wrong tag: must be rejected (`mac-accept`).
    Keys whose length is 55 mod 64 beyond the block size (119, 183) go through the key hash and are swept too."""
    key = rng.randbytes(32)
    k = hexs(key)
    ops = []
    version = rng.choice([1, 2, 3, 4]) if kind == "ann" else rng.choice([1, 2, 3, 4])
    base = rand_msg(rng, kind, version, size="small")
    for i in range(128):
        m = Msg(base.version, base.type, base.kind, list(base.f))
        pad = b""
        if kind == "chk":
            m.f[1] = b""
            m.f[1] = rng.randbytes((i - len(py_encode(m))) % 64 + (64 if i >= 64 else 0))
        elif kind == "ann":
            m.f[2], m.f[4], m.f[5] = b"", b"", rng.randbytes(rng.choice([0, 1, 3]))
            n = (i - len(py_encode(m))) % 64 + (64 if i >= 64 else 0)
            cut = rng.randint(0, n)
            m.f[2], m.f[4] = rng.randbytes(cut), rng.randbytes(n - cut)
        else:
            pad = rng.randbytes((i - len(py_encode(m))) % 64 + (64 if i >= 64 else 0))
        body = py_encode(m) + pad
        assert len(body) % 64 == i % 64
        if not pad:
            ops.append(f"encs {k} {m.tokens()}")
        good = sign(key, body)
        ops.append(f"decs {k} {hexs(good)}")
        bad = bytearray(good)
        bad[-1 - rng.randrange(32)] ^= 1 << rng.randrange(8)
        ops.append(f"decs {k} {hexs(bytes(bad))}")
    m = rand_msg(rng, kind, 4, size="small")
    body = py_encode(m)
    for n in [55, 56, 63, 64, 65, 119, 120, 183, 184]:
        key2 = rng.randbytes(n)
        ops.append(f"encs {hexs(key2)} {m.tokens()}")
        ops.append(f"decs {hexs(key2)} {hexs(sign(key2, body))}")
    return Case(ops=ops, tag=f"length-sweep/{kind}")


SHAPES = ["bitflip", "truncate", "extend", "reorder", "key", "undecodable", "structured", "reorder", "key"]


def generate(ctx, budget):
    rng = ctx.rng
    cases = [sweep_case(rng, kind) for kind in KINDS]          # always, whatever the seed
    cases += [gen_case(rng, SHAPES[i % len(SHAPES)], ctx.tier == "thorough" and i % 4 == 0) for i in range(budget - len(cases))]
    if ctx.tier == "thorough":
        cases += [sweep_case(rng, KINDS[i % 6]) for i in range(60)]
    return cases


def nontrivial(r: CaseResult) -> bool:
    """a case counts when it contains both an accepted and a rejected signed buffer"""
    acc = [accepted(o) or o == "same" for op, o in zip(r.case.ops, r.impl) if op.startswith(("decs", "svs"))]
    return any(acc) and (not all(acc) or r.case.tag.startswith("structured"))


def spec() -> Spec:
    return Spec(
        pid=PID,
        proof_modules=["EphVerif.Proofs.C13"],
        soft_proof_modules=["EphVerif.Proofs.SystemMessaging"],
        driver="drv_c13",
        harness=base.harness,
        generate=generate,
        extract=base.extract,
        nontrivial=nontrivial,
        budget={"quick": 270, "thorough": 5000},
        divergence_is_violation=True,
        rule="a length sweep per payload kind (signed bodies of every encoded length mod 64, twice: 55, 56, 63, 0, 119, ... "
             "by tuning endpoint/manifest/data or trailing bytes; keys of 55..184 bytes): the real signer's tag against the spec "
             "HMAC, body||spec-tag must be accepted, a one-bit-wrong tag rejected; then "
             "signed buffers body||HMAC(key, body) over all six payload kinds: every single-bit flip (all positions for buffers "
             "<= 70 B in quick, <= 200 B in thorough; the tag always densely), truncation at every length, extension/prefixing by "
             "1..64 bytes, reordering (halves, tag first, reversed, swapped bytes, foreign tag), wrong keys and keys of length "
             "0..100 (including zero-extended and shortened keys), correct tags over undecodable bodies, encs/svs (sign then verify "
             "= plain encode then decode) through the implementation; non-trivial = the case contains an accepted and a rejected buffer",
        trusted_base=base.TRUSTED + ["Spec/Hmac.lean, Spec/Sha256.lean (RFC 2104 / FIPS 180-4 in Lean, property C08) as the monitor's MAC"],
        assumptions=["HMAC-SHA256 collision/forgery resistance is not claimed: the theorems state acceptance is *equivalent* to the MAC equation"],
    )


def run(tier, seed, replay=None):
    return standard_check(spec(), tier, seed, replay)
