"""C17 — manifests round-trip, and unrepresentable manifests are refused.
(The helpers below — extractor, manifest generator, reference encoder — are shared with props/C18.py.)"""
import base64
import re
import struct
from dataclasses import dataclass, field

from tools.vlib import *

PID = "C17"
READY = True
MANIFEST = {
    "level_text": "Lean 4 theorems over a model of encode_manifest / decode_manifest / the file's own base64: for EVERY manifest value "
                  "(any list lengths, any string lengths, any int64 expiry) that passes the encoder's length tests, decoding the produced "
                  "eph:// URI returns exactly the input with the expiry cut to whole seconds, an empty discovery scheme replaced by its "
                  "transport and an unflagged digest zeroed (C17.roundtrip); every manifest with a counted list above 255 entries or a "
                  "string beyond its 8/16-bit length field is answered with length_error and nothing else (C17.refuse), the accepted set "
                  "being exactly the property's literal limits 255 / 65535 (examples at 255/256 and 65535/65536); base64 decode∘encode = id "
                  "for all byte strings. Tied to the code by regenerated constants (version byte, eph:// prefix, alphabet, array sizes, "
                  "header size terms, and operator+limit of each of the 11 length tests) and by a differential run of the real "
                  "encode/decode under ASan+UBSan against the compiled model, with the specification (normalise / Encodable) judging each "
                  "implementation answer.",
    "level_note": "Trusted: Lean kernel; the hand transcription of Manifest.cpp into Lean (validated only by the differential run: "
                  "enc / decode(encode) / dec on generated manifests incl. 0..300-entry lists and 254..256 / 65534..65536-byte strings); "
                  "std::map ordering and emplace modelled as sorted insertion on unsigned bytes; std::string / vector allocation failure "
                  "is not modelled; the WF hypothesis states that a value is one the C++ struct can hold (array sizes, sorted map, int64 ticks).",
    "technique": "Lean 4 proof (parser/serialiser inversion by induction over lists) + model/implementation differential correspondence with Lean monitor",
}

SRC = "src/protocol/Manifest.cpp"
HDR = "include/ephemeralnet/protocol/Manifest.hpp"
I64_MIN, I64_MAX = -(2 ** 63), 2 ** 63 - 1
NS = 10 ** 9


def harness():
    return build_harness("manifest_h", "harness/manifest_h.cpp", [SRC], includes_repo_cpp=False)


# ------------------------------------------------------------------------------------------
# (T) extraction
# ------------------------------------------------------------------------------------------

LIMIT_CHECKS = [  # generated name, expression whose .size() is tested, default limit
    ("refuseShardCount", r"manifest\.shards", 255),
    ("refuseMetadataCount", r"manifest\.metadata", 255),
    ("refuseMetadataKey", r"key", 255),
    ("refuseMetadataValue", r"value", 65535),
    ("refuseDiscoveryCount", r"manifest\.discovery_hints", 255),
    ("refuseDiscoveryScheme", r"scheme", 255),
    ("refuseDiscoveryTransport", r"hint\.transport", 255),
    ("refuseDiscoveryEndpoint", r"hint\.endpoint", 65535),
    ("refuseFallbackCount", r"manifest\.fallback_hints", 255),
    ("refuseFallbackUri", r"hint\.uri", 65535),
    ("refuseAdvisory", r"manifest\.security\.advisory", 65535),
]


def _c_string(lit: str) -> bytes:
    return lit.encode().decode("unicode_escape").encode("latin-1")


def extract():
    gaps: list[str] = []
    try:
        src = vlib_strip((REPO / SRC).read_text(errors="replace"))
    except OSError as ex:
        src = ""
        gaps.append(f"{SRC}: {ex}")
    try:
        enc_body = src[src.index("std::string encode_manifest"):src.index("Manifest decode_manifest")]
    except ValueError:
        enc_body = src
        gaps.append("encode_manifest body not delimited")

    vals, g = extract_consts([
        Const("kManifestVersion", SRC, r"constexpr\s+std::uint8_t\s+kManifestVersion\s*=\s*([^;]+);", default=4),
        Const("kAttestationDigestSize", SRC, r"constexpr\s+std::size_t\s+kAttestationDigestSize\s*=\s*([^;]+);", default=32),
        Const("chunkIdSize", "include/ephemeralnet/Types.hpp", r"using\s+ChunkId\s*=\s*std::array<\s*std::uint8_t\s*,\s*(\d+)\s*>", default=32),
        Const("chunkHashSize", HDR, r"std::array<\s*std::uint8_t\s*,\s*(\d+)\s*>\s*chunk_hash", default=32),
        Const("nonceSize", "include/ephemeralnet/crypto/ChaCha20.hpp", r"struct\s+Nonce\s*\{\s*std::array<\s*std::uint8_t\s*,\s*(\d+)\s*>\s*bytes", default=12),
        Const("shardValueSize", HDR, r"struct\s+KeyShard\s*\{.{0,200}?std::array<\s*std::uint8_t\s*,\s*(\d+)\s*>\s*value", default=32),
        Const("digestArraySize", HDR, r"std::array<\s*std::uint8_t\s*,\s*(\d+)\s*>\s*attestation_digest", default=32),
        Const("shardStride", SRC, r"shard_count\s*\*\s*(\d+)\s*>\s*payload\.size\(\)", default=33),
    ])
    gaps += g

    def string_const(name: str, default: bytes) -> bytes:
        m = re.search(r"constexpr\s+char\s+" + name + r"\[\]\s*=\s*\"((?:[^\"\\]|\\.)*)\"", src)
        if not m:
            gaps.append(f"{name}: pattern not found")
            return default
        return _c_string(m.group(1))

    scheme = string_const("kScheme", b"eph://")
    alphabet = string_const("kBase64Alphabet", b"ABCDEFGHIJKLMNOPQRSTUVWXYZabcdefghijklmnopqrstuvwxyz0123456789+/")

    # header size expression of `if (payload.size() < 1 + ChunkId{}.size() + 32 + sizeof(crypto::Nonce::bytes) + 8 + 3)`
    terms = [1, 32, 32, 12, 8, 3]
    m = re.search(r"payload\.size\(\)\s*<\s*([^;]+?)\)\s*\{\s*throw", src)
    try:
        if not m:
            raise ValueError("pattern not found")
        e = m.group(1)
        e = re.sub(r"ChunkId\{\}\.size\(\)", str(vals["chunkIdSize"]), e)
        e = re.sub(r"sizeof\(\s*crypto::Nonce::bytes\s*\)", str(vals["nonceSize"]), e)
        terms = [eval_cxx_int(t) for t in e.split("+")]
    except Exception as ex:
        gaps.append(f"headerMinTerms: {ex}")

    versions = [1, 2, 3, 4]
    m = re.search(r"if\s*\(\s*(version\s*!=[^\{]*?)\)\s*\{\s*throw\s+std::invalid_argument\(\"unsupported", src)
    try:
        if not m:
            raise ValueError("pattern not found")
        versions = []
        for v in re.findall(r"version\s*!=\s*(\w+)", m.group(1)):
            versions.append(vals["kManifestVersion"] if v == "kManifestVersion" else int(v))
    except Exception as ex:
        versions = [1, 2, 3, 4]
        gaps.append(f"supportedVersions: {ex}")

    lines = [f"def kManifestVersion : Nat := {vals['kManifestVersion']}",
             f"def kScheme : List UInt8 := {list(scheme)}",
             f"def kBase64Alphabet : List UInt8 := {list(alphabet)}"]
    for k in ("kAttestationDigestSize", "chunkIdSize", "chunkHashSize", "nonceSize", "shardValueSize", "digestArraySize"):
        lines.append(f"def {k} : Nat := {vals[k]}")
    lines.append(f"def headerMinTerms : List Nat := {terms}")
    lines.append(f"def shardStride : Nat := {vals['shardStride']}")
    lines.append(f"def supportedVersions : List Nat := {versions}")
    for name, expr, dflt in LIMIT_CHECKS:
        pat = (r"if\s*\(\s*" + expr + r"\.size\(\)\s*(>=|>)\s*std::numeric_limits<\s*std::uint(8|16)_t\s*>::max\(\)\s*\)\s*"
               r"\{\s*throw\s+std::length_error")
        m = re.search(pat, enc_body)
        if m:
            op, lim = m.group(1), (255 if m.group(2) == "8" else 65535)
        else:
            op, lim = ">", dflt
            gaps.append(f"{name}: length test on {expr.replace(chr(92), '')}.size() not found")
        lean_op = {">": ">", ">=": "≥"}[op]
        lines.append(f"def {name} (n : Nat) : Bool := decide (n {lean_op} {lim})")
    write_generated(PID, "\n".join(lines))
    return gaps


def vlib_strip(text: str) -> str:
    """drop // and /* */ comments, leaving string and character literals alone ("eph://" !)"""
    out, i, n = [], 0, len(text)
    while i < n:
        c = text[i]
        if c in "\"'":
            j = i + 1
            while j < n and text[j] != c:
                j += 2 if text[j] == "\\" else 1
            out.append(text[i:j + 1])
            i = j + 1
        elif text.startswith("//", i):
            j = text.find("\n", i)
            i = n if j < 0 else j
        elif text.startswith("/*", i):
            j = text.find("*/", i + 2)
            out.append(" ")
            i = n if j < 0 else j + 2
        else:
            out.append(c)
            i += 1
    return "".join(out)


# ------------------------------------------------------------------------------------------
# manifests on the generator side
# ------------------------------------------------------------------------------------------

def bs(b: bytes) -> str:
    """compact byte-string notation understood by harness and driver (runs as rHHxN)"""
    if not b:
        return "-"
    parts, lit, i = [], bytearray(), 0
    while i < len(b):
        j = i
        while j < len(b) and b[j] == b[i]:
            j += 1
        if j - i >= 8:
            if lit:
                parts.append(lit.hex())
                lit = bytearray()
            parts.append(f"r{b[i]:02x}x{j - i}")
        else:
            lit += b[i:j]
        i = j
    if lit:
        parts.append(lit.hex())
    return "+".join(parts)


@dataclass
class M:
    chunk_id: bytes = b"\x01" * 32
    chunk_hash: bytes = b"\x02" * 32
    nonce: bytes = b"\x03" * 12
    exp_ns: int = 0
    thr: int = 0
    tot: int = 0
    shards: list = field(default_factory=list)       # (index, 32 bytes)
    meta: list = field(default_factory=list)         # (key, value), distinct keys
    disc: list = field(default_factory=list)         # (scheme, transport, endpoint, prio)
    tok: int = 0
    adv: bytes = b""
    has_dig: bool = False
    dig: bytes = b"\x00" * 32
    fb: list = field(default_factory=list)           # (uri, prio)

    def fields(self) -> str:
        def lst(xs, f):
            return ",".join(f(x) for x in xs) if xs else "-"
        return " ".join([
            "id=" + bs(self.chunk_id), "hash=" + bs(self.chunk_hash), "nonce=" + bs(self.nonce), f"exp={self.exp_ns}",
            f"thr={self.thr}", f"tot={self.tot}",
            "sh=" + lst(self.shards, lambda s: f"{s[0]}:{bs(s[1])}"),
            "meta=" + lst(self.meta, lambda e: f"{bs(e[0])}:{bs(e[1])}"),
            "disc=" + lst(self.disc, lambda h: f"{bs(h[0])}:{bs(h[1])}:{bs(h[2])}:{h[3]}"),
            f"tok={self.tok}", "adv=" + bs(self.adv), f"dig={1 if self.has_dig else 0}:{bs(self.dig)}",
            "fb=" + lst(self.fb, lambda f: f"{bs(f[0])}:{f[1]}"),
        ])

    def encodable(self) -> bool:
        return (len(self.shards) <= 255 and len(self.meta) <= 255 and all(len(k) <= 255 and len(v) <= 65535 for k, v in self.meta)
                and len(self.disc) <= 255 and all(len(s or t) <= 255 and len(t) <= 255 and len(e) <= 65535 for s, t, e, _ in self.disc)
                and len(self.fb) <= 255 and all(len(u) <= 65535 for u, _ in self.fb) and len(self.adv) <= 65535)


def trunc_div(a: int, b: int) -> int:
    q = abs(a) // abs(b)
    return q if (a >= 0) == (b >= 0) else -q


def ref_payload(m: M, version: int = 4, exp_u64=None) -> bytes:
    """Reference serialiser used only to *produce decoder inputs* (valid, then mutated); lengths and
    counts are reduced modulo their field width so that any M yields some byte string."""
    if exp_u64 is None:
        exp_u64 = trunc_div(m.exp_ns, NS) % 2 ** 64
    out = bytearray([version & 0xFF]) + m.chunk_id + m.chunk_hash + m.nonce + struct.pack(">Q", exp_u64)
    out += bytes([m.thr, m.tot, len(m.shards) % 256])
    for i, v in m.shards:
        out += bytes([i]) + v
    if version == 1:
        return bytes(out)
    out.append(len(m.meta) % 256)
    for k, v in sorted(m.meta):
        out += bytes([len(k) % 256]) + k + struct.pack(">H", len(v) % 65536) + v
    if version == 2:
        return bytes(out)
    out.append(len(m.disc) % 256)
    for s, t, e, p in m.disc:
        if version >= 4:
            s = s or t
            out += bytes([len(s) % 256]) + s
        out += bytes([len(t) % 256]) + t + struct.pack(">H", len(e) % 65536) + e + bytes([p])
    out += bytes([m.tok]) + struct.pack(">H", len(m.adv) % 65536) + m.adv + bytes([1 if m.has_dig else 0])
    if m.has_dig:
        out += m.dig
    out.append(len(m.fb) % 256)
    for u, p in m.fb:
        out += struct.pack(">H", len(u) % 65536) + u + bytes([p])
    return bytes(out)


def ref_uri(m: M, version: int = 4, exp_u64=None) -> bytes:
    return b"eph://" + base64.b64encode(ref_payload(m, version, exp_u64))


def rbytes(rng, n: int) -> bytes:
    """n bytes: mostly a long run plus a random tail (compact on the wire), sometimes all random"""
    if n <= 24 or rng.random() < 0.3 and n <= 600:
        return bytes(rng.randrange(256) for _ in range(n))
    tail = rng.randint(0, min(12, n))
    return bytes([rng.randrange(256)]) * (n - tail) + bytes(rng.randrange(256) for _ in range(tail))


EXPIRIES = [0, 1, -1, 999_999_999, -999_999_999, NS, -NS, NS + 1, -NS - 1, 1_500_000_000, -1_500_000_000,
            1_700_000_000 * NS + 123_456_789, 2 ** 33 * NS, 9223372036 * NS, 9223372036 * NS + 854775807, -9223372036 * NS,
            -9223372036 * NS - 854775808, I64_MAX, I64_MIN, I64_MAX - 1, I64_MIN + 1, 2 ** 62, -(2 ** 62)]
LEN8 = [0, 1, 2, 31, 254, 255, 256, 257, 300]
LEN16 = [0, 1, 255, 256, 65534, 65535, 65536, 65537]
COUNTS = [0, 1, 2, 3, 44, 254, 255, 256, 257, 300]


def small_len(rng) -> int:
    return rng.choice([0, 0, 1, 2, 3, 5, 8, 16, 40])


def gen_manifest(rng, shape: str) -> M:
    m = M()
    m.chunk_id, m.chunk_hash, m.nonce = rbytes(rng, 32), rbytes(rng, 32), rbytes(rng, 12)
    m.exp_ns = rng.choice(EXPIRIES) if rng.random() < 0.5 else rng.randint(I64_MIN, I64_MAX) if rng.random() < 0.3 else rng.randint(-4 * NS, 2 ** 33 * NS)
    m.thr, m.tot, m.tok = rng.randrange(256), rng.randrange(256), rng.randrange(256)
    m.has_dig = rng.random() < 0.5
    m.dig = rbytes(rng, 32) if rng.random() < 0.8 else bytes(32)
    m.adv = rbytes(rng, small_len(rng))

    def key(i):  # distinct keys
        return bytes([i // 256, i % 256]) + rbytes(rng, rng.choice([0, 1, 3]))

    def hint(slen=None, tlen=None, elen=None):
        s = rbytes(rng, small_len(rng) if slen is None else slen) if rng.random() < 0.6 or slen is not None else b""
        return (s, rbytes(rng, small_len(rng) if tlen is None else tlen), rbytes(rng, small_len(rng) if elen is None else elen), rng.randrange(256))

    m.shards = [(rng.randrange(256), rbytes(rng, 32)) for _ in range(rng.choice([0, 1, 2, 3, 5]))]
    m.meta = [(key(i), rbytes(rng, small_len(rng))) for i in range(rng.choice([0, 1, 2, 4]))]
    m.disc = [hint() for _ in range(rng.choice([0, 1, 2, 3]))]
    m.fb = [(rbytes(rng, small_len(rng)), rng.randrange(256)) for _ in range(rng.choice([0, 1, 2]))]

    if shape == "count":
        which = rng.choice(["shards", "meta", "disc", "fb"])
        n = rng.choice(COUNTS) if rng.random() < 0.8 else rng.randint(0, 300)
        if which == "shards":
            m.shards = [(i % 256, bytes([i % 251 + 1]) * 32) for i in range(n)]
        elif which == "meta":
            m.meta = [(bytes([i // 256, i % 256]), rbytes(rng, rng.choice([0, 1, 2]))) for i in range(n)]
        elif which == "disc":
            m.disc = [(b"" if i % 3 == 0 else b"s", b"t", bytes([i % 256]), i % 256) for i in range(n)]
        else:
            m.fb = [(bytes([i % 256]), i % 256) for i in range(n)]
    elif shape == "strlen":
        which = rng.choice(["key", "value", "scheme", "transport", "scheme-empty-transport", "endpoint", "uri", "adv"])
        n8, n16 = rng.choice(LEN8), rng.choice(LEN16)
        if which == "key":
            m.meta.append((b"\xff" + rbytes(rng, max(0, n8 - 1)) if n8 else b"", rbytes(rng, 2)))
            m.meta = list({k: v for k, v in m.meta}.items())
        elif which == "value":
            m.meta.append((b"\xff\xfe", rbytes(rng, n16)))
        elif which == "scheme":
            m.disc.append(hint(slen=max(1, n8)))
        elif which == "transport":
            m.disc.append(hint(tlen=n8))
        elif which == "scheme-empty-transport":
            h = hint(tlen=n8)
            m.disc.append((b"", h[1], h[2], h[3]))
        elif which == "endpoint":
            m.disc.append(hint(elen=n16))
        elif which == "uri":
            m.fb.append((rbytes(rng, n16), 7))
        else:
            m.adv = rbytes(rng, n16)
    elif shape == "expiry":
        m.exp_ns = rng.choice(EXPIRIES) + rng.choice([0, 0, 1, -1, 999_999_999, -999_999_999])
        m.exp_ns = max(I64_MIN, min(I64_MAX, m.exp_ns))
    elif shape == "digest":
        m.has_dig = False
        m.dig = rbytes(rng, 32)
    elif shape == "scheme":
        m.disc = [(b"", rbytes(rng, small_len(rng)), rbytes(rng, 3), 1), (b"", b"", b"", 0), (b"x", b"", b"e", 2)]
    elif shape == "maporder":
        keys = [b"", b"\x00", b"\x7f", b"\x80", b"\xff", b"a", b"ab", b"b", b"a\x00", b"\x80\x00"]
        rng.shuffle(keys)
        m.meta = [(k, rbytes(rng, 2)) for k in keys[:rng.randint(2, len(keys))]]
    return m


SHAPES = ["small", "small", "count", "count", "count", "strlen", "strlen", "strlen", "expiry", "digest", "scheme", "maporder"]


def gen_case(rng) -> Case:
    shape = rng.choice(SHAPES)
    m = gen_manifest(rng, shape)
    f = m.fields()
    ops = ["rt " + f, "enc " + f]
    if m.encodable():
        ops.append("dec " + bs(ref_uri(m)))
    return Case(ops=ops, tag=shape + ("" if m.encodable() else "/unrepresentable"))


def generate(ctx, budget):
    return [gen_case(ctx.rng) for _ in range(budget)]


def nontrivial(r: CaseResult) -> bool:
    """a round trip that came back as a manifest with at least one list entry, or a refusal"""
    out = r.impl[0] if r.impl else ""
    return out.startswith("throw:length_error") or (out.startswith("ok ") and any(f" {k}=" in out and f" {k}=-" not in out for k in ("sh", "meta", "disc", "fb")))


def spec() -> Spec:
    return Spec(
        pid=PID,
        proof_modules=["EphVerif.Proofs.C17"],
        driver="drv_c17",
        harness=harness,
        generate=generate,
        extract=extract,
        nontrivial=nontrivial,
        budget={"quick": 500, "thorough": 12000},
        search_budget={"quick": 1200, "thorough": 12000},
        divergence_is_violation=True,
        rule="one manifest per case (ops: decode(encode(m)), encode(m), decode(reference URI of m)); shapes: small, one counted list at "
             "0/1/254/255/256/257/300 entries, one string at 254..257 (8-bit fields) or 65534..65537 (16-bit fields), boundary and "
             "random int64 expiries incl. negative and sub-second, unflagged non-zero digest, empty schemes, map-order keys; distinct = "
             "sha256 of the op list; non-trivial = the round trip returned a manifest with a non-empty list, or the encoder refused",
        trusted_base=["std::map<std::string,std::string> ordering/emplace (modelled as sorted insertion on unsigned bytes)",
                      "generator-side reference serialiser (props/C17.py) only produces decoder inputs; it is not an oracle"],
        assumptions=["memory exhaustion (bad_alloc) is outside the model", "system_clock::duration is int64 nanoseconds (libstdc++)"],
    )


def run(tier, seed, replay=None):
    return standard_check(spec(), tier, seed, replay)
