"""C33 — STUN responses are parsed exactly and safely."""
from tools.vlib import *

PID = "C33"
READY = True
MANIFEST = {
    "level_text": "Lean 4 theorems, for every datagram (any length) and every 12-byte transaction id: the model of "
                  "parse_stun_response performs no read outside the datagram or the transaction id (C33.safe), and its result equals "
                  "the RFC 5389 specification (C33.exact): an address is reported iff the message type is Binding Success (0x0101), the "
                  "declared length fits the datagram, the transaction id matches, and the TLV walk inside the declared message length "
                  "meets a MAPPED-ADDRESS / XOR-MAPPED-ADDRESS attribute that carries a family-1 (>= 8 value bytes) or family-2 (>= 20) "
                  "address; the reported (family, bytes, port) is the RFC decoding (XOR with the magic cookie / cookie||transaction id) "
                  "of the first such attribute in wire order. The model is tied to the code by regenerated constants (cookie, message "
                  "type, attribute types, family codes, size thresholds) and by a differential run of the real parser (compiled from "
                  "NatTraversal.cpp with ASan/UBSan on exact-size heap buffers) against the compiled Lean model, the Lean specification "
                  "judging every result.",
    "level_note": "Trusted: Lean kernel; the hand transcription of parse_stun_response into Lean (checked by the differential run only); "
                  "inet_ntop (modelled as never failing and injective: the harness converts the text back with inet_pton and compares "
                  "canonical bytes). Memory safety of the real binary is observed with ASan on datagrams <= 512 bytes (plus a few larger "
                  "ones); it is proved for the model. The specification follows the property text: 'Binding Success' is the type field "
                  "0x0101; the magic-cookie field and the two length LSBs are not required by the parser nor by the spec; value bytes beyond "
                  "the address (attribute longer than 8/20) are ignored; precedence between MAPPED-ADDRESS and XOR-MAPPED-ADDRESS is wire order.",
    "technique": "Lean 4 proof of safety and of equality with an RFC 5389 specification + model/implementation differential correspondence with Lean monitor",
}

SRC = "src/network/NatTraversal.cpp"


def harness():
    return build_harness("stun_h", "harness/stun_h.cpp", [], includes_repo_cpp=True)


def extract():
    vals, gaps = extract_consts([
        Const("kStunMagicCookie", SRC, r"constexpr\s+std::uint32_t\s+kStunMagicCookie\s*=\s*([^;]+);", default=0x2112A442),
        Const("kHeaderMin", SRC, r"parse_stun_response\s*\([^)]*\)\s*\{\s*if\s*\(\s*length\s*<\s*(\d+)\s*\)", default=20),
        Const("kHeaderSize", SRC, r"total_length\s*=\s*static_cast<std::size_t>\(\s*(\d+)\s*\+\s*message_length\s*\)", default=20),
        Const("kBindingSuccess", SRC, r"if\s*\(\s*type\s*!=\s*(0x[0-9A-Fa-f]+|\d+)\s*\|\|\s*length\s*<\s*total_length", default=0x0101),
        Const("kTxidOffset", SRC, r"std::equal\(transaction_id\.begin\(\),\s*transaction_id\.end\(\),\s*data\s*\+\s*(\d+)\s*\)", default=8),
        Const("kBodyOffset", SRC, r"std::size_t\s+offset\s*=\s*(\d+)\s*;", default=20),
        Const("kAttrHdrInBound", SRC, r"if\s*\(\s*(\d+)u?\s*\+\s*attr_length\s*>\s*remaining\s*\|\|", default=4,
              doc="the 4 header bytes counted when an attribute is checked against the declared message length"),
        Const("kAttrXorMapped", SRC, r"xor_address\s*=\s*\(\s*attr_type\s*==\s*(0x[0-9A-Fa-f]+|\d+)\s*\)", default=0x0020),
        Const("kAttrMapped", SRC, r"if\s*\(\s*\(\s*attr_type\s*==\s*(0x[0-9A-Fa-f]+|\d+)\s*\|\|\s*attr_type\s*==", default=0x0001),
        Const("kAttrXorMapped2", SRC, r"if\s*\(\s*\(\s*attr_type\s*==\s*(?:0x[0-9A-Fa-f]+|\d+)\s*\|\|\s*attr_type\s*==\s*(0x[0-9A-Fa-f]+|\d+)\s*\)", default=0x0020),
        Const("kAddrMinLen", SRC, r"attr_type\s*==\s*(?:0x[0-9A-Fa-f]+|\d+)\s*\)\s*&&\s*attr_length\s*>=\s*(\d+)\s*\)", default=4),
        Const("kFamilyV4", SRC, r"if\s*\(\s*family\s*==\s*(0x[0-9A-Fa-f]+|\d+)\s*&&\s*attr_length\s*>=\s*\d+\s*\)\s*\{\s*std::uint32_t", default=1),
        Const("kV4MinLen", SRC, r"if\s*\(\s*family\s*==\s*(?:0x[0-9A-Fa-f]+|\d+)\s*&&\s*attr_length\s*>=\s*(\d+)\s*\)\s*\{\s*std::uint32_t", default=8),
        Const("kFamilyV6", SRC, r"else\s+if\s*\(\s*family\s*==\s*(0x[0-9A-Fa-f]+|\d+)\s*&&\s*attr_length\s*>=\s*\d+\s*\)", default=2),
        Const("kV6MinLen", SRC, r"else\s+if\s*\(\s*family\s*==\s*(?:0x[0-9A-Fa-f]+|\d+)\s*&&\s*attr_length\s*>=\s*(\d+)\s*\)", default=20),
        Const("kPortXorShift", SRC, r"port\s*\^=\s*static_cast<std::uint16_t>\(\(kStunMagicCookie\s*>>\s*(\d+)\)\s*&\s*0xFFFF\)", default=16),
        Const("kStunDatagramMax", SRC, r"std::array<std::uint8_t,\s*(\d+)>\s+response\{\}", default=512),
    ])
    write_generated(PID, lean_consts(vals))
    return gaps


COOKIE = bytes.fromhex("2112a442")


def _attr(t: int, value: bytes, declared=None, pad=None, rng=None) -> bytes:
    """one TLV: type, (declared) length, value, padding to 4 (or `pad` bytes)"""
    ln = len(value) if declared is None else declared
    npad = (-len(value)) % 4 if pad is None else pad
    padding = bytes(rng.randrange(256) for _ in range(npad)) if rng else bytes(npad)
    return bytes([t >> 8, t & 255, (ln >> 8) & 255, ln & 255]) + value + padding


def _addr_value(rng, fam: int, xor: bool, tx: bytes, extra: int = 0, short: int = 0, boundary: bool = False) -> bytes:
    n = 4 if fam == 1 else 16 if fam == 2 else rng.choice([0, 4, 16])
    addr = bytes(rng.randrange(256) for _ in range(n))
    if boundary and n:
        addr = rng.choice([bytes(n), bytes([255]) * n, (COOKIE + tx)[:n], bytes([0x0a, 0, 0, 1] + [0] * 12)[:n]])
    port = rng.choice([0, 1, 0x2112, 0xffff, rng.randrange(65536)])
    v = bytes([rng.choice([0, 0, 0, 255, rng.randrange(256)]), fam, port >> 8, port & 255]) + addr
    v += bytes(rng.randrange(256) for _ in range(extra))
    if short:
        v = v[:max(0, len(v) - short)]
    return v


FILLER_TYPES = [0x8022, 0x0008, 0x8028, 0x0006, 0x0009, 0x0014, 0x0015, 0x8023, 0x0002, 0x0021, 0x0000, 0xffff]


def gen_structured(rng) -> Case:
    tx = bytes(rng.randrange(256) for _ in range(12))
    shape = rng.choice(["plain", "plain", "fillers", "lens", "overrun", "family", "twoaddr", "header", "txid", "trunc", "padding"])
    attrs = []
    nfill = rng.choice([0, 0, 1, 2, 3, 6]) if shape in ("fillers", "twoaddr", "padding", "overrun", "family") else rng.choice([0, 1])
    for _ in range(nfill):
        ln = rng.choice([0, 1, 2, 3, 4, 5, 7, 8, 9, 12, 20, 21, 31, 64])
        val = bytes(rng.randrange(256) for _ in range(ln))
        t = rng.choice(FILLER_TYPES)
        if shape == "padding" and rng.random() < 0.5:
            # padding wrong on purpose: missing or excessive
            attrs.append(_attr(t, val, pad=rng.choice([0, 1, 2, 3, 4]), rng=rng))
        else:
            attrs.append(_attr(t, val, rng=rng))
    fam = rng.choice([1, 1, 2, 2, 1, 2, 0, 3, 255]) if shape == "family" else rng.choice([1, 2])
    xor = rng.random() < 0.6
    t = 0x0020 if xor else 0x0001
    extra = rng.choice([0, 0, 0, 1, 4, 12]) if shape == "lens" else 0
    short = rng.choice([0, 1, 2, 4, 5, 13]) if shape == "lens" else 0
    val = _addr_value(rng, fam, xor, tx, extra=extra, short=short, boundary=rng.random() < 0.2)
    declared = None
    if shape == "lens" and rng.random() < 0.5:
        declared = max(0, len(val) + rng.choice([-1, 1, -4, 4, -5]))
    main_attr = _attr(t, val, declared=declared, rng=rng)
    attrs.append(main_attr)
    if shape == "twoaddr":
        # a second address attribute of the other kind: precedence is wire order
        fam2 = rng.choice([1, 2])
        attrs.append(_attr(0x0001 if xor else 0x0020, _addr_value(rng, fam2, not xor, tx), rng=rng))
        if rng.random() < 0.5:
            attrs.reverse()
    if shape in ("fillers", "twoaddr") and rng.random() < 0.5:
        attrs.append(_attr(rng.choice(FILLER_TYPES), bytes(rng.randrange(256) for _ in range(rng.choice([0, 4, 6]))), rng=rng))
    body = b"".join(attrs)
    mlen = len(body)
    trailing = b""
    if shape == "overrun":
        # the declared message length ends inside / just before the last attribute, the datagram carries all of it
        cut = rng.choice([1, 2, 3, 4, 5, 8, len(main_attr) - 4, len(main_attr), len(main_attr) + 1])
        mlen = max(0, len(body) - cut)
    elif shape == "header" or rng.random() < 0.08:
        mlen = max(0, len(body) + rng.choice([-4, -1, 1, 4, 3, -3, 8, 65535 - len(body), 0 - len(body)]))
    if rng.random() < 0.15:
        trailing = bytes(rng.randrange(256) for _ in range(rng.choice([1, 3, 4, 8, 24])))
    mtype = 0x0101
    if shape == "header":
        mtype = rng.choice([0x0101, 0x0111, 0x0001, 0x0100, 0x0201, 0x0102, 0x8101, rng.randrange(65536)])
    cookie = COOKIE if rng.random() < 0.9 else bytes(rng.randrange(256) for _ in range(4))
    htx = tx
    if shape == "txid":
        i = rng.randrange(12)
        htx = tx[:i] + bytes([tx[i] ^ (1 << rng.randrange(8))]) + tx[i + 1:] if rng.random() < 0.8 else tx
    d = bytes([mtype >> 8, mtype & 255, (mlen >> 8) & 255, mlen & 255]) + cookie + htx + body + trailing
    if shape == "trunc":
        d = d[:rng.choice([0, 1, 3, 4, 19, 20, 21, 23, 24, 27, 28, len(d) - 1, len(d) - 3, rng.randrange(len(d) + 1)])]
    d = d[:rng.choice([512, 512, 512, 600])] if len(d) > 512 else d
    return Case(ops=[f"parse {tx.hex()} {d.hex() or '-'}"], tag="s/" + shape)


def gen_random(rng) -> Case:
    tx = bytes(rng.randrange(256) for _ in range(12))
    n = rng.choice([0, 1, 19, 20, 21, 24, 28, 32, 44, 64, 128, 511, 512, rng.randrange(513)])
    kind = rng.choice(["raw", "hdr", "hdr", "sparse"])
    if kind == "raw":
        d = bytes(rng.randrange(256) for _ in range(n))
        return Case(ops=[f"parse {tx.hex()} {d.hex() or '-'}"], tag="r/raw")
    body_n = max(0, n - 20)
    if kind == "sparse":
        # bytes drawn from a small alphabet so that types 0x0001/0x0020, families and small lengths occur by chance
        alpha = [0, 0, 0, 1, 2, 4, 8, 12, 20, 0x20, 0x21, 0x12, 255]
        body = bytes(rng.choice(alpha) for _ in range(body_n))
    else:
        body = bytes(rng.randrange(256) for _ in range(body_n))
    mlen = rng.choice([body_n, body_n, body_n & ~3, max(0, body_n - rng.randrange(9)), body_n + rng.randrange(5), rng.randrange(65536)])
    d = bytes([1, 1, (mlen >> 8) & 255, mlen & 255]) + COOKIE + tx + body
    return Case(ops=[f"parse {tx.hex()} {d.hex()}"], tag="r/" + kind)


def generate(ctx, budget):
    out = []
    for i in range(budget):
        out.append(gen_structured(ctx.rng) if i % 3 != 2 else gen_random(ctx.rng))
    # pack several ops per case to keep process/IO overhead low
    packed = []
    for i in range(0, len(out), 8):
        grp = out[i:i + 8]
        tags = sorted({c.tag.split("/")[0] for c in grp})
        packed.append(Case(ops=[c.ops[0] for c in grp], tag="+".join(tags)))
    ctx.notes.append("ops per shape: " + json.dumps(_count(out)))
    return packed


def _count(cases):
    h = {}
    for c in cases:
        h[c.tag] = h.get(c.tag, 0) + 1
    return h


def nontrivial(r: CaseResult) -> bool:
    """a case counts when at least one of its datagrams yields an address and one is refused"""
    return any(o.startswith("a ") for o in r.impl) and any(o == "none" for o in r.impl)


def post(ctx, results):
    h = {"addr-v4": 0, "addr-v6": 0, "none": 0}
    n = 0
    for r in results:
        for o in r.impl:
            n += 1
            if o.startswith("a 1"):
                h["addr-v4"] += 1
            elif o.startswith("a 2"):
                h["addr-v6"] += 1
            elif o == "none":
                h["none"] += 1
    for k, v in h.items():
        ctx.hist("impl:" + k, v)
    ctx.coverage["datagrams"] = n


def spec() -> Spec:
    return Spec(
        pid=PID,
        proof_modules=["EphVerif.Proofs.C33"],
        driver="drv_c33",
        harness=harness,
        generate=generate,
        extract=extract,
        nontrivial=nontrivial,
        post=post,
        budget={"quick": 12000, "thorough": 240000},
        search_budget={"quick": 40000, "thorough": 240000},
        divergence_is_violation=True,
        batch=4000,
        rule="8 datagrams per case; structured Binding responses (attribute sequences with fillers, MAPPED/XOR-MAPPED for families "
             "1/2/other, value lengths and declared lengths +-1/+-4, wrong or missing padding, message length shorter/longer than the "
             "attributes, header type / txid bit flips, truncations at 0/1/19/20/21/...) plus random datagrams (raw, random body under a "
             "valid header, sparse alphabet), all <= 512 bytes (a few up to 600); distinct = sha256 of the op list; non-trivial = the case "
             "contains both an accepted and a refused datagram",
        trusted_base=["inet_ntop/inet_pton (text form converted back to bytes by the harness)",
                      "ASan/UBSan instrumentation of the parser on exact-size heap buffers"],
        assumptions=["transaction id is exactly 12 bytes (std::array<std::uint8_t, 12>)"],
    )


def run(tier, seed, replay=None):
    return standard_check(spec(), tier, seed, replay)
