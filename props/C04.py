"""C04 — persisted chunk files do not outlive the chunk."""
from tools.vlib import *
from tools.vlib import _handle_violation
from props.C01 import extract_store, payload, Track, SECOND, START

PID = "C04"
READY = True
MANIFEST = {
    "level_text": "Lean 4 theorems over a model of ChunkStore extended with an abstract file system (path -> bytes), the exact "
                  "sequence of file-system operations of persist_chunk_to_disk, secure_wipe_file, sweep_expired and the constructor, "
                  "and their error handling (pending_wipes_ retry list): for every history of store / overwrite / lookup / sweep / "
                  "tick / clock advance / restart on the same directory, with a crash after the k-th file-system operation of any "
                  "operation or start-up, and with any set of file-system calls (open, write incl. short writes, unlink) failing "
                  "with an I/O error, for every k, every fault set and every initial directory content (no bounds): whenever an "
                  "instance runs, every persisted record has its file with exactly its bytes and every other chunk file present is "
                  "on the retry list, and a store without failing call yields a persisted record (C04.inv, files_allowed, failed_store, "
                  "store_persists); right after a sweep or start-up at T every file of a "
                  "chunk with deadline <= T or of an unknown id is gone or on the retry list (cleanup_faulty), and gone with an "
                  "empty retry list if that sweep/start-up ran without error, however the expiry was first noticed (cleanup); after "
                  "any crash and any number of crashing start-ups the next completed start-up leaves no chunk file and every other "
                  "file untouched (crash_recovery, others_untouched); a wipe writes size zero bytes per pass before the remove "
                  "(overwritten). Tied to the source by regenerated constants (4096-byte wipe buffer, .chunk suffix, expiry "
                  "comparison operators, 1 s floor) and by a differential run of the real ChunkStore/Node on a scratch directory "
                  "against the compiled model, including crash-point enumeration (a forked child per (history, k) runs the "
                  "operation and is killed before its k-th mutating call; the parent forgets its instance and a fresh instance "
                  "restarts on the directory) and I/O-error enumeration (the k-th fopen/write/writev/unlink of the operation "
                  "returns ENOSPC/EACCES, writes also as short writes), with the Lean specification judging every directory listing.",
    "level_note": "Trusted: Lean kernel; the transcription of the C++ file-system call sequences and error branches into the "
                  "FsOp-emitting routines (checked by the differential run: directory listings with content hashes after every "
                  "operation, the number of mutating calls and of fallible calls per operation, bytes written and all-zero flag per "
                  "wiped file, also under injected errors); the interposer harness (harness/c04_fsfault.cpp). Modelled, not "
                  "verified: each file-system call is atomic (a crash falls between two calls); stat-like calls, mkdir and directory "
                  "iteration never fail; the harness injects one failing call per operation (the theorems cover any set); under a "
                  "persisting error a file necessarily stays, the guarantee is 'on the retry list until a sweep runs without error'; "
                  "when an overwrite write fails the file is removed without complete overwrite; durability (no fsync in the code; "
                  "not part of the property); one daemon instance per directory. Partial in that sense only.",
    "technique": "Lean 4 invariant proof over histories with crash points and failing calls + model/implementation differential "
                 "correspondence with crash-point and I/O-error enumeration (process kill / injected errno at every file-system call) "
                 "and Lean monitor",
}


def harness():
    return build_harness("store_h_fs", "harness/store_h.cpp", ALL_CORE_SOURCES, includes_repo_cpp=False, vclock=True,
                         extra_sources=["harness/c04_fsfault.cpp"], flags=PLAIN_FLAGS, libs=("-lcurl", "-lpthread", "-ldl"))


# --------------------------------------------------------------------------------------------
# generator: histories without crashes (restarts, planted orphans, lookups that notice expiry)
# --------------------------------------------------------------------------------------------

def big_payload(rng) -> str:
    r = rng.random()
    if r < 0.5:
        return payload(rng, False, True)
    return f"r{rng.randrange(256)}n{rng.choice([0, 1, 5, 100, 4095, 4096, 4097, 8192, 10000]) or 1}"


def gen_dir_case(rng, big: bool) -> Case:
    shape = rng.choice(["mixed", "lookup-notices-expiry", "restart", "orphans", "overwrite", "nowipe"])
    default = rng.choice([30, 2, 1, 0])
    passes = rng.choice([1, 1, 2, 3])
    wipe = 0 if shape == "nowipe" else 1
    init = f"init store {default} 1 {wipe} {passes}"
    ops = [init]
    tr = Track(default)
    ids = [f"c{i+1}" for i in range(rng.choice([1, 2, 3, 4]))]
    ttls = [0, 1, 1, 2, 3, 1000]
    if shape == "orphans":
        ops += [f"plant c{rng.choice([7, 8, 9])} {big_payload(rng)}", f"plant !{rng.choice(['README', 'notes.txt', 'x.chunk.bak'])} 0102", "restart", "ls"]

    def put(cid=None):
        cid = cid or rng.choice(ids)
        ttl = rng.choice(ttls)
        ops.append(f"put {cid} {big_payload(rng)} {ttl}")
        tr.store(cid, ttl)
        ops.append("ls")
        return cid

    put()
    n = rng.randint(6, 22) if not big else rng.randint(25, 70)
    for _ in range(n):
        r = rng.random()
        if shape == "lookup-notices-expiry" and r < 0.3 and tr.deadlines:
            cid = rng.choice(list(tr.deadlines))
            d = tr.deadlines[cid] + rng.choice([0, 0, 1, -1])
            if d >= tr.now:
                ops.append(f"adv {d - tr.now}")
                tr.now = d
            ops += [f"{rng.choice(['get', 'rec'])} {cid}", "ls", "sweep", "ls"]
        elif shape == "restart" and r < 0.2:
            ops += ["restart", "ls"]
            tr.deadlines.clear()
        elif shape == "orphans" and r < 0.15:
            ops += [f"plant c{rng.choice([7, 8, 9])} {big_payload(rng)}", "ls"]
        elif shape == "overwrite" and r < 0.3 and tr.deadlines:
            put(rng.choice(list(tr.deadlines)))
        elif r < 0.25:
            put()
        elif r < 0.50:
            ops.append(tr.advance(rng))
        elif r < 0.62:
            ops.append(f"get {rng.choice(ids)}")
        elif r < 0.80:
            ops += ["sweep", "ls"]
        elif r < 0.88:
            ops += ["restart", "ls"]
            tr.deadlines.clear()
        else:
            ops.append("ls")
    ops += ["adv 1000000000000", "sweep", "ls"]
    return Case(ops=ops, tag="dir/" + shape)


def gen_rewipe_case(rng) -> Case:
    """a wipe of X's file fails once (open or unlink refused) in a sweep, overwrite or start-up purge; X is stored again;
    sweeps and ticks run while the new X is live: the retry owed for the old content must not touch the new file"""
    passes = rng.choice([1, 2, 3])
    default = rng.choice([30, 2])
    ops = [f"init store {default} 1 1 {passes}"]
    n = rng.choice([1, 5, 100, 4096, 4097, 10000])
    writes = passes * ((n + 4095) // 4096)
    k = rng.choice([0, 1 + writes])              # the open-for-overwrite, or the unlink, of the wipe
    how = rng.choice(["sweep", "sweep", "overwrite", "restart"])
    if rng.random() < 0.5:
        ops.append(f"put c2 {big_payload(rng)} 1000")   # a bystander that stays live
    if how == "sweep":
        ops += [f"put c1 r{rng.randrange(256)}n{n} 1", f"adv {rng.choice([SECOND, SECOND + 1, 5 * SECOND])}"]
        if rng.random() < 0.4:
            ops.append("get c1")
        ops += [f"failat {k} 0 sweep", "ls"]
    elif how == "overwrite":
        ops += [f"put c1 r{rng.randrange(256)}n{n} 1000", f"failat {k} 0 put c1 {big_payload(rng)} 1000", "ls"]
    else:
        ops += [f"put c1 r{rng.randrange(256)}n{n} 1000", f"failat {k} 0 restart", "ls"]
    ttl = rng.choice([2, 50, 1000])
    ops += [f"put c1 {big_payload(rng)} {ttl}", "ls"]
    tr_deadline = ttl * SECOND
    elapsed = 0
    for _ in range(rng.randint(2, 6)):
        r = rng.random()
        if r < 0.5:
            ops += ["sweep", "ls"]
        elif r < 0.7:
            ops.append("get c1")
        elif r < 0.85:
            d = rng.choice([1, SECOND // 2, SECOND])
            ops.append(f"adv {d}")
            elapsed += d
        else:
            ops += [f"put c1 {big_payload(rng)} {ttl}", "ls"]
            elapsed = 0
    ops += ["sweep", "ls", f"adv {max(0, tr_deadline - elapsed)}", "sweep", "ls"]
    return Case(ops=ops, tag="dir/failed-wipe-restore")


def gen_node_dir_case(rng) -> Case:
    mn = rng.choice([1, 2])
    mx = rng.choice([mn + 1, 60])
    ci = rng.choice([1, 2, 5])
    ops = [f"init node {mn} {mn} {mx} {ci} 1 1 {rng.choice([1, 2])}"]
    tr = Track(mn, mn, mx, ci)
    ids = ["c1", "c2", "c3"]
    for _ in range(rng.randint(8, 24)):
        r = rng.random()
        if r < 0.3:
            cid, ttl = rng.choice(ids), rng.choice([0, 1, 2, mx])
            ops += [f"nstore {cid} {payload(rng, True)} {ttl}", "ls"]
            tr.store(cid, ttl)
        elif r < 0.55:
            ops.append(tr.advance(rng))
        elif r < 0.70:
            ops.append(f"{rng.choice(['fetch', 'req', 'rec'])} {rng.choice(ids)}")
        elif r < 0.9:
            ops += ["tick", "ls"]
            if tr.now - tr.last_cleanup >= ci * SECOND:
                tr.last_cleanup = tr.now
        else:
            ops += ["restart", "ls"]
            tr.deadlines.clear()
            tr.last_cleanup = tr.now
    ops += [f"adv {(mx + ci + 1) * SECOND}", "tick", "ls"]
    return Case(ops=ops, tag="dir/node")


def generate(ctx, budget):
    cases = []
    for i in range(budget):
        if i % 6 == 5:
            cases.append(gen_node_dir_case(ctx.rng))
        elif i % 6 == 2:
            cases.append(gen_rewipe_case(ctx.rng))
        else:
            cases.append(gen_dir_case(ctx.rng, ctx.tier == "thorough" and i % 5 == 0))
    return cases


def nontrivial(r: CaseResult) -> bool:
    """a chunk file is seen in some listing and is absent from a later one"""
    seen = set()
    for op, o in zip(r.case.ops, r.impl):
        if op == "ls":
            now = {e.split("=")[0] for e in o.split(",") if "=" in e and not e.startswith("!")}
            if seen - now:
                return True
            seen |= now
    return False


# --------------------------------------------------------------------------------------------
# crash-point enumeration
# --------------------------------------------------------------------------------------------

def gen_crash_history(rng) -> tuple[list[str], int, str]:
    """ops with exactly one `crash <target>` line; returns (ops, index of that line, shape)"""
    shape = rng.choice(["put-new", "put-overwrite", "put-over-orphan", "sweep", "sweep-after-lookup", "restart", "restart-orphans"])
    default = rng.choice([30, 1])
    passes = rng.choice([1, 2, 3])
    init = f"init store {default} 1 1 {passes}"
    ops = [init]
    sizes = [0, 1, 5, 100, 4096, 4097, 10000]

    def data():
        n = rng.choice(sizes)
        return "-" if n == 0 else f"r{rng.randrange(256)}n{n}"

    others = rng.randint(0, 2)
    for i in range(others):
        ops.append(f"put c{i + 2} {data()} {rng.choice([1, 50])}")
    if shape == "put-new":
        target = f"put c1 {data()} 5"
    elif shape == "put-overwrite":
        ops.append(f"put c1 {data()} {rng.choice([1, 50])}")
        if rng.random() < 0.5:
            ops.append(f"adv {rng.choice([SECOND, SECOND - 1])}")
        target = f"put c1 {data()} 5"
    elif shape == "put-over-orphan":
        ops.append(f"plant c1 {data()}")
        target = f"put c1 {data()} 5"
    elif shape in ("sweep", "sweep-after-lookup"):
        ops.append(f"put c1 {data()} 1")
        ops.append(f"adv {rng.choice([SECOND, SECOND + 1, 60 * SECOND])}")
        if shape == "sweep-after-lookup":
            ops.append("get c1")
        target = "sweep"
    elif shape == "restart":
        ops.append(f"put c1 {data()} 50")
        target = "restart"
    else:
        ops.append(f"plant c7 {data()}")
        ops.append(f"plant c8 {data()}")
        ops.append("plant !README 0102")
        target = "restart"
    idx = len(ops)
    ops.append("crash " + target)
    tail = ["ls", init + " keep", "ls", "sweep", "ls"]
    if rng.random() < 0.5:
        tail += ["put c9 0a0b 1", "ls", f"adv {SECOND}", "get c9", "sweep", "ls"]
    return ops + tail, idx, shape


def crash_enumeration(ctx: Ctx, sp: Spec, hbin: Path, drv: Path, n_hist: int) -> None:
    rng = ctx.rng
    hists = [gen_crash_history(rng) for _ in range(n_hist)]

    def account(rs: list[CaseResult], divs: list[CaseResult]) -> None:
        for r in rs:
            ctx.count_case(r.case, True)
            ctx.hist("tag:" + r.case.tag)
            if r.crashed:
                ctx.hist("outcome:crash")
            if r.viols or r.crashed:
                ctx.hist("outcome:viol")
                _handle_violation(ctx, sp, hbin, drv, r)
            elif r.diverges:
                ctx.hist("outcome:diverge")
                divs.append(r)
            else:
                ctx.hist("outcome:agree")
                ctx.coverage["traces_validated_against_impl"] += 1

    divs: list[CaseResult] = []
    # 1. count run: `crash <op>` completes and reports how many mutating file-system calls it made
    count_cases = [Case(ops=ops, tag="crash-count/" + shape, cid=f"cc{i}") for i, (ops, idx, shape) in enumerate(hists)]
    res = run_pair(hbin, drv, count_cases, ctx.work)
    account(res, divs)
    # 2. one case per crash point: `crashat <k> <op>` (forked child killed before its k-th mutating call)
    cases = []
    for (ops, idx, shape), r in zip(hists, res):
        m = re.match(r"fsops=(\d+)", r.impl[idx] if idx < len(r.impl) else "")
        n = int(m.group(1)) if m else 0
        target = ops[idx][len("crash "):]
        for k in range(n):
            cases.append(Case(ops=ops[:idx] + [f"crashat {k} {target}"] + ops[idx + 1:], tag="crash/" + shape, cid=f"cp{len(cases)}"))
    ctx.coverage["crash_histories"] = n_hist
    ctx.coverage["crash_points_enumerated"] = len(cases)
    # 3. one case per failing call: `failat <k> <short> <op>` (the k-th file-system call of the op returns an
    #    I/O error; a failing write first gets <short> bytes through).  Only ops that wipe at most one file:
    #    with several, the order (hash map / directory iteration) decides which file the k-th call belongs to.
    fail_tail = ["ls", "sweep", "ls", f"adv {60 * SECOND}", "sweep", "ls", "restart", "ls"]
    n_fail = 0
    for (ops, idx, shape), r in zip(hists, res):
        line = r.impl[idx] if idx < len(r.impl) else ""
        m = re.search(r"calls=(\d+)", line)
        calls = int(m.group(1)) if m else 0
        wiped = line.split(" wiped=")[1].split(",") if " wiped=" in line else []
        if len(wiped) > 1:
            continue
        target = ops[idx][len("crash "):]
        for k in range(calls):
            for short in {0, rng.choice([1, 100, 1000, 4095, 5000])}:
                cases.append(Case(ops=ops[:idx] + [f"failat {k} {short} {target}"] + fail_tail, tag="fail/" + shape,
                                  cid=f"cp{len(cases)}"))
                n_fail += 1
    ctx.coverage["io_error_points_enumerated"] = n_fail
    for off in range(0, len(cases), 2000):
        account(run_pair(hbin, drv, cases[off:off + 2000], ctx.work), divs)
    if divs and not ctx.violations:
        r = divs[0]
        ctx.report("diverge:crash-state", "broken-correspondence",
                   {"ops": r.case.ops, "impl_out": r.impl, "model_out": r.model,
                    "monitor": f"{len(divs)} crash run(s) where model and implementation differ (first shown, op {r.diverges[0]})"},
                   found_input=False)
    ctx.coverage["crash_divergences"] = len(divs)
    if cases:
        ctx.sample({"crash_case": cases[len(cases) // 2].ops}, limit=8)


def spec() -> Spec:
    def post(ctx, results):
        n = {"quick": 40, "thorough": 600}[ctx.tier]
        drv = LEAN / ".lake" / "build" / "bin" / "drv_c04"
        try:
            crash_enumeration(ctx, sp, harness(), drv, n)
        except BuildError as ex:
            ctx.report("crash-enumeration-failed", "broken-correspondence", {"monitor": f"{ex.what}: {ex.output[-400:]}"}, found_input=False)

    sp = Spec(
        pid=PID,
        proof_modules=["EphVerif.Proofs.C04"],
        driver="drv_c04",
        harness=harness,
        generate=generate,
        extract=extract_store,
        nontrivial=nontrivial,
        budget={"quick": 300, "thorough": 4000},
        search_budget={"quick": 800, "thorough": 6000},
        post=post,
        rule="(a) histories of put/overwrite/get/sweep/restart/planted files (and store_chunk/tick on a Node) on a real scratch "
             "directory, directory listing with content hashes after every mutating op, payload sizes {0,1,..,4095,4096,4097,8192,"
             "10000}, 1-3 wipe passes, plus the shape 'a wipe of X fails once, X is stored again, sweeps run while the new X is live'; "
             "non-trivial = a chunk file is listed and later gone. (b) crash enumeration: for each crash "
             "history (store / overwrite / store over an orphan / sweep / sweep after a lookup noticed the expiry / start-up purge) "
             "and each k < number of mutating file-system calls of the crash op, a forked child process runs the op and is killed before its k-th "
             "call, the parent (which never ran the op) forgets its instance, lists the directory, restarts on it, sweeps and lists again; "
             "(c) I/O-error enumeration: for the same histories and each k < number of file-system calls of the op (fopen, each "
             "write, unlink) the k-th call fails (ENOSPC/EACCES; failing writes also as short writes), then list, sweep, list, "
             "advance, sweep, list, restart, list; every crash point lies inside a store, "
             "wipe or purge (DESIGN section 9 rule); distinct = sha256 of the op list (+ k)",
        trusted_base=["interposition of fopen64/write/writev/unlink/remove in the harness executable (harness/c04_fsfault.cpp)",
                      "atomicity of single file-system calls; std::filesystem directory iteration", "virtual clock by link-time interposition"],
        assumptions=["a crash falls between two file-system calls; injected I/O errors are per call (fopen / write / unlink), stat-like calls never fail",
                     "one daemon instance per storage directory at a time",
                     "persistence and wipe-on-expiry enabled (the property's premise); with wipe-on-expiry off only model/implementation agreement is checked"],
        batch=2000,
    )
    return sp


def run(tier, seed, replay=None):
    return standard_check(spec(), tier, seed, replay)
