"""C04 — persisted chunk files do not outlive the chunk."""
import concurrent.futures as cf
import json
import shutil
import subprocess

from tools.vlib import *
from props.C01 import extract_store, payload, Track, SECOND, START

PID = "C04"
READY = True
MANIFEST = {
    "level_text": "Lean 4 theorems over a model of ChunkStore extended with an abstract file system (path -> bytes) and the exact "
                  "sequence of file-system operations of persist_chunk_to_disk, secure_wipe_file, sweep_expired and the constructor: "
                  "for every history of store / overwrite / lookup / sweep / tick / clock advance / restart on the same directory, "
                  "with a crash after the k-th file-system operation of any operation or of a start-up, for every k and every "
                  "initial directory content (no bounds): whenever an instance runs, the chunk files are exactly the current records "
                  "with exactly their bytes (C04.inv), each present file belongs to a chunk that was live at the latest cleanup "
                  "(files_allowed), right after a sweep or start-up at T no file exists for a chunk with deadline <= T nor for an id "
                  "unknown to the instance, however the expiry was first noticed (cleanup), after any crash and any number of "
                  "crashing start-ups the next completed start-up leaves no chunk file and every other file untouched "
                  "(crash_recovery, others_untouched), and a wipe writes size zero bytes per pass before the remove (overwritten). "
                  "Tied to the source by regenerated constants (4096-byte wipe buffer, .chunk suffix, expiry comparison operators, "
                  "1 s floor) and by a differential run of the real ChunkStore/Node on a scratch directory against the compiled "
                  "model, including crash-point enumeration: a child process per (history, k) is killed before the k-th mutating "
                  "file-system call (fopen-truncate / write / writev / unlink interposed), a fresh process restarts on the same "
                  "directory, and the Lean specification judges every directory listing.",
    "level_note": "Trusted: Lean kernel; the transcription of the C++ file-system call sequences into FsOp lists (checked by the "
                  "differential run: directory listings with content hashes after every operation, the number of mutating calls "
                  "per operation, bytes written and all-zero flag per wiped file); the interposer harness (harness/c04_fsfault.cpp). "
                  "Modelled, not verified: every file-system call succeeds and is atomic (a crash falls between two calls; I/O "
                  "errors such as ENOSPC are outside the property's quantifier), the kernel's file semantics, durability (the code "
                  "never calls fsync; not part of the property), std::filesystem directory iteration. Partial in that sense only.",
    "technique": "Lean 4 invariant proof over histories with crash points + model/implementation differential correspondence with "
                 "crash-point enumeration (process kill at every mutating file-system call) and Lean monitor",
}


def harness():
    return build_harness("store_h_fs", "harness/store_h.cpp", ALL_CORE_SOURCES, includes_repo_cpp=False, vclock=True,
                         extra_sources=["harness/c04_fsfault.cpp"], flags=PLAIN_FLAGS, libs=("-lcurl", "-lpthread", "-ldl"))


# --------------------------------------------------------------------------------------------
# generator: histories without crashes (restarts, planted orphans, lookups that notice expiry)
# --------------------------------------------------------------------------------------------

def big_payload(rng) -> str:
    r = rng.random()
    if r < 0.5:
        return payload(rng, False, True)
    return f"r{rng.randrange(256)}n{rng.choice([0, 1, 5, 100, 4095, 4096, 4097, 8192, 10000]) or 1}"


def gen_dir_case(rng, big: bool) -> Case:
    shape = rng.choice(["mixed", "lookup-notices-expiry", "restart", "orphans", "overwrite", "nowipe"])
    default = rng.choice([30, 2, 1, 0])
    passes = rng.choice([1, 1, 2, 3])
    wipe = 0 if shape == "nowipe" else 1
    init = f"init store {default} 1 {wipe} {passes}"
    ops = [init]
    tr = Track(default)
    ids = [f"c{i+1}" for i in range(rng.choice([1, 2, 3, 4]))]
    ttls = [0, 1, 1, 2, 3, 1000]
    if shape == "orphans":
        ops += [f"plant c{rng.choice([7, 8, 9])} {big_payload(rng)}", f"plant !{rng.choice(['README', 'notes.txt', 'x.chunk.bak'])} 0102", "restart", "ls"]

    def put(cid=None):
        cid = cid or rng.choice(ids)
        ttl = rng.choice(ttls)
        ops.append(f"put {cid} {big_payload(rng)} {ttl}")
        tr.store(cid, ttl)
        ops.append("ls")
        return cid

    put()
    n = rng.randint(6, 22) if not big else rng.randint(25, 70)
    for _ in range(n):
        r = rng.random()
        if shape == "lookup-notices-expiry" and r < 0.3 and tr.deadlines:
            cid = rng.choice(list(tr.deadlines))
            d = tr.deadlines[cid] + rng.choice([0, 0, 1, -1])
            if d >= tr.now:
                ops.append(f"adv {d - tr.now}")
                tr.now = d
            ops += [f"{rng.choice(['get', 'rec'])} {cid}", "ls", "sweep", "ls"]
        elif shape == "restart" and r < 0.2:
            ops += ["restart", "ls"]
            tr.deadlines.clear()
        elif shape == "orphans" and r < 0.15:
            ops += [f"plant c{rng.choice([7, 8, 9])} {big_payload(rng)}", "ls"]
        elif shape == "overwrite" and r < 0.3 and tr.deadlines:
            put(rng.choice(list(tr.deadlines)))
        elif r < 0.25:
            put()
        elif r < 0.50:
            ops.append(tr.advance(rng))
        elif r < 0.62:
            ops.append(f"get {rng.choice(ids)}")
        elif r < 0.80:
            ops += ["sweep", "ls"]
        elif r < 0.88:
            ops += ["restart", "ls"]
            tr.deadlines.clear()
        else:
            ops.append("ls")
    ops += ["adv 1000000000000", "sweep", "ls"]
    return Case(ops=ops, tag="dir/" + shape)


def gen_node_dir_case(rng) -> Case:
    mn = rng.choice([1, 2])
    mx = rng.choice([mn + 1, 60])
    ci = rng.choice([1, 2, 5])
    ops = [f"init node {mn} {mn} {mx} {ci} 1 1 {rng.choice([1, 2])}"]
    tr = Track(mn, mn, mx, ci)
    ids = ["c1", "c2", "c3"]
    for _ in range(rng.randint(8, 24)):
        r = rng.random()
        if r < 0.3:
            cid, ttl = rng.choice(ids), rng.choice([0, 1, 2, mx])
            ops += [f"nstore {cid} {payload(rng, True)} {ttl}", "ls"]
            tr.store(cid, ttl)
        elif r < 0.55:
            ops.append(tr.advance(rng))
        elif r < 0.70:
            ops.append(f"{rng.choice(['fetch', 'req', 'rec'])} {rng.choice(ids)}")
        elif r < 0.9:
            ops += ["tick", "ls"]
            if tr.now - tr.last_cleanup >= ci * SECOND:
                tr.last_cleanup = tr.now
        else:
            ops += ["restart", "ls"]
            tr.deadlines.clear()
            tr.last_cleanup = tr.now
    ops += [f"adv {(mx + ci + 1) * SECOND}", "tick", "ls"]
    return Case(ops=ops, tag="dir/node")


def generate(ctx, budget):
    cases = []
    for i in range(budget):
        if i % 6 == 5:
            cases.append(gen_node_dir_case(ctx.rng))
        else:
            cases.append(gen_dir_case(ctx.rng, ctx.tier == "thorough" and i % 5 == 0))
    return cases


def nontrivial(r: CaseResult) -> bool:
    """a chunk file is seen in some listing and is absent from a later one"""
    seen = set()
    for op, o in zip(r.case.ops, r.impl):
        if op == "ls":
            now = {e.split("=")[0] for e in o.split(",") if "=" in e and not e.startswith("!")}
            if seen - now:
                return True
            seen |= now
    return False


# --------------------------------------------------------------------------------------------
# crash-point enumeration
# --------------------------------------------------------------------------------------------

def gen_crash_history(rng) -> tuple[list[str], int, str]:
    """ops with exactly one `crash <target>` line; returns (ops, index of that line, shape)"""
    shape = rng.choice(["put-new", "put-overwrite", "put-over-orphan", "sweep", "sweep-after-lookup", "restart", "restart-orphans"])
    default = rng.choice([30, 1])
    passes = rng.choice([1, 2, 3])
    init = f"init store {default} 1 1 {passes}"
    ops = [init]
    sizes = [0, 1, 5, 100, 4096, 4097, 10000]

    def data():
        n = rng.choice(sizes)
        return "-" if n == 0 else f"r{rng.randrange(256)}n{n}"

    others = rng.randint(0, 2)
    for i in range(others):
        ops.append(f"put c{i + 2} {data()} {rng.choice([1, 50])}")
    if shape == "put-new":
        target = f"put c1 {data()} 5"
    elif shape == "put-overwrite":
        ops.append(f"put c1 {data()} {rng.choice([1, 50])}")
        if rng.random() < 0.5:
            ops.append(f"adv {rng.choice([SECOND, SECOND - 1])}")
        target = f"put c1 {data()} 5"
    elif shape == "put-over-orphan":
        ops.append(f"plant c1 {data()}")
        target = f"put c1 {data()} 5"
    elif shape in ("sweep", "sweep-after-lookup"):
        ops.append(f"put c1 {data()} 1")
        ops.append(f"adv {rng.choice([SECOND, SECOND + 1, 60 * SECOND])}")
        if shape == "sweep-after-lookup":
            ops.append("get c1")
        target = "sweep"
    elif shape == "restart":
        ops.append(f"put c1 {data()} 50")
        target = "restart"
    else:
        ops.append(f"plant c7 {data()}")
        ops.append(f"plant c8 {data()}")
        ops.append("plant !README 0102")
        target = "restart"
    idx = len(ops)
    ops.append("crash " + target)
    tail = ["ls", init + " keep", "ls", "sweep", "ls"]
    if rng.random() < 0.5:
        tail += ["put c9 0a0b 1", "ls", f"adv {SECOND}", "get c9", "sweep", "ls"]
    return ops + tail, idx, shape


def _run_proc(hbin: Path, lines: list[str], workdir: Path, env_extra: dict, name: str) -> tuple[int, list[str], str]:
    f = workdir / f"crash-{name}.ops"
    f.write_text("\n".join(lines) + "\n")
    env = dict(os.environ)
    env.update(env_extra)
    try:
        r = subprocess.run([str(hbin), str(f)], capture_output=True, text=True, errors="replace", timeout=60, env=env, cwd=str(workdir))
        rc, out, err = r.returncode, r.stdout, r.stderr
    except subprocess.TimeoutExpired:
        rc, out, err = -9, "", "timeout"
    finally:
        try:
            f.unlink()
        except OSError:
            pass
    return rc, out.splitlines(), err


def run_crash_point(hbin: Path, ops: list[str], idx: int, k: int, workdir: Path, tag: str) -> tuple[list[str], Optional[str]]:
    """Process 1 runs ops[:idx+1] and is killed before the k-th mutating call of the crash op; process 2
    runs the rest on the same directory.  Returns the combined implementation lines."""
    env = {"STORE_H_TAG": tag, "STORE_H_KEEP": "1"}
    cid = "x"
    try:
        rc, out1, err1 = _run_proc(hbin, [f"case {cid}"] + ops[:idx + 1], workdir,
                                   {**env, "C04_CRASH_OP": str(idx + 1), "C04_CRASH_AT": str(k)}, tag + "a")
        out1 = out1[1:]                      # drop the echoed case line
        if rc != 77:
            return out1 + ["<no-crash>"] * (len(ops) - len(out1)), f"first process did not die at the crash point (rc={rc}) {err1[-300:]}"
        impl = out1[:idx] + ["crashed"]
        elapsed = sum(int(o.split()[1]) for o in ops[:idx] if o.startswith("adv "))
        rc2, out2, err2 = _run_proc(hbin, [f"case {cid}", f"adv {elapsed}"] + ops[idx + 1:], workdir, env, tag + "b")
        out2 = out2[2:]
        impl += out2
        crashed = None
        if rc2 != 0:
            crashed = f"second process failed rc={rc2} {err2[-300:]}"
        while len(impl) < len(ops):
            impl.append("crash:" + (crashed or "missing"))
        return impl, crashed
    finally:
        shutil.rmtree(workdir / f"sd-{tag}", ignore_errors=True)


def judge_with_driver(drv: Path, items: list[tuple[Case, list[str]]], workdir: Path) -> list[CaseResult]:
    cases = [c for c, _ in items]
    impl = {c.cid: lines for c, lines in items}
    d = run_driver(drv, cases, impl, workdir)
    out = []
    for c, lines in items:
        model, verd = [], []
        for ln in d.get(c.cid, []):
            a, b = ln.rsplit(" ## ", 1) if " ## " in ln else (ln, "ok")
            model.append(a)
            verd.append(b)
        while len(model) < len(c.ops):
            model.append("<missing>")
            verd.append("ok")
        out.append(CaseResult(c, lines, model, verd, None))
    return out


def crash_enumeration(ctx: Ctx, hbin: Path, drv: Path, n_hist: int) -> None:
    rng = ctx.rng
    hists = [gen_crash_history(rng) for _ in range(n_hist)]
    # 1. count run: the crash op completes and reports how many mutating calls it made
    count_cases = [Case(ops=ops, tag="crash-count/" + shape, cid=f"cc{i}") for i, (ops, idx, shape) in enumerate(hists)]
    res = run_pair(hbin, drv, count_cases, ctx.work, shards=min(NPROC, max(1, len(count_cases) // 8)))
    points = []
    for (ops, idx, shape), r in zip(hists, res):
        ctx.count_case(r.case, True)
        ctx.hist("tag:" + r.case.tag)
        if r.viols or r.crashed:
            sig = default_signature(r)
            ctx.report(sig, "failing-input", {"ops": ops, "impl_out": r.impl, "model_out": r.model,
                                              "monitor": "; ".join(f"op {i}: {v}" for i, v in r.viols[:4])}, found_input=True)
        elif r.diverges:
            ctx.hist("outcome:diverge")
            ctx.coverage.setdefault("crash_divergences", []).append({"ops": ops, "impl_out": r.impl, "model_out": r.model})
        else:
            ctx.coverage["traces_validated_against_impl"] += 1
        m = re.match(r"fsops=(\d+)", r.impl[idx] if idx < len(r.impl) else "")
        n = int(m.group(1)) if m else 0
        for k in range(n):
            points.append((ops, idx, shape, k))
    # 2. one killed child + one restarted child per crash point
    def one(job):
        j, (ops, idx, shape, k) = job
        impl, crashed = run_crash_point(hbin, ops, idx, k, ctx.work, f"{os.getpid()}-{j}")
        return Case(ops=ops, tag=f"crash/{shape}", cid=f"cp{j}"), impl, crashed, idx, k
    with cf.ThreadPoolExecutor(max_workers=NPROC) as ex:
        done = list(ex.map(one, enumerate(points)))
    items = [(c, impl) for c, impl, _, _, _ in done]
    results = []
    for off in range(0, len(items), 2000):
        results += judge_with_driver(drv, items[off:off + 2000], ctx.work)
    ctx.coverage["crash_histories"] = n_hist
    ctx.coverage["crash_points_enumerated"] = len(points)
    for (c, impl, crashed, idx, k), r in zip(done, results):
        ctx.coverage["evaluations"] += 1
        ctx.hist("tag:" + c.tag)
        payload_doc = {"ops": c.ops, "impl_out": r.impl, "model_out": r.model, "crash": {"op_index": idx, "k": k}}
        if crashed:
            ctx.hist("outcome:crash-harness-error")
            ctx.report("crash-harness:" + crashed.split(" ")[0], "broken-correspondence",
                       {**payload_doc, "monitor": crashed}, found_input=False)
        elif r.viols:
            ctx.hist("outcome:viol")
            ctx.report(default_signature(r), "failing-input",
                       {**payload_doc, "monitor": "; ".join(f"op {i}: {v}" for i, v in r.viols[:4])}, found_input=True)
        elif r.diverges:
            ctx.hist("outcome:diverge")
            ctx.coverage.setdefault("crash_divergences", []).append(payload_doc)
        else:
            ctx.hist("outcome:agree")
            ctx.coverage["traces_validated_against_impl"] += 1
    div = ctx.coverage.get("crash_divergences", [])
    if div and not ctx.violations:
        ctx.report("diverge:crash-state", "broken-correspondence",
                   {**div[0], "monitor": f"{len(div)} crash run(s) where model and implementation differ (first shown)"}, found_input=False)
    ctx.coverage["crash_divergences"] = len(div)
    if done:
        c, impl, _, idx, k = done[len(done) // 2]
        ctx.sample({"crash_point": {"op_index": idx, "k": k}, "ops": c.ops, "impl": impl}, limit=8)


def spec() -> Spec:
    def post(ctx, results):
        n = {"quick": 30, "thorough": 300}[ctx.tier]
        drv = LEAN / ".lake" / "build" / "bin" / "drv_c04"
        try:
            crash_enumeration(ctx, harness(), drv, n)
        except BuildError as ex:
            ctx.report("crash-enumeration-failed", "broken-correspondence", {"monitor": f"{ex.what}: {ex.output[-400:]}"}, found_input=False)

    return Spec(
        pid=PID,
        proof_modules=["EphVerif.Proofs.C04"],
        driver="drv_c04",
        harness=harness,
        generate=generate,
        extract=extract_store,
        nontrivial=nontrivial,
        budget={"quick": 300, "thorough": 4000},
        search_budget={"quick": 800, "thorough": 6000},
        post=post,
        rule="(a) histories of put/overwrite/get/sweep/restart/planted files (and store_chunk/tick on a Node) on a real scratch "
             "directory, directory listing with content hashes after every mutating op, payload sizes {0,1,..,4095,4096,4097,8192,"
             "10000}, 1-3 wipe passes; non-trivial = a chunk file is listed and later gone. (b) crash enumeration: for each crash "
             "history (store / overwrite / store over an orphan / sweep / sweep after a lookup noticed the expiry / start-up purge) "
             "and each k < number of mutating file-system calls of the crash op, a child process is killed before the k-th call, "
             "a new process lists the directory, restarts on it, sweeps and lists again; every crash point lies inside a store, "
             "wipe or purge (DESIGN section 9 rule); distinct = sha256 of the op list (+ k)",
        trusted_base=["interposition of fopen64/write/writev/unlink/remove in the harness executable (harness/c04_fsfault.cpp)",
                      "atomicity of single file-system calls; std::filesystem directory iteration", "virtual clock by link-time interposition"],
        assumptions=["every file-system call succeeds (no ENOSPC/EIO); a crash falls between two calls",
                     "one daemon instance per storage directory at a time",
                     "persistence and wipe-on-expiry enabled (the property's premise); with wipe-on-expiry off only model/implementation agreement is checked"],
        batch=2000,
    )


def _replay_crash(doc: dict) -> int:
    hbin = harness()
    lake_build(["drv_c04"])
    drv = LEAN / ".lake" / "build" / "bin" / "drv_c04"
    work = BUILD / "tmp" / f"C04-replay-{os.getpid()}"
    work.mkdir(parents=True, exist_ok=True)
    try:
        ops, idx, k = doc["ops"], doc["crash"]["op_index"], doc["crash"]["k"]
        impl, crashed = run_crash_point(hbin, ops, idx, k, work, f"r{os.getpid()}")
        r = judge_with_driver(drv, [(Case(ops=ops, cid="replay"), impl)], work)[0]
        for i, op in enumerate(ops):
            print(f"{i:3d} op    {op}\n    impl  {r.impl[i]}\n    model {r.model[i]}\n    mon   {r.verdicts[i]}")
        bad = bool(r.viols or crashed)
        print("REPRODUCED" if bad else "not reproduced")
        return 1 if bad else 0
    finally:
        shutil.rmtree(work, ignore_errors=True)


def run(tier, seed, replay=None):
    if replay and replay.endswith(".json"):
        doc = json.loads(Path(replay).read_text())
        if doc.get("crash") and doc.get("ops"):
            extract_store()
            return _replay_crash(doc)
    return standard_check(spec(), tier, seed, replay)
