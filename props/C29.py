"""C29 — control responses reach the client intact, so list shows every chunk."""
from tools.vlib import *
from props.C27 import harness, extract, hx, cfg, SECOND

PID = "C29"
READY = True
MANIFEST = {
    "level_text": "Lean 4 theorems about the byte-level model of send_response (with encode_field_value) and of ControlClient's "
                  "recv_line / parse_response (with decode_field_value). C29.roundtrip: for every success flag, every field map whose keys "
                  "are distinct strings over [A-Z_-]+ other than STATUS / PAYLOAD-LENGTH and whose values are arbitrary byte strings "
                  "(including LF, CR, backslash, TAB, colons, blank lines), every iteration order of the unordered_map, and every payload "
                  "within the client's limit, the client parses the emitted bytes into exactly that success flag, exactly that field map "
                  "(plus the PAYLOAD-LENGTH entry the daemon adds) and exactly that payload, provided no physical line exceeds the "
                  "client's 16 KiB line limit. C29.list: for every chunk snapshot (any number of chunks), handle_list's response goes "
                  "through the wire and print_list_response prints 'Local chunks: n' followed by exactly one line per chunk with its id, "
                  "size, state and TTL (the per-line bound holds unconditionally because each chunk occupies its own continuation line). "
                  "Tied to the code by regenerated constants (line limit, the escape table of encode_field_value) and by a differential "
                  "run: real ControlServer (daemon states with 0..50+ chunks, several warnings / endpoints / bootstrap nodes, values with "
                  "embedded newlines) <-> real ControlClient, real Impl::send_response fed arbitrary field maps <-> real ControlClient, and "
                  "the CLI's own print_list_response, each compared with the compiled Lean model and judged by the specification "
                  "(client view = what the daemon produced).",
    "level_note": "Trusted: Lean kernel; hand transcription of send_response / parse_response / handle_list / print_list_response "
                  "(checked only by the differential run); unordered_map as a list in arbitrary order; std::to_string / from_chars as "
                  "decimal rendering / parsing (proved inverse in the model); TCP delivers the bytes in order. Which chunks are 'live' is "
                  "C01's subject: here the listing is compared with the snapshot handle_list obtained. Values whose single lines exceed "
                  "16 KiB (not produced by any handler) are outside the theorem and are refused by the client's recv_line.",
    "technique": "Lean 4 proof (parser/serialiser round trip by induction over fields and value lines) + model/implementation "
                 "differential correspondence with Lean monitor",
}

KEYCHARS = "ABCDEFGHIJKLMNOPQRSTUVWXYZ_-"
REAL_KEYS = ["CODE", "MESSAGE", "HINT", "ENTRIES", "COUNT", "AUTO_ADVERTISE_WARNINGS", "ADVERTISE_ENDPOINTS", "BOOTSTRAP_NODES", "MANIFEST",
             "SIZE", "TTL", "OUTPUT", "STORAGE_DIR", "SOURCE", "FILENAME", "NAT_TYPE"]
SPECIAL = [b"\n", b"\n", b"\r", b"\\", b"\t", b":", b"r", b"n", b" ", b"\\r", b"\\\\", b"\\n", b"\n\n", b"\r\n", b"\n\t", b"STATUS:ERROR",
           b"PAYLOAD-LENGTH:5", b"\x00", b"\xff", b","]


def rnd_value(rng, maxlen=40):
    n = rng.choice([0, 1, 2, 5, 12, maxlen])
    out = b""
    while len(out) < n:
        out += rng.choice(SPECIAL) if rng.random() < 0.55 else bytes([rng.randrange(256)])
    return out[:max(n, 0)] if rng.random() < 0.8 else out


def rnd_key(rng):
    if rng.random() < 0.5:
        return rng.choice(REAL_KEYS)
    return "".join(rng.choice(KEYCHARS) for _ in range(rng.randint(1, 12)))


def rt_op(rng, cap, shape):
    fields = {}
    for _ in range(rng.choice([0, 1, 2, 3, 5, 8])):
        fields[rnd_key(rng)] = rnd_value(rng)
    payload = "none"
    r = rng.random()
    if r < 0.35:
        payload = hx(bytes(rng.randrange(256) for _ in range(rng.choice([0, 1, 7, 64, cap - 1, cap]))))
    # the two shapes below leave the theorem's hypotheses; what the client then keeps depends on the
    # iteration order of the daemon's unordered_map, so they carry exactly one field and no payload
    if shape == "edge-line":     # a physical line of exactly 16383 / 16384 / 16385 bytes
        k = rnd_key(rng)
        total = rng.choice([16383, 16384, 16385])
        body = b"v" * max(0, total - len(k) - 1)
        where = rng.choice(["first", "cont"])
        fields = {k: body if where == "first" else b"x\n" + b"w" * (total - 1)}
        payload = "none"
    if shape == "outside":       # keys the daemon never emits: the monitor only checks model = implementation
        fields = {rng.choice(["status", "Code", "PAYLOAD-LENGTH", "STATUS", "a:b", "K EY", "\tTAB", ""]): rng.choice([b"5", b"abc", b"OK", b""])}
        payload = "none"
    if shape == "over-limit":
        payload = hx(bytes(rng.randrange(256) for _ in range(cap + rng.choice([1, 5]))))
    spec = ";".join(f"{hx(k) if k else ''}={hx(v) if v else ''}" for k, v in fields.items()) or "-"
    return f"rt {rng.choice([0, 1, 1])} {spec} {payload}"


def case_rt(rng, big):
    cap = rng.choice([64, 256, 4096])
    ops = [cfg(cap=cap)]
    n = rng.randint(6, 12) if not big else rng.randint(20, 40)
    for i in range(n):
        shape = rng.choice(["plain"] * 8 + ["edge-line", "outside", "over-limit"])
        ops.append(rt_op(rng, cap, shape))
    return Case(ops=ops, tag="fieldmaps")


WARN_TEXTS = [b"UPnP mapping failed", b"NAT type: symmetric", b"conflict: 1.2.3.4 vs 5.6.7.8", b"STATUS:ERROR", b"", b" leading space",
              b"two\nlines", b"cr\rinside", b"back\\slash", b"\ttab first", b"ends with backslash\\", b"CODE:ERR_FAKE"]
HOSTS = [b"198.51.100.7", b"example.org", b"10.0.0.1", b"host-with-long-name.example.net", b"[::1]"]
SOURCES = [b"", b"manual", b"upnp", b"stun", b"if:eth0", b"a\nb"]


def case_state(rng, big):
    nwarn = rng.choice([0, 0, 1, 2, 4])
    nep = rng.choice([0, 1, 2, 4])
    nboot = rng.choice([0, 1, 3])
    extra = {}
    if nwarn:
        extra["warn"] = ",".join(hx(rng.choice(WARN_TEXTS)) for _ in range(nwarn))
        extra["conflict"] = rng.choice([0, 1])
    if nep:
        extra["ep"] = ",".join(f"{hx(rng.choice(HOSTS + [b'']))}/{rng.choice([0, 80, 47777, 65535])}/{hx(rng.choice(SOURCES))}" for _ in range(nep))
    if nboot:
        extra["boot"] = ",".join(f"p{rng.randint(1, 9999)}/{hx(rng.choice(HOSTS))}/{rng.choice([1, 4000, 65535])}/{rng.choice(['-', '0', '77', '4294967295'])}"
                                 for _ in range(nboot))
    if rng.random() < 0.3:
        extra["advhost"] = hx(rng.choice(HOSTS))
    if rng.random() < 0.3:
        extra["sdir"] = hx(rng.choice([b"storage", b"C:\\eph\\data", b"/var/lib/eph", b"dir with\\r"]))
    tok = rng.choice([None, None, b"tkn"])
    ops = [cfg(tok=tok, cap=rng.choice([4096, 100000]), **extra)]
    t = hx(tok) if tok else "-"
    nchunks = rng.choice([0, 1, 2, 2, 3, 5, 10, 25, 50]) if not big else rng.choice([50, 120, 200, 400])
    names = []
    for i in range(nchunks):
        p = b"chunk-%d-" % i + bytes(rng.randrange(256) for _ in range(rng.choice([0, 1, 9, 60])))
        ttl = rng.choice([3600, 3601, 7200, 21600])
        ops.append(f"put c{i} {hx(p)} {ttl}")
        names.append(f"c{i}")
        if rng.random() < 0.1:
            ops.append(f"adv {rng.choice([1, SECOND - 1, SECOND, 90 * SECOND])}")
        if rng.random() < 0.08:
            ops.append(f"list {t}")
    queries = [f"cli {t} LIST *", f"list {t}", f"cli {t} STATUS *",
               f"cli {t} DEFAULTS CODE,ADVERTISE_ENDPOINTS,BOOTSTRAP_NODES,ADVERTISE_HOST,STORAGE_DIR,MIN_TTL,CONTROL_STREAM_MAX",
               f"cli {t} PING *"]
    if names:
        queries.append(f"cli {t} FETCH * MANIFEST=${rng.choice(names)} STREAM={hx('client')}")
    if tok:
        queries.append("cli - LIST CODE")            # without the token LIST is still served (not gated); STORE/FETCH are not
        queries.append(f"cli - FETCH CODE MANIFEST=${names[0]} STREAM={hx('client')}" if names else "cli - PING *")
    rng.shuffle(queries)
    ops += queries
    ops.append(f"list {t}")
    return Case(ops=ops, tag=f"state-{'many' if nchunks > 10 else 'few'}")


def case_final_second(rng, big):
    """LIST / `eph list` while a live chunk has exactly 1 s, 0.999999999 s, 0.5 s, 1 ns left, at the deadline and after it:
    a chunk is listed exactly while now < deadline (its remaining TTL is then printed as 0)"""
    ops = [cfg(cap=4096, min=30, max=21600, default=60)]
    t_short = rng.choice([30, 31, 45, 60])
    t_long = t_short + rng.choice([1, 2, 30, 600])
    ops.append(f"put a {hx(b'final-second-' + bytes(rng.randrange(256) for _ in range(3)))} {t_short}")
    ops.append(f"put b {hx(b'longer-lived-' + bytes(rng.randrange(256) for _ in range(3)))} {t_long}")
    if rng.random() < 0.5:
        ops.append(f"put c {hx(b'same-deadline-' + bytes(rng.randrange(256) for _ in range(2)))} {t_short}")
    now = 0
    for left in [SECOND + 1, SECOND, SECOND - 1, SECOND // 2, 1, 0, -1, -SECOND]:
        target = t_short * SECOND - left
        ops.append(f"adv {target - now}")
        now = target
        ops.append("list -")
        if rng.random() < 0.6:
            ops.append("cli - LIST *")
        if rng.random() < 0.3:
            ops.append("cli - STATUS *")
    # and the same for the longer-lived chunk when it is the only one left
    for left in [SECOND, 1, 0]:
        target = t_long * SECOND - left
        if target >= now:
            ops.append(f"adv {target - now}")
            now = target
            ops.append("list -")
    return Case(ops=ops, tag="final-second")


def generate(ctx, budget):
    out = []
    for i in range(budget):
        big = ctx.tier == "thorough" and i % 10 == 0
        if i % 8 == 7:
            out.append(case_final_second(ctx.rng, big))
        else:
            out.append(case_state(ctx.rng, big) if i % 2 == 0 else case_rt(ctx.rng, big))
    return out


def nontrivial(r: CaseResult) -> bool:
    """a case counts only if some response carried a multi-line value (two or more listed chunks,
    several warnings/endpoints, or an arbitrary field value containing LF)"""
    for op, o in zip(r.case.ops, r.impl):
        if op.startswith("list") and o.count("|__ID=") >= 2:
            return True
        if (op.startswith("cli") or op.startswith("rt")) and "0a" in o:
            return True
    return False


def spec() -> Spec:
    return Spec(
        pid=PID,
        proof_modules=["EphVerif.Proofs.C29"],
        driver="drv_c29",
        harness=harness,
        generate=generate,
        extract=extract,
        nontrivial=nontrivial,
        budget={"quick": 120, "thorough": 1500},
        search_budget={"quick": 400, "thorough": 5000},
        per_case_timeout=90.0,
        rule="alternating: (a) daemon states with 0-50 chunks (thorough: up to 400), 0-4 warnings (some containing LF, CR, backslash, "
             "leading TAB, 'STATUS:ERROR'), 0-4 advertised endpoints, 0-3 bootstrap nodes, optional token, queried with LIST / STATUS / "
             "DEFAULTS / PING / streamed FETCH through the real ControlClient and with the CLI's print_list_response; (b) arbitrary "
             "field maps (keys [A-Z_-]+, values over an alphabet rich in LF, CR, backslash, TAB, colon, 'r', 'n', injected "
             "'STATUS:'/'PAYLOAD-LENGTH:' lines, physical lines of 16383/16384/16385 bytes, payloads up to and beyond the client's "
             "limit) sent by the real Impl::send_response to the real client. distinct = sha256 of the op list; non-trivial = some "
             "response carried a value with an LF (or a listing with >= 2 chunks)",
        trusted_base=["kernel TCP on loopback", "the harness's fake listener for the arbitrary-field-map ops calls the real Impl::send_response"],
        assumptions=["chunks outlive the case (TTL >= 3600 s, clock advances <= 90 s)", "SHA-256 chunk ids of distinct generated payloads are distinct"],
    )


def run(tier, seed, replay=None):
    return standard_check(spec(), tier, seed, replay)
