"""C15 — protocol messages round-trip through the wire codec.

This plugin also hosts what C13 and C16 share with it (one harness `codec_h`, one model
`Model/Message.lean`, one generated file `Generated/C15.lean`, the message generators)."""
import re

from tools.vlib import *
from tools import vlib as _vlib

PID = "C15"
READY = True
MANIFEST = {
    "level_text": "Lean 4 theorems about a statement-by-statement model of Message.cpp's encode/decode, for all six payload kinds and unbounded field sizes: every message whose type tag names its payload and whose fields fit their wire widths (ids 32 bytes, lengths and TTL < 2^32, nonces < 2^64) decodes from its encoding to the same message with the nearest supported version, the announce PoW nonce surviving exactly from version 3 (roundtrip_any_version; roundtrip for versions 1..4), and the version byte written is max 1 (min 4 v) for every v (clamp). Version limits, type tags, id sizes, the encoder's and the decoder's nonce thresholds and the body of clamp_version are regenerated from the source on every run, and the theorems state the property's literals 1, 4, 3 against them. The model is tied to the code by a differential run of the real encode/decode(/signed) against the compiled Lean model on structured messages of every kind x every version byte 0..255 x boundary sizes, with the Lean specification (not the model) judging each round trip of the implementation.",
    "level_note": 'Trusted: Lean kernel; the hand transcription of Message.cpp into Model/Message.lean (checked by the differential run only; shift/or big-endian code modelled as base-256 arithmetic); the harness and its canonical message syntax. Holds on the tree with fixes/C15-announce-nonce-v3.patch (the unrepaired encoder loses version-3 announces; the check reports that with a replay).',
    "technique": "Lean 4 proof (structural, all message shapes and sizes) + model/implementation differential correspondence with Lean monitor",
}

MSG_CPP = "src/protocol/Message.cpp"
MSG_HPP = "include/ephemeralnet/protocol/Message.hpp"


# --------------------------------------------------------------------------------------
# shared: harness, (T) extraction
# --------------------------------------------------------------------------------------

def harness():
    return build_harness("codec_h", "harness/codec_h.cpp",
                         [MSG_CPP, "src/crypto/HmacSha256.cpp", "src/crypto/Sha256.cpp"], includes_repo_cpp=False)


def _resolve(expr: str, env: dict) -> int:
    """constant expression that may mention already extracted identifiers"""
    e = re.sub(r"\b(?:protocol::|crypto::HmacSha256::)", "", expr)
    for k, v in env.items():
        e = re.sub(rf"\b{k}\b", str(v), e)
    return eval_cxx_int(e)


def _clamp_body(src: str, env: dict):
    """Translate the loop-free `clamp_version` (a chain of `if (version < A) return A;` guards
    ending in `return version;`) into a Lean definition over Nat. None if the shape is not recognised."""
    m = re.search(r"std::uint8_t\s+clamp_version\s*\(\s*std::uint8_t\s+version\s*\)\s*\{(.*?)\n\}", src, flags=re.S)
    if not m:
        return None
    body = m.group(1)
    guards = []
    pos = 0
    pat = re.compile(r"\s*if\s*\(\s*version\s*(<=|>=|<|>)\s*([\w:]+)\s*\)\s*\{?\s*return\s+([\w:]+)\s*;\s*\}?", re.S)
    while True:
        g = pat.match(body, pos)
        if not g:
            break
        guards.append((g.group(1), g.group(2), g.group(3)))
        pos = g.end()
    tail = body[pos:].strip()
    if not re.fullmatch(r"return\s+version\s*;", tail) or not guards:
        return None
    out = "def clampVersion (version : Nat) : Nat :=\n"
    for op, a, b in guards:
        lop = {"<": "<", ">": ">", "<=": "≤", ">=": "≥"}[op]
        try:
            av, bv = _resolve(a, env), _resolve(b, env)
        except Exception:
            return None
        out += f"  if version {lop} {av} then {bv} else\n"
    out += "  version"
    return out


DEFAULT_CLAMP = ("def clampVersion (version : Nat) : Nat :=\n  if version < 1 then 1 else\n  if version > 4 then 4 else\n  version")


def extract():
    """(T) version limits, type tags, the PoW-nonce version thresholds of encoder and decoder, id and
    digest sizes, and the body of clamp_version -> Generated/C15.lean (shared by C13/C15/C16)."""
    vals, gaps = extract_consts([
        Const("kMinimumMessageVersion", MSG_HPP, r"kMinimumMessageVersion\s*=\s*([^;]+);", default=1),
        Const("kCurrentMessageVersion", MSG_HPP, r"kCurrentMessageVersion\s*=\s*([^;]+);", default=4),
        Const("tagAnnounce", MSG_HPP, r"\bAnnounce\s*=\s*([^,}]+)[,}]", default=1),
        Const("tagRequest", MSG_HPP, r"\bRequest\s*=\s*([^,}]+)[,}]", default=2),
        Const("tagChunk", MSG_HPP, r"\bChunk\s*=\s*([^,}]+)[,}]", default=3),
        Const("tagAcknowledge", MSG_HPP, r"\bAcknowledge\s*=\s*([^,}]+)[,}]", default=4),
        Const("tagTransportHandshake", MSG_HPP, r"\bTransportHandshake\s*=\s*([^,}]+)[,}]", default=5),
        Const("tagHandshakeAck", MSG_HPP, r"\bHandshakeAck\s*=\s*([^,}]+)[,}]", default=6),
        Const("kDigestSize", "include/ephemeralnet/crypto/HmacSha256.hpp", r"kDigestSize\s*=\s*([^;]+);", default=32),
        Const("kChunkIdSize", "include/ephemeralnet/Types.hpp", r"using\s+ChunkId\s*=\s*std::array<\s*std::uint8_t\s*,\s*([^>]+)>", default=32),
        Const("kPeerIdSize", "include/ephemeralnet/Types.hpp", r"using\s+PeerId\s*=\s*std::array<\s*std::uint8_t\s*,\s*([^>]+)>", default=32),
    ])
    try:
        src = _vlib._strip_comments((REPO / MSG_CPP).read_text(errors="replace"))
    except OSError as ex:
        src = ""
        gaps.append(f"{MSG_CPP}: {ex}")
    env = dict(vals)
    for k, v in re.findall(r"constexpr\s+std::uint8_t\s+(\w+)\s*=\s*([^;]+);", src):
        try:
            env[k] = _resolve(v, env)
        except Exception:
            pass
    for name, pat, default in [
        ("encPowMinVersion", r"include_pow\s*=\s*version\s*>=\s*([^;]+);", 3),
        ("decPowMinVersion", r"if\s*\(\s*version\s*>=\s*([\w:]+)\s*&&\s*type\s*==\s*MessageType::Announce\s*\)", 3),
    ]:
        m = re.search(pat, src)
        try:
            if not m:
                raise ValueError("pattern not found")
            vals[name] = _resolve(m.group(1), env)
        except Exception as ex:
            gaps.append(f"{name} ({MSG_CPP}): {ex}")
            vals[name] = default
    clamp = _clamp_body(src, env)
    if clamp is None:
        gaps.append(f"clamp_version ({MSG_CPP}): body outside the translatable shape; default body used")
        clamp = DEFAULT_CLAMP
    write_generated(PID, lean_consts(vals) + "\n\n/-- `clamp_version` of Message.cpp, translated statement by statement -/\n" + clamp)
    return gaps


# --------------------------------------------------------------------------------------
# shared: structured messages (generator side only; never used as an oracle)
# --------------------------------------------------------------------------------------

KINDS = ["ann", "req", "chk", "ack", "hs", "hsa"]
TAG = {"ann": 1, "req": 2, "chk": 3, "ack": 4, "hs": 5, "hsa": 6}
U32 = 1 << 32
U64 = 1 << 64
SMALL_LENS = [0, 0, 1, 2, 3, 7, 15, 16, 31, 32, 33, 55, 56, 63, 64, 65]
EDGE_LENS = [127, 128, 255, 256, 257, 1000]
HUGE_LENS = [65535, 65536, 65537, 200000]
TTL_OK = [0, 1, 2, 60, 3600, 86400, (1 << 31) - 1, 1 << 31, U32 - 2, U32 - 1]
TTL_OUT = [U32, U32 + 1, U32 + 77, -1, -2, -U32, (1 << 63) - 1, -(1 << 63), (1 << 40) + 5]
NONCES = [0, 1, 255, 256, U32 - 1, U32, U64 - 1, U64 - 2, 0x0102030405060708]
PUBS = [0, 1, 2, 255, 65536, (1 << 31) - 1, 1 << 31, U32 - 1, 0x01020304]
VERSIONS = [0, 1, 2, 3, 4, 5, 6, 127, 128, 254, 255]


def hexs(b: bytes) -> str:
    return b.hex() if b else "-"


def id32(tok: str) -> bytes:
    """same mapping as verif::id32 (harness/common/lineproto.hpp)"""
    if len(tok) == 64:
        return bytes.fromhex(tok)
    n = int(tok[1:]) if len(tok) > 1 else 0
    return bytes([ord(tok[0])]) + bytes(27) + n.to_bytes(4, "big")


def rand_id(rng, letter: str) -> str:
    r = rng.random()
    if r < 0.5:
        return f"{letter}{rng.choice([0, 1, 2, 255, 256, 65535, 4294967295, rng.randrange(1 << 32)])}"
    if r < 0.6:
        return rng.choice(["00" * 32, "ff" * 32, "00" * 31 + "01", "80" + "00" * 31])
    return rng.randbytes(32).hex()


def rand_bytes(rng, size_class: str = "small") -> bytes:
    if size_class == "small":
        n = rng.choice(SMALL_LENS)
    elif size_class == "edge":
        n = rng.choice(SMALL_LENS + EDGE_LENS * 2)
    else:
        n = rng.choice(HUGE_LENS)
    r = rng.random()
    if r < 0.1:
        return bytes(n)
    if r < 0.2:
        return b"\xff" * n
    return rng.randbytes(n)


@dataclass
class Msg:
    version: int
    type: int
    kind: str
    f: list          # field values in wire-dump order (ids as tokens, byte strings as bytes, numbers as int)

    def tokens(self) -> str:
        out = [str(self.version), str(self.type), self.kind]
        for x in self.f:
            out.append(hexs(x) if isinstance(x, (bytes, bytearray)) else str(x))
        return " ".join(out)


def rand_msg(rng, kind=None, version=None, *, size="small", in_range=True, match=True) -> Msg:
    kind = kind or rng.choice(KINDS)
    if version is None:
        version = rng.choice(VERSIONS + [1, 2, 3, 4, 3, 4, rng.randrange(256)])
    # (mismatched tags 4 and 6 are left to C16: there a payload's first byte is read as the `accepted` flag)
    typ = TAG[kind] if match else rng.choice([0, 1, 2, 3, 5, 7, 255])
    ttl = rng.choice(TTL_OK + [rng.randrange(U32)]) if in_range else rng.choice(TTL_OUT)
    nonce = rng.choice(NONCES + [rng.randrange(U64)])
    pub = rng.choice(PUBS + [rng.randrange(U32)])
    ver8 = rng.choice([0, 1, 2, 3, 4, 5, 255, rng.randrange(256)])
    if kind == "ann":
        sizes = [size, "small", "small"]
        rng.shuffle(sizes)
        f = [rand_id(rng, "c"), rand_id(rng, "p"), rand_bytes(rng, sizes[0]), ttl, rand_bytes(rng, sizes[1]),
             rand_bytes(rng, sizes[2]), nonce]
    elif kind == "req":
        f = [rand_id(rng, "c"), rand_id(rng, "p")]
    elif kind == "chk":
        f = [rand_id(rng, "c"), rand_bytes(rng, size), ttl]
    elif kind == "ack":
        f = [rand_id(rng, "c"), rand_id(rng, "p"), rng.choice([0, 1])]
    elif kind == "hs":
        f = [pub, nonce, ver8]
    else:
        f = [rng.choice([0, 1]), ver8, pub]
    return Msg(version, typ, kind, f)


def py_encode(m: Msg) -> bytes:
    """Wire form of a structured message as the repaired encoder produces it. Used only to
    manufacture byte strings for the malformed streams (which are then mutated); what the real
    decoder does with them is judged by the Lean monitor, never by this function."""
    v = min(4, max(1, m.version))
    out = bytearray([v, m.type & 0xFF])
    f = m.f
    be4 = lambda n: (n % U32).to_bytes(4, "big")
    if m.kind == "ann":
        out += be4(f[3]) + be4(len(f[2])) + be4(len(f[4])) + be4(len(f[5])) + id32(f[0]) + id32(f[1]) + f[2] + f[4] + f[5]
        if v >= 3:
            out += (f[6] % U64).to_bytes(8, "big")
    elif m.kind == "req":
        out += id32(f[0]) + id32(f[1])
    elif m.kind == "chk":
        out += be4(f[2]) + be4(len(f[1])) + id32(f[0]) + f[1]
    elif m.kind == "ack":
        out += bytes([1 if f[2] else 0]) + id32(f[0]) + id32(f[1])
    elif m.kind == "hs":
        out += be4(f[0]) + (f[1] % U64).to_bytes(8, "big") + bytes([f[2] & 0xFF])
    else:
        out += bytes([1 if f[0] else 0, f[1] & 0xFF]) + be4(f[2])
    return bytes(out)


def rand_key(rng) -> bytes:
    r = rng.random()
    if r < 0.5:
        return rng.randbytes(32)
    if r < 0.6:
        return b""
    return rng.randbytes(rng.choice([1, 16, 31, 33, 63, 64, 65, 100]))


def accepted(line: str) -> bool:
    return line.startswith("ok ") or (line not in ("reject", "bad-op") and not line.startswith("crash") and re.fullmatch(r"[0-9a-f]+", line) is not None)


# --------------------------------------------------------------------------------------
# C15 generator: structured valid messages, all six types x versions 0..255 x boundary sizes
# --------------------------------------------------------------------------------------

def generate(ctx, budget):
    rng = ctx.rng
    cases = []
    # systematic sweep first: every kind x every version byte (small fields)
    for kind in KINDS:
        ops = []
        for v in range(256):
            m = rand_msg(rng, kind, v)
            ops.append("rt " + m.tokens())
            if v < 8 or v % 37 == 0 or v == 255:
                ops.append("enc " + m.tokens())
        cases.append(Case(ops=ops, tag=f"sweep-version/{kind}"))
    n = 0
    while len(cases) < budget:
        n += 1
        r = rng.random()
        kind = KINDS[n % 6]
        if r < 0.55:
            shape, kw = "valid", {}
        elif r < 0.75:
            shape, kw = "edge-size", {"size": "edge"}
        elif r < 0.80 and kind in ("ann", "chk"):
            shape, kw = "huge-size", {"size": "huge"}
        elif r < 0.90:
            shape, kw = "ttl-out-of-range", {"in_range": False}
        else:
            shape, kw = "tag-mismatch", {"match": False}
        ops = []
        for _ in range(1 if shape == "huge-size" else rng.choice([2, 4, 8])):
            m = rand_msg(rng, kind, **kw)
            ops.append("rt " + m.tokens())
            ops.append("enc " + m.tokens())
            if rng.random() < 0.3:
                key = rand_key(rng)
                ops.append(f"rts {hexs(key)} " + m.tokens())
                ops.append(f"encs {hexs(key)} " + m.tokens())
        cases.append(Case(ops=ops, tag=f"{shape}/{kind}"))
    return cases


def nontrivial(r: CaseResult) -> bool:
    """a structured case counts when at least one round trip came back as a message"""
    return any(op.startswith("rt") and o.startswith("ok ") for op, o in zip(r.case.ops, r.impl))


TRUSTED = [
    "hand transcription of Message.cpp (encode, decode, parse_announce_payload, decode_payload_v1, encode_signed, decode_signed, "
    "HmacSha256::verify) into Model/Message.lean, validated by the differential run only",
    "big-endian shift/or arithmetic of read_u32/read_u64/write_u32/write_u64 modelled as base-256 positional arithmetic on Nat",
    "harness/codec_h.cpp and Monitor/Message.lean print and parse messages with the same canonical syntax",
]


def spec() -> Spec:
    return Spec(
        pid=PID,
        proof_modules=["EphVerif.Proofs.C15"],
        driver="drv_c15",
        harness=harness,
        generate=generate,
        extract=extract,
        nontrivial=nontrivial,
        budget={"quick": 700, "thorough": 12000},
        divergence_is_violation=True,
        rule="structured messages of all six payload kinds: a sweep of every version byte 0..255 per kind, then random messages with "
             "field lengths from {0,1,..,31,32,33,55,56,63,64,65,127,128,255,256,257,1000,65535,65536,65537,200000}, TTL/nonce/public "
             "values at 0, 2^31, 2^32-1, 2^64-1, out-of-range TTLs and tag/payload mismatches (not judged by the round-trip clause, "
             "compared with the model); ops rt/enc/rts/encs; distinct = sha256 of the op list; non-trivial = some round trip "
             "returned a message",
        trusted_base=TRUSTED,
        assumptions=["std::size_t is 64 bits (LP64): the length sums of the decoder cannot wrap (Lemmas/C16Size.lean)"],
    )


def run(tier, seed, replay=None):
    return standard_check(spec(), tier, seed, replay)
