"""C03 — state learned from a manifest never outlives that manifest."""
from tools.vlib import *
from tools.extract_c02 import write_generated_c02
from props.C02 import harness

PID = "C03"
READY = True
MANIFEST = {
    "level_text": "Lean 4 theorems, for every configuration, every manifest expiry E, every arrival path (ingest/request, replica receipt, "
                  "announce with any announced TTL / endpoint / assignment), every arrival time and every constant offset between the steady and "
                  "the wall clock: if the manifest is accepted, every record it makes the node write - key-share record, provider contact, "
                  "replica chunk, pending fetch - ends (as wall time) no later than E and no later than arrival + max_ttl <= arrival + 24 h, whatever "
                  "record an earlier manifest for the same chunk id left behind (the key shares are judged against the manifest adopted last), also "
                  "along arbitrary histories of arrivals; a manifest with E <= t or E - t < min_ttl is rejected on every path and the step returns "
                  "the state unchanged; a scheduler pass at or after the recorded expiry dispatches nothing for the entry and removes it. The TTL "
                  "computations in the model are Lean definitions re-translated from the clang AST of the working tree on every run (manifest_ttl, "
                  "enforce_manifest_ttl, clamp_chunk_ttl and the TTL slices of ingest_manifest, receive_chunk, handle_announce, "
                  "schedule_assigned_fetch, announce_chunk, ChunkStore::put, publish_shards, add_contact); the real Node runs in-process under a "
                  "virtual clock (both clocks, settable offset) against the compiled Lean model, and the Lean specification judges every record the "
                  "implementation creates and every pending-fetch table it shows.",
    "level_note": "Trusted: Lean kernel; the translator tools/extract_c02.py (each translated definition is also compared with the real code by the "
                  "differential run; gaps fall back to hand-written definitions and are reported); the hand-written control flow of "
                  "Model/ManifestTtl.lean around the translated pieces (accept/reject, which slice feeds which record, the expiry test of "
                  "process_pending_fetches), checked only by the differential run. Modelled, not verified: *which* pending fetches the scheduler "
                  "chooses to dispatch (back-off, limits: C24) - the theorems hold for every choice and the run takes the implementation's choice "
                  "as a validated hint; manifest_cache_/swarm plans are outside this property (C05); sender checks of handle_announce (C21) are "
                  "assumed passed, their bookkeeping (reputation, throttle history) is not part of 'node state' here. Real time passing between "
                  "manifest_ttl() and the writes is held at zero by the virtual clock.",
    "technique": "Lean 4 proof over definitions translated from the clang AST (T) + model/implementation differential correspondence with Lean monitor (H)",
}

S = 1_000_000_000
START = 1_000_000_000_000
YEAR = 365 * 86400
E_MAX = 9_200_000_000   # seconds; beyond ~9.22e9 a system_clock time_point (int64 ns) cannot hold the expiry (C18)


def extract():
    return write_generated_c02()


def gen_case(rng, shape, big=False) -> Case:
    ops = []
    off = rng.choice([1_700_000_000 * S, 1_700_000_000 * S + 1, 1_700_000_000 * S + 999_999_999, 1_700_000_000 * S + 400_000_000,
                      5 * S, 86400 * S + 123_456_789, 4_000_000_000 * S])
    if off != 1_700_000_000 * S or rng.random() < 0.3:
        ops.append(f"wall {off}")
    d, mn, mx = rng.choice([(60, 30, 100), (60, 30, 100), (21600, 30, 21600), (1, 1, 1), (5, 5, 86400), (10, 10, 10), (3, 2, 7), (600, 60, 3600)])
    ops.append(f"cfg {d} {mn} {mx} 300 1 1000000 1 0 0 0 lim=0")
    now = START
    chunks = ["c1", "c2", "c3"] if shape != "single" else ["c1"]
    peer_last = {}
    peer_ok = {}
    npeer = 0
    deadlines = []
    n = rng.randint(8, 22) if not big else rng.randint(25, 60)
    announces = 0

    def wall():
        return now + off

    def expiry():
        """absolute expiry in seconds, aimed at the accept/reject and cap boundaries"""
        base = wall() // S
        k = rng.random()
        if shape == "far" and k < 0.5:
            return min(base + rng.choice([mx + 1, 2 * mx, 10 * YEAR, 100 * YEAR]), E_MAX)
        delta = rng.choice([-1, 0, 1, mn - 1, mn, mn + 1, (mn + mx) // 2, mx - 1, mx, mx + 1, mx + 2, 10 * YEAR, -YEAR])
        return min(base + delta, E_MAX)

    for _ in range(n):
        r = rng.random()
        c = rng.choice(chunks)
        if r < 0.16:
            ops.append(f"ingest {c} {expiry()}")
        elif r < 0.22:
            ops.append(f"request {c} {expiry()}")
        elif r < 0.36:
            ops.append(f"receive {c} {expiry()} {rng.choice([1, 1, 1, 0])}")
        elif r < 0.62 and announces < 12:
            announces += 1
            # a sender is only reused when all its earlier announces were surely accepted: three rejected
            # announces lock a sender out for 180 s (C21), which is not this property's business
            reusable = [p for p, t in peer_last.items() if now - t >= 2 * S and peer_ok.get(p, False)]
            if reusable and rng.random() < 0.3:
                p = rng.choice(reusable)
            else:
                npeer += 1
                p = f"p{npeer}"
            peer_last[p] = now
            e = expiry()
            rem = e - wall() // S
            peer_ok[p] = peer_ok.get(p, True) and rem > mn + 1
            attl = rng.choice([0, 1, -1, mn, mx, rem - 1, rem, rem + 1, rem + 1000, 10 * YEAR])
            asg = 1 if shape in ("pending", "far") and rng.random() < 0.8 else rng.choice([0, 1])
            ops.append(f"announce {c} {e} {p} {attl} {rng.choice([1, 1, 0])} {asg}")
            deadlines.append(e * S - off)
        elif r < 0.80:
            k = rng.random()
            future = sorted(x for x in deadlines if x >= now)
            if future and k < 0.5:
                dlt = max(0, rng.choice(future[:3]) + rng.choice([-1, 0, 0, 1]) - now)
            else:
                dlt = rng.choice([0, 1, S - 1, S, 3 * S, mn * S, mx * S - 1, mx * S, mx * S + 1, 7 * S, 50 * S])
            ops.append(f"adv {dlt}")
            now += dlt
            # record deadlines of typical records (now + min / + max) so later advances can aim at them
            deadlines += [now + mn * S, now + mx * S]
        elif r < 0.92:
            ops.append("tick")
        else:
            ops.append(f"obs {c}")
    ops.append("tick")
    for c in chunks:
        ops.append(f"obs {c}")
    return Case(ops=ops, tag=shape)


def gen_multi(rng, count) -> Case:
    """Two or three manifests for the SAME chunk id, in every order of remaining lifetimes (long->short, short->long,
    equal), through ingest / request / announce / replica receipt, each followed by a look at the cached key shares
    and the adopted manifest; then ticks around the expiry of the manifest adopted last and of the longest one.
    (All manifests of a chunk id carry the same key and content hash, so a node that holds the chunk adopts them.)"""
    ops = []
    off = rng.choice([1_700_000_000 * S, 1_700_000_000 * S + 400_000_000, 1_700_000_000 * S + 999_999_999, 86400 * S + 123_456_789])
    if off != 1_700_000_000 * S:
        ops.append(f"wall {off}")
    d, mn, mx = rng.choice([(60, 30, 100), (60, 30, 100), (21600, 30, 21600), (600, 60, 3600), (3, 2, 7), (5, 5, 86400)])
    ops.append(f"cfg {d} {mn} {mx} 300 1 1000000 1 0 0 0 lim=0")
    now = START
    c = "c1"
    span = max(1, mx - mn)
    lifetimes = sorted({mn + 1 + rng.randrange(span), mn + 1 + rng.randrange(span), mn + 1, mx, mx + 5, (mn + mx) // 2 + 1})
    order = rng.choice(["long-short", "long-short", "short-long", "equal", "random"])
    pick = rng.sample(lifetimes, min(count, len(lifetimes)))
    while len(pick) < count:
        pick.append(rng.choice(lifetimes))
    if order == "long-short":
        pick.sort(reverse=True)
    elif order == "short-long":
        pick.sort()
    elif order == "equal":
        pick = [pick[0]] * count
    if rng.random() < 0.15:
        pick[0] = 10 * YEAR          # a far-future first manifest: capped at max, then a shorter one
    expiries = []
    npeer = 0
    for i, rem in enumerate(pick):
        e = (now + off) // S + rem
        expiries.append(e)
        k = rng.random()
        if k < 0.35:
            ops.append(f"ingest {c} {e}")
        elif k < 0.45:
            ops.append(f"request {c} {e}")
        elif k < 0.75:
            npeer += 1
            ops.append(f"announce {c} {e} p{npeer} {rng.choice([0, rem, rem + 100, mn])} {rng.choice([0, 1])} {rng.choice([0, 1])}")
        else:
            ops.append(f"receive {c} {e} 1")
        ops.append(f"obs {c}")
        if i + 1 < len(pick):
            # stay well inside the lifetime of what has been adopted so far (the earlier record is still cached)
            room = max(0, (min(expiries) * S - off - now) - (mn + 2) * S)
            dlt = min(room, rng.choice([0, 1, S - 1, S, 2 * S, 5 * S]))
            if dlt:
                ops.append(f"adv {dlt}")
                now += dlt
    # ticks around the expiry of the manifest adopted last, then around the longest one
    for target in (expiries[-1], max(expiries)):
        t = target * S - off
        for edge in (-1, 0, 1):
            if t + edge > now:
                ops.append(f"adv {t + edge - now}")
                now = t + edge
            ops.append("tick")
            ops.append(f"obs {c}")
    return Case(ops=ops, tag="pair" if count == 2 else "triple")


def generate(ctx, budget):
    shapes = ["mixed", "mixed", "pending", "far", "single", "pair", "pair", "triple"]
    out = []
    for i in range(budget):
        sh = shapes[i % len(shapes)]
        if sh in ("pair", "triple"):
            out.append(gen_multi(ctx.rng, 2 if sh == "pair" else 3))
        else:
            out.append(gen_case(ctx.rng, sh, ctx.tier == "thorough" and i % 5 == 0))
    return out


def nontrivial(r: CaseResult) -> bool:
    """at least one manifest accepted, one rejected, and a derived record seen both before and after its deadline
    (present on one line, gone on a later line for the same chunk)"""
    acc = any(" r=1" in " " + o for o in r.impl)
    rej = any(" r=0" in " " + o for o in r.impl)
    seen = {}
    gone = False
    for op, o in zip(r.case.ops, r.impl):
        t = op.split()
        if len(t) >= 2 and t[0] in ("ingest", "request", "receive", "announce", "obs") and "sh=" in o:
            has = "sh=-" not in o
            if seen.get(t[1]) and not has:
                gone = True
            seen[t[1]] = has or seen.get(t[1], False)
    if r.case.tag in ("pair", "triple"):
        adopted = {o.split("mc=")[1].split()[0] for o in r.impl if "mc=" in o} - {"-"}
        return len(adopted) >= 2 and gone
    return acc and rej and gone


def spec() -> Spec:
    return Spec(
        pid=PID,
        proof_modules=["EphVerif.Proofs.C03"],
        driver="drv_c03",
        harness=harness,
        generate=generate,
        extract=extract,
        nontrivial=nontrivial,
        budget={"quick": 900, "thorough": 20000},
        search_budget={"quick": 1800, "thorough": 20000},
        rule="one Node per case (window from {30..100, 30..21600, 1..1, 5..86400, 10..10, 2..7, 60..3600} s), wall-clock offset from 7 values "
             "(sub-second phases, near the epoch, far future); 8-60 ops: manifests through ingest / request / replica receipt (genuine or "
             "tampered) / announce with expiry in {past, now, now+1, min-1, min, min+1, mid, max-1, max, max+1, max+2, +10 y .. +250 y}, "
             "announced TTL in {0, +-1, min, max, remaining-1, remaining, remaining+1, remaining+1000, 10 y}, clock advances aimed at record "
             "deadlines and manifest expiries (-1 ns, 0, +1 ns), scheduler ticks and observations; distinct = sha256 of the op list; "
             "shapes pair / triple: two or three manifests for the SAME chunk id in every order of remaining lifetimes (long->short, "
             "short->long, equal, far-future first) through ingest / request / announce / replica receipt, a look at the cached key shares "
             "and the adopted manifest after each, ticks at the last-adopted and the longest expiry -1 ns / 0 / +1 ns; "
             "non-trivial = (a manifest accepted, a manifest rejected, a derived record observed both before and after its deadline) or "
             "(two manifests adopted for one chunk id and its key shares observed both present and gone)",
        trusted_base=["tools/extract_c02.py: clang-14 JSON AST -> Lean translation (each translated definition is also compared with the real code by the harness)",
                      "virtual clock by link-time interposition of steady_clock::now / system_clock::now with a settable wall-clock offset",
                      "manifests are produced by a second real Node (store_chunk) and re-encoded with the expiry under test; handle_announce is entered through the friend test::NodeTestAccess",
                      "which pending fetches the scheduler dispatches is taken from the implementation (attempt counters) and validated by the model; fetch_retry_attempt_limit = 0 in the generated cases"],
        assumptions=["wall-clock time is after the epoch (the all-zero time_point is the code's 'no expiry recorded' sentinel)",
                     "no real time passes between manifest_ttl() and the writes of one call (virtual clock)"],
    )


def run(tier, seed, replay=None):
    return standard_check(spec(), tier, seed, replay)
