// Self-test input of the C36 extractor (props/C36_extract.py): every access pattern the analysis has
// a rule for, with the rows it must produce listed in props/C36.py (SELFTEST_EXPECT).  Not part of
// the repository under test; parsed with the same clang invocation.
#include <algorithm>
#include <atomic>
#include <condition_variable>
#include <functional>
#include <memory>
#include <mutex>
#include <string>
#include <unordered_map>
#include <vector>

namespace ephemeralnet::selftest {

struct State {
    int x{0};
    int y{0};
};

struct Item {
    int owner_only{0};
    int shared{0};
};

class Box {
public:
    void entryA();
    void entryB();
    void entryC();
    void set_callback(std::function<void(int)> cb) {
        std::scoped_lock lock(cb_mutex_);
        cb_ = std::move(cb);
    }

private:
    int a_{0};
    int b_{0};
    int c_{0};
    int d_{0};
    int e_{0};
    int f_{0};
    int g_{0};
    int h_{0};
    int k1_{0}, k2_{0}, k3_{0}, k4_{0}, k5_{0}, k6_{0}, k7_{0}, k8_{0}, k9_{0}, k10_{0}, k11_{0}, k12_{0}, k13_{0};
    std::mutex m2_;
    std::mutex m3_;
    std::mutex m4_;
    std::condition_variable cv_;
    std::atomic<int> counter_{0};
    std::unordered_map<std::string, State> map_;
    std::unordered_map<std::string, State> map2_;
    std::unordered_map<std::string, State> map3_;
    std::unordered_map<std::string, State> map4_;
    std::vector<int> vec_;
    std::vector<std::shared_ptr<Item>> items_;
    std::function<void(int)> cb_;
    mutable std::mutex m_;
    mutable std::recursive_mutex r_;
    std::mutex cb_mutex_;
    std::mutex items_mutex_;

    void helper(State& s) { s.x = 1; }               // write through a reference parameter
    int reader(const State& s) const { return s.y; }  // read through a reference parameter
    State& get(const std::string& k) { return map3_[k]; }
    void nested() {
        std::unique_lock<std::recursive_mutex> lock(r_);
        g_ = 2;                                        // callers may or may not hold r_
    }
    void fire(int v) {
        std::function<void(int)> copy;
        {
            std::scoped_lock lock(cb_mutex_);
            copy = cb_;
        }
        if (copy) {
            copy(v);                                   // -> the lambda installed by entryA
        }
    }
    void publish() {
        auto item = std::make_shared<Item>();
        item->owner_only = 1;                          // before publication: private
        item->shared = 1;                              // before publication: private
        {
            std::scoped_lock lock(items_mutex_);
            items_.push_back(item);                    // publication (escape)
        }
        item->owner_only = 2;                          // only ever touched by the creator: confined
    }
};

void Box::entryA() {
    {
        std::scoped_lock lock(m_);
        a_ = 1;                                        // W a_ {m_}
        map_["k"].x = 1;                               // W map_ {m_}
        auto it = map_.find("k");
        if (it != map_.end()) {
            it->second.y = 2;                          // W map_ {m_}
            helper(it->second);                        // W map_ {m_} inside helper
        }
        std::vector<State*> ptrs;
        for (auto& [key, st] : map2_) {
            ptrs.push_back(&st);
        }
        for (auto* p : ptrs) {
            p->x = 3;                                  // W map2_ {m_}
        }
        std::for_each(vec_.begin(), vec_.end(), [this](int v) { d_ += v; });   // R vec_, W d_ {m_}
        get("z").x = 4;                                // W map3_ {m_}
        nested();                                      // W g_ {m_, r_}
    }
    c_ = 1;                                            // W c_ {}
    counter_.fetch_add(1);                             // atomic: no row
    set_callback([this](int v) { e_ = v; });           // stored, not executed here
    std::unique_lock<std::recursive_mutex> outer(r_);
    nested();                                          // W g_ {r_}
    publish();
}

void Box::entryB() {
    int total = b_;                                    // R b_ {}
    for (const auto& v : vec_) {                       // R vec_ {} (iterator increments are not writes)
        total += v;
    }
    {
        std::scoped_lock lock(m_);
        const auto it = map_.find("k");
        if (it != map_.end()) {
            total += reader(it->second);               // R map_ {m_} inside reader
        }
        auto& ref = map4_["q"];                        // W map4_ {m_} (operator[] inserts)
        total += ref.x;                                // R map4_ {m_}
    }
    fire(total);                                       // W e_ {} through the callback
    f_ = total;                                        // W f_ {}
    h_ = a_;                                           // W h_ {}, R a_ {}
    std::scoped_lock lock(items_mutex_);
    for (const auto& item : items_) {
        total += item->shared;                         // R Item::shared {items_mutex_}
    }
}

// explicit lock-object operations: the held region is not the lexical scope of the object
void Box::entryC() {
    std::unique_lock lock(m_);
    k1_ = 1;                                           // W k1_ {m_}
    lock.unlock();
    k2_ = 1;                                           // W k2_ {}      after unlock()
    lock.lock();
    k3_ = 1;                                           // W k3_ {m_}    after lock()
    if (k1_ > 0) {                                     // R k1_ {m_}
        lock.unlock();
    }
    k4_ = 1;                                           // W k4_ {}      unlocked on one path
    std::unique_lock deferred(m2_, std::defer_lock);
    k5_ = 1;                                           // W k5_ {}      deferred: not held yet
    deferred.lock();
    k6_ = 1;                                           // W k6_ {m2_}
    std::unique_lock tried(m3_, std::try_to_lock);
    k7_ = 1;                                           // W k7_ {m2_}   try_to_lock may fail: never counted
    {
        std::lock_guard inner(m3_);
        k8_ = 1;                                       // W k8_ {m2_, m3_}
    }
    k9_ = 1;                                           // W k9_ {m2_}   inner block ended
    deferred.release();
    k10_ = 1;                                          // W k10_ {}     release(): treated as not held
    std::unique_lock waiter(m4_);
    cv_.wait(waiter, [this] { return k11_ > 0; });     // R k11_ {m4_}  predicate runs under the lock
    k11_ = 0;                                          // W k11_ {m4_}  re-acquired after the wait
    for (int i = 0; i < 2; ++i) {
        k12_ = i;                                      // W k12_ {m4_} and W k12_ {} (2nd iteration starts unlocked)
        waiter.unlock();
    }
    try {
        std::unique_lock guarded(m_);
        k13_ = 1;                                      // W k13_ {m_}
        guarded.unlock();
    } catch (...) {
        k13_ = 2;                                      // W k13_ {}     handler: the guard object is gone
    }
}

}  // namespace ephemeralnet::selftest
