"""C12 — a mutual handshake yields one shared session key."""
from tools.vlib import *

PID = "C12"
READY = True
MANIFEST = {
    "level_text": "Lean 4 theorems about a model of KeyExchange (modexp with its uint64 wrap-around made explicit, compute_public, "
                  "validate_public, derive_shared_secret), make_handshake_material, KeyManager::register_session_with_material and the key "
                  "path of Node::perform_handshake: modexp b e m = b^e mod m for every base, uint32 exponent and uint32 modulus >= 1 (no "
                  "intermediate product overflows); Diffie-Hellman agreement for every pair of uint32 scalars; for any two identities, PoW "
                  "settings and nonces, if both nodes accept each other's handshake they hold the same key (32 bytes when the MAC returns 32 "
                  "bytes), for every hash and MAC function; the key material is an injective function of the unordered pair of public keys; "
                  "validate_public accepts exactly 1 < c < p; p = 2^31-1 is prime; after ANY history of inbound handshakes the key held "
                  "for a peer id is the one derived from the last accepted handshake for that id (key_replaced), so two nodes whose last "
                  "accepted handshakes carried each other's current public keys hold the same key (key_current). The model is tied to the code by regenerated constants "
                  "(kPrime, kGenerator) and by a differential run of the real KeyExchange/KeyManager functions and of pairs of real Nodes "
                  "(generate_handshake_work + perform_handshake both ways, session_key compared) against the compiled Lean model with "
                  "FIPS SHA-256 / RFC 2104 HMAC, the Lean specification judging acceptance and key equality on every line.",
    "level_note": "Trusted: Lean kernel; hand transcription of the C++ into Lean (validated only by the differential run); std::sort on two "
                  "elements, std::mt19937_64 (re-implemented in the driver to predict work nonces), the harness. Histories of inbound perform_handshake calls (key table, handshake records, the exact-repeat cooldown short-circuit, the same "
                  "peer id returning with another key pair) are modelled and covered by key_replaced/key_current; time-driven key rotation "
                  "(rotate_if_needed) is C21. The identity scalar of a seeded node is modelled (mt19937 + libstdc++ Lemire distribution, "
                  "re-implemented and validated by the differential run against Node and the CLI's derive_public_identity_from_seed). No secrecy claim: a 31-bit group offers none.",
    "technique": "Lean 4 proof (modular arithmetic, induction on the square-and-multiply loop) + model/implementation differential correspondence with Lean monitor",
}

P = 2147483647


_H = {"internals": True, "notes": []}
INTERNAL_OPS = {"material"}


def harness():
    import tools.vlib as V
    srcs = [s for s in ALL_CORE_SOURCES if s != "src/core/Node.cpp"]
    # main.cpp (second TU, only with internals) needs the daemon sources at link time
    srcs += ["src/daemon/ControlPlane.cpp", "src/daemon/ControlClient.cpp", "src/daemon/ControlServer.cpp",
             "src/daemon/StructuredLogger.cpp"]

    def build(defines):
        libs = ["-lcurl", "-lpthread"]
        if "-DVERIF_INTERNALS=1" in defines:
            flags = list(BASE_FLAGS) + [f"-I{REPO}/include", f"-I{REPO}/src", f"-I{REPO}", f"-I{VERIF}/harness"] + list(defines)
            cli_obj = V._compile_obj(VERIF / "harness" / "kex_cli_h.cpp", flags, tree_hash("include") + tree_hash("src"))
            libs = [str(cli_obj)] + libs
        return build_harness("kex_h", "harness/kex_h.cpp", srcs, libs=libs, defines=defines)

    _H["notes"] = []
    exe, _H["internals"] = build_harness_with_fallback(build, _H["notes"])
    if not _H["internals"]:
        _H["notes"].append("C12 without harness internals: make_handshake_material is not called directly (op `material` dropped), so the "
                           "exact key-material bytes are observed only through the session keys of real handshakes, and the CLI's "
                           "derive_public_identity_from_seed is not compared (cli=?); key equality on both sides, key = derived from the "
                           "current public keys, seed-derived identity (two nodes, model), acceptance and DH agreement are still judged")
    return exe


def extract():
    vals, gaps = extract_consts([
        Const("kPrime", "include/ephemeralnet/network/KeyExchange.hpp", r"constexpr\s+std::uint32_t\s+kPrime\s*=\s*([^;]+);", default=P),
        Const("kGenerator", "include/ephemeralnet/network/KeyExchange.hpp", r"constexpr\s+std::uint32_t\s+kGenerator\s*=\s*([^;]+);", default=5),
    ])
    # generate_identity_scalar: is the configured seed used whenever one is configured (has_value())?
    flag = 1
    try:
        txt = (REPO / "src/core/Node.cpp").read_text(errors="replace")
        m = re.search(r"generate_identity_scalar\s*\(const Config&\s*config\)\s*\{(.*?)\n\}", txt, flags=re.S)
        cond = re.search(r"if\s*\((.*?)\)\s*\{\s*generator\.seed", m.group(1), flags=re.S) if m else None
        if cond is None:
            gaps.append("identitySeedUsesHasValue (src/core/Node.cpp): generate_identity_scalar's seed test not found")
        else:
            flag = 1 if re.fullmatch(r"config\.identity_seed(\.has_value\(\))?", cond.group(1).strip()) else 0
    except Exception as ex:
        gaps.append(f"identitySeedUsesHasValue: {ex}")
    vals["identitySeedUsesHasValue"] = flag
    write_generated(PID, lean_consts(vals))
    return gaps


U32 = 2 ** 32
BOUNDARY_PUB = [0, 1, 2, 3, P - 2, P - 1, P, P + 1, 2 * P, 2 * P + 1, U32 - 1, 2 ** 31, 5]
BOUNDARY_SCALAR = [0, 1, 2, 3, P - 2, P - 1, P, P + 1, U32 - 1, 2 ** 31, 2 ** 16, 65537]
BOUNDARY_MOD = [1, 2, 3, 255, 256, 65535, 65536, 65537, P, P + 1, 2 ** 31, U32 - 1, U32 - 2, 4294967291]


def rscalar(rng):
    r = rng.random()
    if r < 0.35:
        return rng.choice(BOUNDARY_SCALAR)
    if r < 0.5:
        return rng.randrange(2, 300)
    return rng.randrange(2, P - 1)


def rid(rng, letters="abcdefgh"):
    return f"{rng.choice(letters)}{rng.randrange(0, 2 ** 32) if rng.random() < 0.3 else rng.randrange(1, 50)}"


def rbits(rng):
    return rng.choice([0, 0, 1, 2, 3, 4, 4, 5, 6, 8, 9, 10])


def gen_pure(rng) -> Case:
    ops = []
    for _ in range(rng.randint(8, 20)):
        k = rng.random()
        if k < 0.3:
            b = rng.choice([0, 1, 2, 5, P - 1, P, U32 - 1, U32, 2 ** 63, 2 ** 64 - 1, rng.randrange(0, 2 ** 64)])
            e = rng.choice([0, 1, 2, 3, 31, 32, 2 ** 31, U32 - 1, U32 - 2, P - 1, rng.randrange(0, U32)])
            m = rng.choice(BOUNDARY_MOD + [rng.randrange(1, U32)])
            ops.append(f"modexp {b} {e} {m}")
        elif k < 0.45:
            ops.append(f"pub {rscalar(rng)}")
        elif k < 0.65:
            c = rng.choice(BOUNDARY_PUB + [rng.randrange(0, U32)])
            ops.append(f"validate {c}")
        elif k < 0.8:
            ops.append(f"secret {rscalar(rng)} {rng.choice(BOUNDARY_PUB + [rng.randrange(0, U32)])}")
        elif k < 0.92:
            a = rng.choice(BOUNDARY_PUB + [rng.randrange(0, U32)])
            b = rng.choice([a, a + 1 if a + 1 < U32 else a, rng.randrange(0, U32), 256, 255, 65536, 16777216] + BOUNDARY_PUB)
            ops.append(f"material {a} {b}")
            ops.append(f"dh {rscalar(rng)} {rscalar(rng)}")
        else:
            secret = bytes(rng.randrange(256) for _ in range(32)).hex()
            n = rng.choice([0, 1, 7, 8, 9, 55, 56, 64, 100])
            mat = bytes(rng.randrange(256) for _ in range(n)).hex() or "-"
            ops.append(f"register {secret} {mat}")
    return Case(ops=ops, tag="pure")


def gen_hsk(rng) -> Case:
    ops = []
    for _ in range(rng.randint(1, 3)):
        shape = rng.random()
        ida, idb = rid(rng, "abcd"), rid(rng, "efgh")
        if shape < 0.6:       # equal difficulty: the mutual handshake must succeed with equal keys
            bits = rbits(rng)
            sa, sb = rng.randrange(2, P - 1), rng.randrange(2, P - 1)
            if rng.random() < 0.3:
                sa = rng.choice([2, 3, P - 2, P - 3])
            if rng.random() < 0.1:
                sb = sa
            ops.append(f"hsk {sa} {ida} {bits} {sb} {idb} {bits}")
        elif shape < 0.8:     # unequal difficulty: the side with the higher requirement may refuse
            ops.append(f"hsk {rscalar(rng)} {ida} {rbits(rng)} {rscalar(rng)} {idb} {rbits(rng)}")
        elif shape < 0.9:     # degenerate scalars (publics 1 / refused)
            ops.append(f"hsk {rng.choice([0, P - 1, 2 * (P - 1) if 2 * (P - 1) < U32 else 0, 1])} {ida} 0 {rscalar(rng)} {idb} 0")
        else:                 # caps above 24 are clamped (kept cheap: pair with itself at 0 bits through hskpub)
            ops.append(f"hsk {rscalar(rng)} {ida} 0 {rscalar(rng)} {idb} 0")
    return Case(ops=ops, tag="mutual")


def gen_history(rng) -> Case:
    """repeated mutual handshakes for the same peer ids while one or both sides come back with a new key pair
    (same peer id), inside (cooldown 3600 s) and outside (cooldown 0) the cooldown, with failing attempts in between"""
    ida, idb = rid(rng, "abcd"), rid(rng, "efgh")
    bits = rng.choice([0, 0, 1, 2, 3, 4, 6])
    cd = lambda: rng.choice([0, 3600])
    good = lambda: rng.randrange(2, P - 1)
    cda, cdb = cd(), cd()
    ops = [f"node A {ida} {good()} {bits} {cda}", f"node B {idb} {good()} {bits} {cdb}", "mutual A B"]
    for _ in range(rng.randint(1, 5)):
        r = rng.random()
        if r < 0.45:      # B restarts with a new identity (same peer id); both sides handshake again
            ops.append(f"node B {idb} {good()} {bits} {cdb}")
            ops.append(rng.choice(["mutual A B", "mutual B A"]))
        elif r < 0.6:     # A restarts as well
            ops.append(f"node A {ida} {good()} {bits} {cda}")
            ops.append(rng.choice(["mutual A B", "mutual B A"]))
        elif r < 0.75:    # exact repeat (short-circuit inside the cooldown)
            ops.append("mutual A B")
        elif r < 0.9:     # a refused attempt under B's id must leave A's key alone
            ops.append(f"hs A {idb} {rng.choice([0, 1, P, P + 1, U32 - 1])} {rng.randrange(0, 2 ** 64)}")
            ops.append(f"key A {idb}")
        else:             # a third party with its own key claims B's id (accepted only at 0 bits): A re-keys to that key
            ops.append(f"hs A {idb} {rng.randrange(2, P)} {rng.randrange(0, 2 ** 64)}")
            ops.append(f"key A {idb}")
    ops.append(f"key A {idb}")
    ops.append(f"key B {ida}")
    return Case(ops=ops, tag="history")


def gen_pub(rng) -> Case:
    ops = []
    for _ in range(rng.randint(3, 8)):
        bits = rng.choice([0, 0, 0, 1, 2, 3, 4, 200])
        pub = rng.choice(BOUNDARY_PUB + [rng.randrange(0, U32), rng.randrange(2, P)])
        nonce = rng.choice([0, 1, 2 ** 64 - 1, rng.randrange(0, 2 ** 64)])
        ops.append(f"hskpub {rscalar(rng)} {rid(rng, 'ab')} {bits} {rid(rng, 'pq')} {pub} {nonce}")
    return Case(ops=ops, tag="publics")


def gen_ident(rng) -> Case:
    # identity seeds: 0 (a configured seed like any other), 1, 2^32-1, random
    return Case(ops=[f"ident {rng.choice([0, 0, 1, 2, 7, U32 - 1, rng.randrange(0, U32)])}" for _ in range(rng.randint(2, 6))], tag="ident")


def generate(ctx, budget):
    out = _generate(ctx, budget)
    for n in _H["notes"]:
        if n not in ctx.notes:
            ctx.notes.append(n)
    if _H["internals"]:
        return out
    kept = []
    for c in out:
        ops = [op for op in c.ops if op.split(" ", 1)[0] not in INTERNAL_OPS]
        if ops:
            kept.append(Case(ops=ops, tag=c.tag))
    return kept


def _generate(ctx, budget):
    rng = ctx.rng
    out = []
    for i in range(budget):
        r = rng.random()
        out.append(gen_pure(rng) if r < 0.35 else gen_hsk(rng) if r < 0.55 else gen_history(rng) if r < 0.8
                   else gen_pub(rng) if r < 0.94 else gen_ident(rng))
    return out


def nontrivial(r: CaseResult) -> bool:
    """a case counts if it contains a mutual handshake accepted on both sides, a refusal, or a modexp with a
    result other than 0/1 (pure cases), i.e. the key path or the arithmetic was really exercised"""
    for op, o in zip(r.case.ops, r.impl):
        if op.startswith("hsk ") and "okA=1 okB=1" in o:
            return True
        if op.startswith("mutual") and "okX=1 okY=1" in o:
            return True
        if op.startswith("hskpub") and o.startswith("ok="):
            return True
        if op.startswith("modexp") and o not in ("0", "1"):
            return True
        if op.startswith("ident"):
            return True
    return False


def spec() -> Spec:
    return Spec(
        pid=PID,
        proof_modules=["EphVerif.Proofs.C12"],
        soft_proof_modules=["EphVerif.Proofs.SystemHandshake"],
        driver="drv_c12",
        harness=harness,
        generate=generate,
        extract=extract,
        nontrivial=nontrivial,
        budget={"quick": 500, "thorough": 9000},
        search_budget={"quick": 1500, "thorough": 20000},
        divergence_is_violation=False,
        per_case_timeout=60.0,
        rule="four streams: pure (modexp/compute_public/validate_public/derive_shared_secret/material/register on random and boundary "
             "values {0,1,2,p-2,p-1,p,p+1,2^32-1,...}), mutual (two real Nodes, scalars set through private access, work solved by "
             "generate_handshake_work at 0-10 bits, perform_handshake both ways, session keys compared), publics (one node receiving boundary "
             "public values and arbitrary nonces), ident (nodes created from identity seeds), history (the same two peer ids "
             "handshaking repeatedly while one or both sides restart with a new key pair, cooldown 0 s / 3600 s, refused and "
             "third-party attempts in between; after every accepted handshake the held key must be the one derived from the "
             "current public keys); distinct = sha256 of the op list; "
             "non-trivial = a mutual handshake accepted on both sides, a hskpub decision, a modexp result other than 0/1, or an identity check",
        trusted_base=["EphVerif.Spec.sha256 / hmacSha256 (C08's FIPS 180-4 / RFC 2104 transcriptions) as the hash and MAC of the driver; the theorems hold for every hash/MAC",
                      "std::mt19937_64 re-implementation in the driver (validated by the differential run itself)",
                      "private members identity_scalar_/identity_public_ set through -fno-access-control to choose the private scalars"],
        assumptions=["time-driven key rotation (KeyManager::rotate_if_needed) is outside this check (C21)"],
    )


def run(tier, seed, replay=None):
    return standard_check(spec(), tier, seed, replay)
